#!/usr/bin/env python3
# Regenerates MANIFEST.json from checks.json (per-property texts) — keeps the manifest valid.
import json, os
here = os.path.dirname(os.path.abspath(__file__))
spec = json.load(open(os.path.join(here, 'checks.json')))
baseline = json.load(open('/root/.vp/BASELINE.json'))['cmd'] if os.path.exists('/root/.vp/BASELINE.json') else "cd /repo && go test -vet=off -count=1 ./..."
m = {
 "version": 1,
 "setup_cmd": "cd engine && GOFLAGS=-mod=mod GOPROXY=off GOSUMDB=off GOTOOLCHAIN=local go build -o ../bin/gosym . && cd .. && ./check SELF --tier quick --no-evidence",
 "hooks": {"guard": "verif", "enable": "none needed: harnesses and the zzvf API are injected with go/packages and `go test -overlay`; nothing is written into /repo",
           "baseline_off_cmd": "cd /repo && GOFLAGS=-mod=mod GOPROXY=off go test -vet=off -count=1 -timeout 25m ./...",
           "source_commits": spec.get("source_commits", []), "add_only": True},
 "engines": [{"name": "gosym", "path": "engine/", "serves_properties": [c["property_id"] for c in spec["checks"]],
              "kind_free_text": "own bounded symbolic executor for go/ssa (x/tools v0.29.0) emitting SMT-LIB2 to z3 5.1 / cvc5 (int-blasting) / z3 4.8; native replay of models via go test -overlay"}],
 "checks": [], "not_applicable": spec.get("not_applicable", []),
 "notes": spec.get("notes", "")
}
for c in spec["checks"]:
    pid = c["property_id"]
    m["checks"].append({
        "property_id": pid,
        "quick_cmd": f"./check {pid} --tier quick",
        "thorough_cmd": f"./check {pid} --tier thorough",
        "evidence_file": f"evidence/{pid}.json",
        "replay_cmd_template": "./check --replay {path}",
        "engine": "gosym",
        "level_claimed": {"category": "model_checking", "text": c["text"], "design_ref": c.get("design_ref", "DESIGN.md section 6 " + pid)},
        "level_note": c["note"],
        "technique": c.get("technique", "bounded symbolic execution of go/ssa + SMT (QF_BV/FP), counterexamples replayed natively"),
    })
json.dump(m, open(os.path.join(here, 'MANIFEST.json'), 'w'), indent=1)
print("checks:", len(m["checks"]), "not_applicable:", len(m["not_applicable"]))
