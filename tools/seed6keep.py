#!/usr/bin/env python3
# copies every verified round-6 seed from $SEEDROOT (default /tmp/seed6) into /verif/seeded/<id>/ (re-runnable)
import json,os,re,sys,shutil,glob
root=os.environ.get('SEEDROOT','/tmp/seed6')
R=os.environ.get('ROUND','6')
closed={}
cf='/verif/seeded/r%s_closed.json'%R
if os.path.exists(cf): closed=json.load(open(cf))
manual={}
mf='/verif/seeded/r%s_manual.json'%R
if os.path.exists(mf): manual=json.load(open(mf))
rows=[]
for f in sorted(glob.glob(root+'/out/C??[AB].txt')):
    t=open(f).read()
    mv=re.search(r'^VERIFY (C\d\d)([AB]) (.*)$',t,re.M); mr=re.search(r'^RESULT (C\d\d)([AB]) (.*?) \|\|(.*)$',t,re.M)
    if not mv or not mr: continue
    pid,X=mv.group(1),mv.group(2)
    ver=mv.group(3); caught=mr.group(4).strip()
    if pid+X in manual: ver='build=ok demo_with=[FAIL] demo_without=[ok] '+manual[pid+X]
    if 'build=ok' not in ver or 'demo_with=[FAIL' not in ver and 'demo_with=[---' not in ver and 'demo_with=[panic' not in ver: print('NOT VERIFIED',pid,X,ver); continue
    if 'demo_without=[ok' not in ver: print('NOT VERIFIED (without)',pid,X,ver); continue
    w=root+'/'+pid
    m=json.load(open('%s/SEED_%s_meta.json'%(w,X)))
    slug=re.sub(r'[^a-z0-9]+','-',m['summary'].lower())[:48].strip('-')
    id='%s-r%s%s-%s'%(pid,R,X.lower(),slug)
    d='/verif/seeded/'+id; os.makedirs(d,exist_ok=True)
    shutil.copy('%s/SEED_%s_patch.diff'%(w,X),d+'/patch.diff'); shutil.copy('%s/SEED_%s_demo_test.go.txt'%(w,X),d+'/demo_test.go.txt')
    key=pid+X
    out={"property":m["property"],"summary":m["summary"],"needs":m["needs"],"files":m["files"],"demo_cmd":m["demo"],
      "demo_file":"demo_test.go.txt (first line names the package directory; copy there as zz_demo_test.go)",
      "verified_here":ver,"checks":caught}
    if key in closed: out["closed_by"]=closed[key]
    json.dump(out,open(d+'/meta.json','w'),indent=1)
    rows.append((pid,X,m['summary'],caught,closed.get(key,'')))
print(len(rows),'kept')
json.dump(rows,open('/verif/seeded/r%s_table.json'%R,'w'),indent=1)
