#!/usr/bin/env python3
# usage: ./check Cxx | tools/kf_add.py Cxx <regex on label> <what>   -- adds matching VIOLATION labels as open known findings
import sys, json, re
prop, rx, what = sys.argv[1], re.compile(sys.argv[2]), sys.argv[3]
k = json.load(open('/verif/known_findings.json'))
have = {(e['property'], e['label']) for e in k['open']}
n = 0
for line in sys.stdin:
    m = re.search(r'^VIOLATION property=(\S+) .*label=(\S+)', line)
    if not m or m.group(1) != prop: continue
    lab = m.group(2)
    if rx.search(lab) and (prop, lab) not in have:
        k['open'].append({"property": prop, "label": lab, "what": what})
        have.add((prop, lab)); n += 1
json.dump(k, open('/verif/known_findings.json', 'w'), indent=1)
print("added", n)
