#!/bin/bash
# usage: tools/seed6.sh <pid> <A|B> <check> [more checks...]
# round-6 seeds (two per worktree $SEEDROOT/<pid>): re-verifies the seed in its worktree
# (builds; demo fails with / passes without; suite passes with), then runs the named checks
# against the worktree with the patch applied (VERIF_REPO=<worktree>: /repo is not touched, so
# several seeds can be evaluated at once) and reverts. Prints one RESULT line.
# Final confirmation of a catch on /repo itself: tools/seed2.sh (git -C /repo apply ... checkout).
pid=$1; X=$2; shift 2
w=${SEEDROOT:-/tmp/seed6}/$pid
export GOFLAGS=-mod=mod GOPROXY=off GOSUMDB=off GOTOOLCHAIN=local
cd $w || exit 2
patch=SEED_${X}_patch.diff; demo=SEED_${X}_demo_test.go.txt; meta=SEED_${X}_meta.json
[ -f $patch ] && [ -f $demo ] && [ -f $meta ] || { echo "RESULT $pid$X missing deliverables"; exit 2; }
git checkout -q -- . ; find . -name zz_demo_test.go -delete
pkgdir=$(head -1 $demo | sed 's/.*package dir: *//' | tr -d ' \r')
democmd=$(python3 -c "import json;print(json.load(open('$meta'))['demo'])")
git apply $patch || { echo "RESULT $pid$X patch does not apply"; exit 2; }
b=ok; go build ./... >/dev/null 2>&1 || b=FAIL
cp $demo $pkgdir/zz_demo_test.go
d1=$(eval "timeout 300 $democmd" 2>&1 | tail -1 | cut -c1-80)
git apply -R $patch
d2=$(eval "timeout 300 $democmd" 2>&1 | tail -1 | cut -c1-80)
git apply $patch
rm -f $pkgdir/zz_demo_test.go
suite=$(go test -vet=off -count=1 ./... 2>&1 | grep -E "^(FAIL|---|panic)" | grep -v "TestSingleConnect\|TestMultiConnect\|^FAIL$\|FAIL.github.com/whatap/golib/net/oneway" | head -3 | tr '\n' ';')
rm -f logger/logfile/logs/*$(date +%Y%m%d)* 2>/dev/null
echo "VERIFY $pid$X build=$b demo_with=[$d1] demo_without=[$d2] suite_other_failures=[${suite}]"
caught=""
for p in "$@"; do
  out=$(cd /verif && VERIF_REPO=$w timeout 2400 ./check $p --no-evidence 2>&1 | grep -v "^INIT\|^KNOWN")
  v=$(echo "$out" | grep "^VIOLATION" | sed 's/.*label=\([^ ]*\).*/\1/' | head -4 | tr '\n' ' ')
  inc=$(echo "$out" | grep -c "^INCONCLUSIVE")
  [ -n "$v" ] && caught="$caught $p:[$v]" || caught="$caught $p:MISSED(inconclusive=$inc)"
done
git apply -R $patch; git checkout -q -- .
echo "RESULT $pid$X $(python3 -c "import json;print(json.load(open('$w/$meta'))['summary'][:150])") ||$caught"
