#!/bin/bash
# usage: tools/seedkeep.sh <seed-worktree> <id> "<caught-by text>"
# re-verifies the seed in its scratch worktree, stores it under /verif/seeded/<id>/ and removes the worktree
w=$1; id=$2; caught=$3
export GOFLAGS=-mod=mod GOPROXY=off GOSUMDB=off GOTOOLCHAIN=local
cd $w || exit 2
demo=$(python3 -c "import json;print(json.load(open('SEED_meta.json'))['demo'])")
pkgdir=$(head -1 SEED_demo_test.go.txt | grep -o '[a-z/]*[a-z]' | grep / | head -1)
b=ok; go build ./... >/dev/null 2>&1 || b=FAIL
# suite with change, demo moved aside
demofile=$(git status --short | grep zz_demo_test.go | awk '{print $2}')
mv $demofile /tmp/zz_demo_hold.go
suite=$(go test -vet=off -count=1 ./... 2>&1 | grep -v "^ok\|no test files" | grep -v "net/oneway" | head -5)
mv /tmp/zz_demo_hold.go $demofile
d1=$(cd $w && eval "$demo" 2>&1 | tail -3)
git apply -R SEED_patch.diff
d2=$(cd $w && eval "$demo" 2>&1 | tail -1)
git apply SEED_patch.diff
mkdir -p /verif/seeded/$id
cp SEED_patch.diff /verif/seeded/$id/patch.diff
cp $demofile /verif/seeded/$id/demo_test.go.txt
python3 - "$id" "$b" "$suite" "$d1" "$d2" "$caught" "$demofile" <<'PY'
import json,sys
id,b,suite,d1,d2,caught,demofile=sys.argv[1:8]
m=json.load(open('SEED_meta.json'))
out={"property":m["property"],"summary":m["summary"],"needs":m["needs"],"files":m["files"],"demo_file":demofile,"demo_cmd":m["demo"],
 "verified_here":{"builds":b=="ok","suite_with_change_non_ok_lines(excluding net/oneway network tests)":suite,"demo_with_change_tail":d1,"demo_without_change_tail":d2},
 "checks":caught}
json.dump(out,open('/verif/seeded/%s/meta.json'%id,'w'),indent=1)
print(id, "build",b, "| suite:",suite or "all ok", "| demo with:", d1.splitlines()[-1] if d1 else "", "| without:", d2)
PY
rm -f logger/logfile/logs/*20260929* 2>/dev/null
cd /; git -C /repo worktree remove --force $w
