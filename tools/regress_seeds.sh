#!/bin/bash
# usage: tools/regress_seeds.sh [glob of seed ids, default *]   (env: OUT=/tmp/regr_seeds.txt, JOBS=1)
# Re-runs the stored seeded changes against the checks as they stand now: for each /verif/seeded/<id>
# a scratch worktree of /repo's HEAD gets patch.diff applied and the owning property's check (plus every
# property named in meta.json's "checks"/"closed_by" text) is run against it with VERIF_REPO=<worktree>;
# /repo itself is not touched. One line per seed: CAUGHT <id> <prop> | MISSED <id> (inconclusive=n) | SKIP.
# The worktree and its build output are removed after each seed.
cd /verif
pat=${1:-*}
out=${OUT:-/tmp/regr_seeds.txt}
export GOFLAGS=-mod=mod GOPROXY=off GOSUMDB=off GOTOOLCHAIN=local
for d in seeded/$pat/; do
  id=$(basename $d)
  [ -f $d/patch.diff ] || continue
  w=/tmp/regr_wt_$$_$id
  git -C /repo worktree add -q --detach $w HEAD || { echo "SKIP $id (worktree)" >> $out; continue; }
  if ! git -C $w apply /verif/$d/patch.diff 2>/dev/null; then
    echo "SKIP $id (patch does not apply to the current tree)" >> $out
    git -C /repo worktree remove --force $w; continue
  fi
  props=$(python3 - "$d/meta.json" <<'PY'
import json,re,sys
m=json.load(open(sys.argv[1]))
ps=[m['property']]
for t in (m.get('checks',''),m.get('closed_by','')):
    for p in re.findall(r'\bC\d\d\b',str(t)):
        if p not in ps: ps.append(p)
print(' '.join(ps[:3]))
PY
)
  res="MISSED $id"; inc=0
  for p in $props; do
    o=$(VERIF_REPO=$w timeout 2400 ./check $p --no-evidence 2>&1)
    if echo "$o" | grep -q '^VIOLATION'; then res="CAUGHT $id $p $(echo "$o" | grep '^VIOLATION' | head -1 | sed 's/.*label=\([^ ]*\).*/\1/')"; break; fi
    inc=$((inc + $(echo "$o" | grep -c '^INCONCLUSIVE')))
  done
  [ "${res%% *}" = MISSED ] && res="$res (props: $props; inconclusive=$inc)"
  echo "$res" >> $out
  git -C /repo worktree remove --force $w
done
echo "done" >> $out
