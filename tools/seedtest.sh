#!/bin/bash
# usage: tools/seedtest.sh <seed-dir> <prop> [more props...]   applies SEED_patch.diff to /repo, runs checks, reverts
d=$1; shift
cd /repo && git status --short | grep -v '^??' | head -3
git -C /repo apply "$d/SEED_patch.diff" || { echo "patch failed"; exit 2; }
(cd /repo && GOFLAGS=-mod=mod GOPROXY=off go build ./... ) || echo "BUILD FAILED"
for p in "$@"; do
  echo "--- check $p with seed $(basename $d)"
  (cd /verif && timeout 1500 ./check $p --no-evidence 2>&1 | grep -v "^INIT\|^KNOWN" | cut -c1-220 | tail -6)
done
git -C /repo checkout -- . ; git -C /repo status --short | grep -v '^??' | head -3
