#!/bin/bash
# usage: tools/seed2keep.sh <pid> <A|B> <id> "<verify line>" "<caught-by text>"
pid=$1; X=$2; id=$3; ver=$4; caught=$5
w=${SEEDROOT:-/tmp/seed2}/$pid
mkdir -p /verif/seeded/$id
cp $w/SEED_${X}_patch.diff /verif/seeded/$id/patch.diff
cp $w/SEED_${X}_demo_test.go.txt /verif/seeded/$id/demo_test.go.txt
python3 - "$w/SEED_${X}_meta.json" "$id" "$ver" "$caught" <<'PY'
import json,sys
m=json.load(open(sys.argv[1])); id,ver,caught=sys.argv[2:5]
out={"property":m["property"],"summary":m["summary"],"needs":m["needs"],"files":m["files"],"demo_cmd":m["demo"],"demo_file":"demo_test.go.txt (first line names the package directory; copy there as zz_demo_test.go)",
 "verified_here":ver,"checks":caught}
json.dump(out,open('/verif/seeded/%s/meta.json'%id,'w'),indent=1)
PY
echo kept $id
