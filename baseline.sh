#!/bin/bash
# runs the repo's pinned test suite (guard off = repo as is) and prints pass/fail counts
cd /repo && before=$(ls logger/logfile/logs 2>/dev/null) && GOFLAGS=-mod=mod GOPROXY=off GOSUMDB=off GOTOOLCHAIN=local go test -vet=off -count=1 -timeout 25m -json ./... 2>/dev/null | python3 -c "
import sys,json
want=set(json.load(open('/root/.vp/BASELINE.json'))['stable_pass'])
res={}
for l in sys.stdin:
    try: e=json.loads(l)
    except: continue
    if e.get('Test') and e.get('Action') in('pass','fail') and '/' not in e['Test']:
        res[e['Package']+'::'+e['Test']]=e['Action']
bad=[t for t in want if res.get(t)!='pass']
print('baseline: %d/%d stable tests pass'%(len(want)-len(bad),len(want)))
for b in bad: print('  NOT PASSING',b,res.get(b))
sys.exit(1 if bad else 0)
"
rc=$?
# remove log files the test run created
for f in $(ls /repo/logger/logfile/logs 2>/dev/null); do echo "$before" | grep -qx "$f" || rm -f "/repo/logger/logfile/logs/$f"; done
exit $rc
