//vf:dir io
package io

import (
	"math"

	"github.com/whatap/golib/zzvf"
)

// ---- independent reference encoder (written from the format description) ----

// big-endian two's complement of the low n bytes of v
func zzRefBE(v uint64, n int) []byte {
	b := make([]byte, n)
	for i := 0; i < n; i++ {
		b[i] = byte(v >> uint(8*(n-1-i)))
	}
	return b
}

// decimal: shortest of the 0/1/2/3/4/5/8-byte forms that holds the value
func zzRefDecimal(v int64) []byte {
	switch {
	case v == 0:
		return []byte{0}
	case v >= -128 && v <= 127:
		return append([]byte{1}, zzRefBE(uint64(v), 1)...)
	case v >= -32768 && v <= 32767:
		return append([]byte{2}, zzRefBE(uint64(v), 2)...)
	case v >= -8388608 && v <= 8388607:
		return append([]byte{3}, zzRefBE(uint64(v), 3)...)
	case v >= -2147483648 && v <= 2147483647:
		return append([]byte{4}, zzRefBE(uint64(v), 4)...)
	case v >= -549755813888 && v <= 549755813887:
		return append([]byte{5}, zzRefBE(uint64(v), 5)...)
	}
	return append([]byte{8}, zzRefBE(uint64(v), 8)...)
}

func zzRefBlob(p []byte) []byte {
	n := len(p)
	switch {
	case n == 0:
		return []byte{0}
	case n <= 253:
		return append([]byte{byte(n)}, p...)
	case n <= 65535:
		return append(append([]byte{255}, zzRefBE(uint64(n), 2)...), p...)
	}
	return append(append([]byte{254}, zzRefBE(uint64(n), 4)...), p...)
}

// zzCheck: bytes equal the reference, Size() equals bytes produced, reader consumed all.
func zzCheck(out *DataOutputX, in *DataInputX, ref []byte, what string) {
	b := out.ToByteArray()
	zzvf.Assert(zzvf.Same(b, ref), what+"/bytes-equal-reference")
	zzvf.Assert(out.Size() == len(b), what+"/size")
	zzvf.Assert(in.Available() == 0, what+"/consumed-exactly")
}

func ZZ_C01_Bool() {
	v := zzvf.Bool()
	out := NewDataOutputX()
	out.WriteBool(v)
	in := NewDataInputX(out.ToByteArray())
	r := in.ReadBool()
	zzvf.Observe("r", r)
	zzvf.Assert(r == v, "bool/roundtrip")
	ref := []byte{0}
	if v {
		ref[0] = 1
	}
	zzCheck(out, in, ref, "bool")
	zzvf.Reach("bool")
}

func ZZ_C01_Byte() {
	v := zzvf.Byte()
	out := NewDataOutputX()
	out.WriteByte(v)
	in := NewDataInputX(out.ToByteArray())
	r := in.ReadByte()
	zzvf.Observe("r", r)
	zzvf.Assert(r == v, "byte/roundtrip")
	zzCheck(out, in, []byte{v}, "byte")
	zzvf.Reach("byte")
}

func ZZ_C01_Short() {
	v := zzvf.Int16()
	out := NewDataOutputX()
	out.WriteShort(v)
	in := NewDataInputX(out.ToByteArray())
	r := in.ReadShort()
	zzvf.Observe("r", r)
	zzvf.Assert(r == v, "short/roundtrip")
	zzCheck(out, in, zzRefBE(uint64(v), 2), "short")
	in2 := NewDataInputX(out.ToByteArray())
	zzvf.Assert(in2.ReadUnsignedShort() == uint16(v), "short/read-unsigned")
	zzvf.Reach("short")
}

func ZZ_C01_UShort() {
	v := zzvf.Uint16()
	out := NewDataOutputX()
	out.WriteUShort(v)
	in := NewDataInputX(out.ToByteArray())
	r := in.ReadUShort()
	zzvf.Observe("r", r)
	zzvf.Assert(r == v, "ushort/roundtrip")
	zzCheck(out, in, zzRefBE(uint64(v), 2), "ushort")
	zzvf.Reach("ushort")
}

func ZZ_C01_Int3() {
	v := zzvf.Int32()
	zzvf.Assume(v >= INT3_MIN_VALUE)
	zzvf.Assume(v <= INT3_MAX_VALUE)
	out := NewDataOutputX()
	out.WriteInt3(v)
	in := NewDataInputX(out.ToByteArray())
	r := in.ReadInt3()
	zzvf.Observe("r", r)
	zzvf.Assert(r == v, "int3/roundtrip")
	zzCheck(out, in, zzRefBE(uint64(v), 3), "int3")
	zzvf.Reach("int3")
}

func ZZ_C01_Int() {
	v := zzvf.Int32()
	out := NewDataOutputX()
	out.WriteInt(v)
	in := NewDataInputX(out.ToByteArray())
	r := in.ReadInt()
	zzvf.Observe("r", r)
	zzvf.Assert(r == v, "int/roundtrip")
	zzCheck(out, in, zzRefBE(uint64(v), 4), "int")
	in2 := NewDataInputX(out.ToByteArray())
	zzvf.Assert(in2.ReadUnsignedInt() == uint32(v), "int/read-unsigned")
	zzvf.Reach("int")
}

func ZZ_C01_Long5() {
	v := zzvf.Int64()
	zzvf.Assume(v >= LONG5_MIN_VALUE)
	zzvf.Assume(v <= LONG5_MAX_VALUE)
	out := NewDataOutputX()
	out.WriteLong5(v)
	in := NewDataInputX(out.ToByteArray())
	r := in.ReadLong5()
	zzvf.Observe("r", r)
	zzvf.Assert(r == v, "long5/roundtrip")
	zzCheck(out, in, zzRefBE(uint64(v), 5), "long5")
	zzvf.Reach("long5")
}

func ZZ_C01_Long() {
	v := zzvf.Int64()
	out := NewDataOutputX()
	out.WriteLong(v)
	in := NewDataInputX(out.ToByteArray())
	r := in.ReadLong()
	zzvf.Observe("r", r)
	zzvf.Assert(r == v, "long/roundtrip")
	zzCheck(out, in, zzRefBE(uint64(v), 8), "long")
	zzvf.Reach("long")
}

func ZZ_C01_Float() {
	v := zzvf.Float32()
	out := NewDataOutputX()
	out.WriteFloat(v)
	in := NewDataInputX(out.ToByteArray())
	r := in.ReadFloat()
	zzvf.Observe("r", r)
	// bitwise: every NaN payload must survive
	zzvf.Assert(math.Float32bits(r) == math.Float32bits(v), "float/roundtrip-bitwise")
	zzCheck(out, in, zzRefBE(uint64(math.Float32bits(v)), 4), "float")
	zzvf.Reach("float")
}

func ZZ_C01_Double() {
	v := zzvf.Float64()
	out := NewDataOutputX()
	out.WriteDouble(v)
	in := NewDataInputX(out.ToByteArray())
	r := in.ReadDouble()
	zzvf.Observe("r", r)
	zzvf.Assert(math.Float64bits(r) == math.Float64bits(v), "double/roundtrip-bitwise")
	zzCheck(out, in, zzRefBE(math.Float64bits(v), 8), "double")
	zzvf.Reach("double")
}

func ZZ_C01_Decimal() {
	v := zzvf.Int64()
	out := NewDataOutputX()
	out.WriteDecimal(v)
	b := out.ToByteArray()
	in := NewDataInputX(b)
	r := in.ReadDecimal()
	zzvf.Observe("len", len(b))
	zzvf.Observe("r", r)
	zzvf.Assert(r == v, "decimal/roundtrip")
	// canonicity + layout: equals the reference (shortest form) byte for byte
	zzCheck(out, in, zzRefDecimal(v), "decimal")
	// ReadDecimalLen with the length byte read separately
	in2 := NewDataInputX(b)
	n := int(in2.ReadByte())
	zzvf.Assert(in2.ReadDecimalLen(n) == v, "decimal/read-len")
	zzvf.Reach("decimal")
}

// little-endian read helpers decode the byte-reversed layout of the same widths
func ZZ_C01_Little() {
	b := zzvf.Bytes(8)
	rev := make([]byte, 8)
	for i := range b {
		rev[7-i] = b[i]
	}
	// 16 bit: big-endian view of b[0:2] equals little-endian view of reversed pair
	zzvf.Assert(ToShortLittle([]byte{b[1], b[0]}, 0) == ToShort(b, 0), "little/short")
	zzvf.Assert(ToUshortLittle([]byte{b[1], b[0]}, 0) == ToUShort(b, 0), "little/ushort")
	zzvf.Assert(ToIntLittle([]byte{b[3], b[2], b[1], b[0]}, 0) == ToInt(b, 0), "little/int")
	zzvf.Assert(ToUintLittle([]byte{b[3], b[2], b[1], b[0]}, 0) == ToUint(b, 0), "little/uint")
	zzvf.Assert(ToLongLittle(rev, 0) == ToLong(b, 0), "little/long")
	zzvf.Assert(ToUlongLittle(rev, 0) == uint64(ToLong(b, 0)), "little/ulong")
	// through the stream API
	zzvf.Assert(NewDataInputX([]byte{b[1], b[0]}).ReadShortLittle() == NewDataInputX(b).ReadShort(), "little/read-short")
	zzvf.Assert(NewDataInputX([]byte{b[1], b[0]}).ReadUnsignedShortLittle() == NewDataInputX(b).ReadUnsignedShort(), "little/read-ushort")
	zzvf.Assert(NewDataInputX([]byte{b[3], b[2], b[1], b[0]}).ReadIntLittle() == NewDataInputX(b).ReadInt(), "little/read-int")
	zzvf.Assert(NewDataInputX([]byte{b[3], b[2], b[1], b[0]}).ReadUintLittle() == NewDataInputX(b).ReadUnsignedInt(), "little/read-uint")
	zzvf.Reach("little")
}
