//vf:dir io
package io

import "github.com/whatap/golib/zzvf"

// reference big-endian encoder (independent of the code under test)
func zzRefBE(v uint64, n int) []byte {
	b := make([]byte, n)
	for i := 0; i < n; i++ {
		b[i] = byte(v >> uint(8*(n-1-i)))
	}
	return b
}

func zzSameBytes(a, b []byte) bool {
	if len(a) != len(b) {
		return false
	}
	ok := true
	for i := range a {
		ok = zzvf.And(ok, a[i] == b[i])
	}
	return ok
}

func ZZ_C01_Int() {
	v := zzvf.Int32()
	out := NewDataOutputX()
	out.WriteInt(v)
	b := out.ToByteArray()
	zzvf.Assert(zzSameBytes(b, zzRefBE(uint64(uint32(v)), 4)), "int/bytes")
	zzvf.Assert(out.Size() == 4, "int/size")
	in := NewDataInputX(b)
	r := in.ReadInt()
	zzvf.Observe("r", r)
	zzvf.Assert(r == v, "int/roundtrip")
	zzvf.Reach("int/end")
}

func ZZ_C01_Decimal() {
	v := zzvf.Int64()
	out := NewDataOutputX()
	out.WriteDecimal(v)
	b := out.ToByteArray()
	in := NewDataInputX(b)
	r := in.ReadDecimal()
	zzvf.Observe("len", len(b))
	zzvf.Observe("r", r)
	zzvf.Assert(r == v, "decimal/roundtrip")
	zzvf.Assert(out.Size() == len(b), "decimal/size")
	zzvf.Reach("decimal/end")
}
