//vf:dir io
package io

import (
	"math"

	"github.com/whatap/golib/zzvf"
)

// one recorded write: kind + value(s)
type zzOp struct {
	kind int
	i64  int64
	f32  float32
	f64  float64
	b    []byte
	s    string
	a    []int32
}

const zzNOps = 15

func zzGenOp() zzOp {
	op := zzOp{kind: zzvf.Choose(zzNOps)}
	switch op.kind {
	case 0, 1, 2, 3, 4, 5, 6, 7, 8: // bool byte short ushort int3 int long5 long decimal
		op.i64 = zzvf.Int64()
		if op.kind == 4 {
			zzvf.Assume(op.i64 >= INT3_MIN_VALUE)
			zzvf.Assume(op.i64 <= INT3_MAX_VALUE)
		}
		if op.kind == 6 {
			zzvf.Assume(op.i64 >= LONG5_MIN_VALUE)
			zzvf.Assume(op.i64 <= LONG5_MAX_VALUE)
		}
	case 9:
		op.f32 = zzvf.Float32()
	case 10:
		op.f64 = zzvf.Float64()
	case 11, 12: // blob, short bytes
		op.b = zzvf.Bytes(zzvf.Choose(3))
	case 13: // text
		op.s = zzvf.String(zzvf.Choose(3))
	case 14: // int array
		n := zzvf.Choose(3)
		op.a = []int32{}
		for i := 0; i < n; i++ {
			op.a = append(op.a, zzvf.Int32())
		}
	}
	return op
}

func zzWrite(out *DataOutputX, op zzOp) []byte {
	switch op.kind {
	case 0:
		out.WriteBool(op.i64&1 == 1)
		return []byte{byte(op.i64 & 1)}
	case 1:
		out.WriteByte(byte(op.i64))
		return []byte{byte(op.i64)}
	case 2:
		out.WriteShort(int16(op.i64))
		return zzRefBE(uint64(op.i64), 2)
	case 3:
		out.WriteUShort(uint16(op.i64))
		return zzRefBE(uint64(op.i64), 2)
	case 4:
		out.WriteInt3(int32(op.i64))
		return zzRefBE(uint64(op.i64), 3)
	case 5:
		out.WriteInt(int32(op.i64))
		return zzRefBE(uint64(op.i64), 4)
	case 6:
		out.WriteLong5(op.i64)
		return zzRefBE(uint64(op.i64), 5)
	case 7:
		out.WriteLong(op.i64)
		return zzRefBE(uint64(op.i64), 8)
	case 8:
		out.WriteDecimal(op.i64)
		return zzRefDecimal(op.i64)
	case 9:
		out.WriteFloat(op.f32)
		return zzRefBE(uint64(math.Float32bits(op.f32)), 4)
	case 10:
		out.WriteDouble(op.f64)
		return zzRefBE(math.Float64bits(op.f64), 8)
	case 11:
		out.WriteBlob(op.b)
		return zzRefBlob(op.b)
	case 12:
		out.WriteShortBytes(op.b)
		return append(zzRefBE(uint64(len(op.b)), 2), op.b...)
	case 13:
		out.WriteText(op.s)
		return zzRefBlob([]byte(op.s))
	}
	out.WriteIntArray(op.a)
	r := zzRefBE(uint64(len(op.a)), 2)
	for _, v := range op.a {
		r = append(r, zzRefBE(uint64(v), 4)...)
	}
	return r
}

func zzReadCheck(in *DataInputX, op zzOp) bool {
	switch op.kind {
	case 0:
		return in.ReadBool() == (op.i64&1 == 1)
	case 1:
		return in.ReadByte() == byte(op.i64)
	case 2:
		return in.ReadShort() == int16(op.i64)
	case 3:
		return in.ReadUShort() == uint16(op.i64)
	case 4:
		return in.ReadInt3() == int32(op.i64)
	case 5:
		return in.ReadInt() == int32(op.i64)
	case 6:
		return in.ReadLong5() == op.i64
	case 7:
		return in.ReadLong() == op.i64
	case 8:
		return in.ReadDecimal() == op.i64
	case 9:
		return math.Float32bits(in.ReadFloat()) == math.Float32bits(op.f32)
	case 10:
		return math.Float64bits(in.ReadDouble()) == math.Float64bits(op.f64)
	case 11:
		return zzvf.Same(in.ReadBlob(), op.b)
	case 12:
		return zzvf.Same(in.ReadShortBytes(), op.b)
	case 13:
		return in.ReadText() == op.s
	}
	return zzvf.Same(in.ReadIntArray(), op.a)
}

// programs: k mixed writes then the matching reads, over one stream
//vf: paths=400000 t.paths=2000000
func ZZ_C01_Program() {
	k := 2
	if zzvf.Thorough() {
		k = 3
	}
	ops := make([]zzOp, k)
	out := NewDataOutputX()
	var ref []byte
	for i := 0; i < k; i++ {
		ops[i] = zzGenOp()
		ref = append(ref, zzWrite(out, ops[i])...)
	}
	b := out.ToByteArray()
	zzvf.Assert(zzvf.Same(b, ref), "program/bytes-equal-reference")
	zzvf.Assert(out.Size() == len(b), "program/size")
	in := NewDataInputX(b)
	for i := 0; i < k; i++ {
		zzvf.Assert(zzReadCheck(in, ops[i]), "program/value-in-order")
	}
	zzvf.Assert(in.Available() == 0, "program/consumed-exactly")
	zzvf.Reach("program")
}
