//vf:dir io
package io

import (
	"math"

	"github.com/whatap/golib/zzvf"
)

func zzBlobLen(c int) int {
	// thresholds of the 1 / 255+2 / 254+4 byte headers, both sides
	ls := []int{0, 1, 2, 253, 254, 255, 256, 65535, 65536, 65537}
	return ls[c]
}

// blob: header bytes per reference, payload identical, exact consumption; nil == empty
//vf: steps=40000000
func ZZ_C01_Blob() {
	c := zzvf.Choose(11)
	var p []byte
	if c < 10 {
		p = zzvf.Bytes(zzBlobLen(c))
	} // c == 10: nil
	out := NewDataOutputX()
	out.WriteBlob(p)
	in := NewDataInputX(out.ToByteArray())
	r := in.ReadBlob()
	zzvf.Assert(zzvf.Same(r, p), "blob/roundtrip")
	zzCheck(out, in, zzRefBlob(p), "blob")
	zzvf.Reach("blob")
}

//vf: steps=40000000
func ZZ_C01_Text() {
	c := zzvf.Choose(10)
	s := zzvf.String(zzBlobLen(c))
	out := NewDataOutputX()
	out.WriteText(s)
	in := NewDataInputX(out.ToByteArray())
	r := in.ReadText()
	zzvf.Assert(r == s, "text/roundtrip")
	zzCheck(out, in, zzRefBlob([]byte(s)), "text")
	zzvf.Reach("text")
}

// 16-bit length prefixed bytes / text, 32-bit length prefixed bytes
//vf: steps=40000000
func ZZ_C01_LenPrefixed() {
	ls := []int{0, 1, 2, 255, 256, 32767, 32768, 65535}
	c := zzvf.Choose(len(ls) + 1)
	var p []byte
	if c < len(ls) {
		p = zzvf.Bytes(ls[c])
	}
	n := len(p)
	{
		out := NewDataOutputX()
		out.WriteShortBytes(p)
		in := NewDataInputX(out.ToByteArray())
		r := in.ReadShortBytes()
		zzvf.Assert(zzvf.Same(r, p), "shortbytes/roundtrip")
		zzCheck(out, in, append(zzRefBE(uint64(n), 2), p...), "shortbytes")
	}
	{
		out := NewDataOutputX()
		out.WriteTextShortLength(string(p))
		in := NewDataInputX(out.ToByteArray())
		r := in.ReadTextShortLength()
		zzvf.Assert(r == string(p), "textshort/roundtrip")
		zzCheck(out, in, append(zzRefBE(uint64(n), 2), p...), "textshort")
	}
	{
		out := NewDataOutputX()
		out.WriteIntBytes(p)
		in := NewDataInputX(out.ToByteArray())
		r := in.ReadIntBytes()
		zzvf.Assert(zzvf.Same(r, p), "intbytes/roundtrip")
		zzCheck(out, in, append(zzRefBE(uint64(n), 4), p...), "intbytes")
	}
	zzvf.Reach("lenprefixed")
}

// typed arrays: 16-bit count then elements; nil and empty are the same on the wire
func ZZ_C01_Arrays() {
	n := zzvf.Choose(5) // 0..3 elements, 4 = nil
	isNil := n == 4
	if isNil {
		n = 0
	}
	var s16 []int16
	var s32 []int32
	var s64 []int64
	var f32 []float32
	var f64 []float64
	var txt []string
	if !isNil {
		s16, s32, s64, f32, f64, txt = []int16{}, []int32{}, []int64{}, []float32{}, []float64{}, []string{}
	}
	ref16, ref32, ref64 := zzRefBE(uint64(n), 2), zzRefBE(uint64(n), 2), zzRefBE(uint64(n), 2)
	reff32, reff64, reft := zzRefBE(uint64(n), 2), zzRefBE(uint64(n), 2), zzRefBE(uint64(n), 2)
	for i := 0; i < n; i++ {
		a, b, c := zzvf.Int16(), zzvf.Int32(), zzvf.Int64()
		d, e := zzvf.Float32(), zzvf.Float64()
		t := zzvf.String(i % 3)
		s16, s32, s64, f32, f64, txt = append(s16, a), append(s32, b), append(s64, c), append(f32, d), append(f64, e), append(txt, t)
		ref16 = append(ref16, zzRefBE(uint64(a), 2)...)
		ref32 = append(ref32, zzRefBE(uint64(b), 4)...)
		ref64 = append(ref64, zzRefBE(uint64(c), 8)...)
		reff32 = append(reff32, zzRefBE(uint64(math.Float32bits(d)), 4)...)
		reff64 = append(reff64, zzRefBE(math.Float64bits(e), 8)...)
		reft = append(reft, zzRefBlob([]byte(t))...)
	}
	{
		out := NewDataOutputX()
		out.WriteShortArray(s16)
		in := NewDataInputX(out.ToByteArray())
		zzvf.Assert(zzvf.Same(in.ReadShortArray(), s16), "shortarray/roundtrip")
		zzCheck(out, in, ref16, "shortarray")
	}
	{
		out := NewDataOutputX()
		out.WriteIntArray(s32)
		in := NewDataInputX(out.ToByteArray())
		zzvf.Assert(zzvf.Same(in.ReadIntArray(), s32), "intarray/roundtrip")
		zzCheck(out, in, ref32, "intarray")
	}
	{
		out := NewDataOutputX()
		out.WriteLongArray(s64)
		in := NewDataInputX(out.ToByteArray())
		zzvf.Assert(zzvf.Same(in.ReadLongArray(), s64), "longarray/roundtrip")
		zzCheck(out, in, ref64, "longarray")
	}
	{
		out := NewDataOutputX()
		out.WriteFloatArray(f32)
		in := NewDataInputX(out.ToByteArray())
		zzvf.Assert(zzvf.Same(in.ReadFloatArray(), f32), "floatarray/roundtrip-bitwise")
		zzCheck(out, in, reff32, "floatarray")
	}
	{
		out := NewDataOutputX()
		out.WriteDoubleArray(f64)
		in := NewDataInputX(out.ToByteArray())
		zzvf.Assert(zzvf.Same(in.ReadDoubleArray(), f64), "doublearray/roundtrip-bitwise")
		zzCheck(out, in, reff64, "doublearray")
	}
	{
		out := NewDataOutputX()
		out.WriteTextArray(txt)
		in := NewDataInputX(out.ToByteArray())
		zzvf.Assert(zzvf.Same(in.ReadTextArray(), txt), "textarray/roundtrip")
		zzCheck(out, in, reft, "textarray")
	}
	zzvf.Reach("arrays")
}

// large array: 32767 elements (the largest count the 16-bit field represents), one
// symbolic element at a symbolic-by-choice position
//vf: tier=thorough steps=80000000 visits=40000
func ZZ_C01_ArrayMax() {
	n := 32767
	s := make([]int16, n)
	pos := []int{0, 1, 16383, 32766}[zzvf.Choose(4)]
	s[pos] = zzvf.Int16()
	out := NewDataOutputX()
	out.WriteShortArray(s)
	in := NewDataInputX(out.ToByteArray())
	r := in.ReadShortArray()
	zzvf.Assert(len(r) == n, "shortarray-max/len")
	zzvf.Assert(zzvf.Same(r, s), "shortarray-max/roundtrip")
	zzvf.Assert(in.Available() == 0, "shortarray-max/consumed-exactly")
	zzvf.Reach("arraymax")
}

// results are independent values: what one read returned is not altered by later reads on the same
// reader (a decoded byte string that shares storage with the reader's internals would be overwritten
// by the next fixed-width field). Two byte strings of 0..9 bytes (blob, 16-bit prefixed or raw), a
// long and an int in between, all kept until the stream is consumed and only then compared.
//vf: paths=20000
func ZZ_C01_ResultsIndependent() {
	n1, n2 := zzvf.Choose(10), zzvf.Choose(10)
	p1, p2 := zzvf.Bytes(n1), zzvf.Bytes(n2)
	l, i := zzvf.Int64(), zzvf.Int32()
	kind := zzvf.Choose(3)
	out := NewDataOutputX()
	switch kind {
	case 0:
		out.WriteBlob(p1)
	case 1:
		out.WriteShortBytes(p1)
	default:
		out.WriteBytes(p1)
	}
	out.WriteLong(l)
	out.WriteBlob(p2)
	out.WriteInt(i)
	in := NewDataInputX(out.ToByteArray())
	var r1 []byte
	switch kind {
	case 0:
		r1 = in.ReadBlob()
	case 1:
		r1 = in.ReadShortBytes()
	default:
		r1 = in.ReadBytes(int32(n1))
	}
	rl := in.ReadLong()
	r2 := in.ReadBlob()
	ri := in.ReadInt()
	zzvf.Assert(zzvf.Same(r1, p1), "independent/first-byte-string-intact-after-later-reads")
	zzvf.Assert(zzvf.Same(r2, p2), "independent/second-byte-string-intact-after-later-reads")
	zzvf.Assert(zzvf.And(rl == l, ri == i), "independent/numbers")
	zzvf.Assert(in.Available() == 0, "independent/consumed-exactly")
	zzvf.Reach("independent")
}
