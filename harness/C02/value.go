//vf:dir lang/value
//vf:use valuegen.go
package value

import (
	"github.com/whatap/golib/io"
	"github.com/whatap/golib/util/hmap"
	"github.com/whatap/golib/zzvf"
)

func zzRoundTrip(v Value, ref []byte, what string) {
	out := io.NewDataOutputX()
	WriteValue(out, v)
	b := out.ToByteArray()
	zzvf.Assert(zzvf.Same(b, ref), what+"/bytes-equal-reference")
	in := io.NewDataInputX(b)
	d := ReadValue(in)
	zzvf.Assert(d.GetValueType() == v.GetValueType(), what+"/same-type-code")
	zzvf.Assert(zzvf.Same(d, v), what+"/equal-content-and-order")
	zzvf.Assert(in.Available() == 0, what+"/consumed-exactly")
	out2 := io.NewDataOutputX()
	WriteValue(out2, d)
	zzvf.Assert(zzvf.Same(out2.ToByteArray(), b), what+"/reencode-identical")
}

var zzKindName = []string{"null", "bool", "decimal", "int", "long", "float", "double", "doublesummary", "longsummary", "text", "texthash", "blob", "ip4",
	"intarray", "floatarray", "textarray", "longarray", "emptylist", "list", "map", "intmap"}

// every type code; containers hold up to 2 (3 thorough) elements of every leaf shape,
// nested one level (two thorough)
//vf: paths=200000 t.paths=3000000
func ZZ_C02_RoundTrip() {
	depth, width := 1, 2
	if zzvf.Thorough() {
		// nesting depth 2 with one entry per container, or depth 1 with three entries
		// (depth 2 x width 2: 2.7 million paths in 40 min without finishing — outside the claim)
		if zzvf.Choose(2) == 0 {
			depth, width = 2, 1
		} else {
			depth, width = 1, 3
		}
	}
	k := zzvf.Choose(zzNAll)
	v, ref := zzGenKind(k, depth, width)
	zzRoundTrip(v, ref, zzKindName[k])
	zzvf.Reach("roundtrip/" + zzKindName[k])
}

// wide containers: 3 entries (collision chain of the backing table included)
//vf: paths=200000
func ZZ_C02_Wide() {
	k := 18 + zzvf.Choose(3)
	zzElemKinds = []int{0, 3, 9} // null, int, text (other shapes: ZZ_C02_RoundTrip)
	v, ref := zzGenKind(k, 1, 3)
	zzRoundTrip(v, ref, "wide-"+zzKindName[k])
	zzvf.Reach("wide/" + zzKindName[k])
}

// map with SYMBOLIC one-byte keys drawn from a colliding pair (equal keys, distinct
// keys in the same bucket arise by solving); duplicate keys excluded: a map value has
// distinct keys
func ZZ_C02_MapSymbolicKeys() {
	k1, k2 := zzvf.String(1), zzvf.String(1)
	zzvf.Assume(zzvf.Or(k1 == "p", k1 == "y"))
	zzvf.Assume(zzvf.Or(k2 == "p", k2 == "y"))
	zzvf.Assume(k1 != k2)
	m := NewMapValue()
	a, b := zzvf.Int64(), zzvf.String(1)
	m.Put(k1, NewDecimalValue(a))
	m.Put(k2, NewTextValue(b))
	ref := []byte{VALUE_MAP, 1, 2}
	ref = append(ref, zzBlob([]byte(k1))...)
	ref = append(append(ref, VALUE_DECIMAL), zzDec(a)...)
	ref = append(ref, zzBlob([]byte(k2))...)
	ref = append(append(ref, VALUE_TEXT), zzBlob([]byte(b))...)
	zzRoundTrip(m, ref, "map-symkeys")
	zzvf.Reach("map-symkeys")
}

// text / blob payloads at the header thresholds inside a value
//vf: steps=40000000
func ZZ_C02_LongPayload() {
	n := []int{253, 254, 255, 256, 65535, 65536}[zzvf.Choose(6)]
	p := zzvf.Bytes(n)
	zzRoundTrip(NewBlobValue(p), append([]byte{VALUE_BLOB}, zzBlob(p)...), "blob-threshold")
	zzRoundTrip(NewTextValue(string(p)), append([]byte{VALUE_TEXT}, zzBlob(p)...), "text-threshold")
	zzvf.Reach("longpayload")
}

// int-keyed map whose backing table GROWS while it is filled (capacity 1 -> 3 -> 7),
// with negative and extreme keys: every entry must still be found, encoded and decoded
func ZZ_C02_IntMapAcrossGrowth() {
	m := NewIntMapValue()
	m.table = hmap.NewIntKeyLinkedMap(1+zzvf.Choose(3), 0.75) // growth 1->3->7, 2->5->11, 3->7
	keys := [][]int32{{-1, 5, -2147483648, 2147483647}, {7, -7, 0, -100}}[zzvf.Choose(2)]
	n := 2 + zzvf.Choose(3)
	ref := append([]byte{INT_VALUE_MAP}, zzDec(int64(n))...)
	vals := []int64{}
	for i := 0; i < n; i++ {
		v := int64(zzvf.IntRange(1, 100))
		m.Put(keys[i], NewDecimalValue(v))
		vals = append(vals, v)
		ref = append(ref, zzBE(uint64(keys[i]), 4)...)
		ref = append(append(ref, VALUE_DECIMAL), zzDec(v)...)
	}
	ok := true
	for i := 0; i < n; i++ {
		d, isD := m.Get(keys[i]).(*DecimalValue)
		ok = zzvf.And(ok, zzvf.And(isD, d != nil && d.Val == vals[i]))
	}
	zzvf.Assert(ok, "intmap-growth/every-entry-found-after-growth")
	// (not zzRoundTrip: its structural equality would compare the small table of the
	// original with the default 101-slot table of the decoded map)
	out := io.NewDataOutputX()
	WriteValue(out, m)
	b := out.ToByteArray()
	zzvf.Assert(zzvf.Same(b, ref), "intmap-growth/bytes-equal-reference")
	in := io.NewDataInputX(b)
	d, isM := ReadValue(in).(*IntMapValue)
	zzvf.Assert(isM, "intmap-growth/same-type-code")
	if isM {
		okD := d.Size() == n
		en := d.Keys()
		for i := 0; i < n; i++ {
			okD = zzvf.And(okD, zzvf.And(en.HasMoreElements(), en.NextInt() == keys[i]))
			dv, isD := d.Get(keys[i]).(*DecimalValue)
			okD = zzvf.And(okD, zzvf.And(isD, dv != nil && dv.Val == vals[i]))
		}
		zzvf.Assert(okD, "intmap-growth/equal-content-and-order")
		out2 := io.NewDataOutputX()
		WriteValue(out2, d)
		zzvf.Assert(zzvf.Same(out2.ToByteArray(), b), "intmap-growth/reencode-identical")
	}
	zzvf.Assert(in.Available() == 0, "intmap-growth/consumed-exactly")
	zzvf.Reach("intmap-growth")
}
