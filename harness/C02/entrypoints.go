//vf:dir lang/value
//vf:use valuegen.go
package value

// C02 — "every value of the tagged value model … read back yields a value of the same type with
// equal content": the values of the other harnesses are built through ONE constructor / mutator
// per type (NewListValue(nil)+Add, Put). Here the same values are built through every other
// public entry point of the container types — the slice-taking list constructor, AddString /
// AddLong / Set, PutString / PutLong / PutAll / NewList on both map types, Clear followed by
// reuse, IntMapValue.WriteValue, the dotted-text IPv4 constructor — and must produce the same
// reference bytes and round-trip.

import (
	"github.com/whatap/golib/io"
	"github.com/whatap/golib/zzvf"
)

// vf: paths=50000
func ZZ_C02_EntryPoints() {
	i1, i2 := zzvf.Int32(), zzvf.Int64()
	s := zzvf.String(zzvf.Choose(3))
	intRef := append([]byte{VALUE_DECIMAL_INT}, zzBE(uint64(i1), 4)...)
	decRef := append([]byte{VALUE_DECIMAL}, zzDec(i2)...)
	txtRef := append([]byte{VALUE_TEXT}, zzBlob([]byte(s))...)
	cat := func(parts ...[]byte) []byte {
		var r []byte
		for _, p := range parts {
			r = append(r, p...)
		}
		return r
	}
	hdr := func(tag byte, n int) []byte { return append([]byte{tag}, zzDec(int64(n))...) } // count = decimal
	switch c := zzvf.Choose(9); c {
	case 0: // list from a caller-supplied slice of 0..3 values
		n := zzvf.Choose(4)
		src := []interface{}{}
		r := append([]byte{VALUE_LIST}, zzDec(int64(n))...)
		for i := 0; i < n; i++ {
			switch i {
			case 0:
				src = append(src, NewIntValue(i1))
				r = append(r, intRef...)
			case 1:
				src = append(src, NewTextValue(s))
				r = append(r, txtRef...)
			default:
				src = append(src, NewNullValue())
				r = append(r, VALUE_NULL)
			}
		}
		l := NewListValue(src)
		zzvf.Assert(l.Size() == n, "entrypoints/list-from-slice/size")
		zzRoundTrip(l, r, "entrypoints/list-from-slice")
	case 1: // typed adders and Set
		l := NewListValue(nil)
		l.AddString(s)
		l.AddLong(i2)
		l.Add(NewNullValue())
		l.Set(2, NewIntValue(i1))
		zzRoundTrip(l, cat(hdr(VALUE_LIST, 3), txtRef, decRef, intRef), "entrypoints/list-typed-adders-and-set")
	case 2: // list reused after Clear
		l := NewListValue([]interface{}{NewIntValue(i1), NewIntValue(i1)})
		l.Clear()
		zzvf.Assert(l.Size() == 0, "entrypoints/list-clear/size")
		l.AddLong(i2)
		zzRoundTrip(l, cat(hdr(VALUE_LIST, 1), decRef), "entrypoints/list-reused-after-clear")
	case 3: // string-keyed map: typed putters, overwrite keeps the position
		m := NewMapValue()
		m.PutString("p", "old")
		m.PutLong("y", i2)
		m.PutString("p", s)
		zzRoundTrip(m, cat(hdr(VALUE_MAP, 2), zzBlob([]byte("p")), txtRef, zzBlob([]byte("y")), decRef), "entrypoints/map-typed-putters")
	case 4: // PutAll: union in first-insertion order, argument's value wins
		a, b := NewMapValue(), NewMapValue()
		a.PutLong("y", 7)
		a.Put("k", NewIntValue(i1))
		b.PutString("p", s)
		b.PutLong("y", i2)
		a.PutAll(b)
		zzRoundTrip(a, cat(hdr(VALUE_MAP, 3), zzBlob([]byte("y")), decRef, zzBlob([]byte("k")), intRef, zzBlob([]byte("p")), txtRef), "entrypoints/map-putall")
		zzvf.Assert(b.Size() == 2, "entrypoints/map-putall/argument-untouched")
	case 5: // NewList: the list handed out IS the stored one (filled afterwards)
		m := NewMapValue()
		l := m.NewList("p")
		l.AddString(s)
		l.Add(NewIntValue(i1))
		zzRoundTrip(m, cat(hdr(VALUE_MAP, 1), zzBlob([]byte("p")), hdr(VALUE_LIST, 2), txtRef, intRef), "entrypoints/map-newlist")
	case 6: // map reused after Clear
		m := NewMapValue()
		m.PutLong("p", 1)
		m.PutLong("y", 2)
		m.Clear()
		zzvf.Assert(zzvf.And(m.Size() == 0, m.IsEmpty()), "entrypoints/map-clear/empty")
		m.PutString("y", s)
		zzRoundTrip(m, cat(hdr(VALUE_MAP, 1), zzBlob([]byte("y")), txtRef), "entrypoints/map-reused-after-clear")
	case 7: // int-keyed map: typed putters, NewList, Clear+reuse, WriteValue
		m := NewIntMapValue()
		m.PutLong(5, 1)
		m.Clear()
		m.PutString(-3, s)
		m.PutLong(106, i2)
		l := m.NewList(5)
		l.Add(NewIntValue(i1))
		ref := cat(hdr(INT_VALUE_MAP, 3), zzBE(uint64(0xfffffffd), 4), txtRef, zzBE(106, 4), decRef, zzBE(5, 4), hdr(VALUE_LIST, 1), intRef)
		zzRoundTrip(m, ref, "entrypoints/intmap-typed-putters")
		zzvf.Assert(zzvf.Same(m.WriteValue(io.NewDataOutputX()).ToByteArray(), ref), "entrypoints/intmap-writevalue-equals-tagged-encoding")
	case 8: // IPv4 from dotted text
		p := zzvf.Bytes(4)
		zzvf.Assume(zzvf.And(p[0] < 10, zzvf.And(p[1] < 10, zzvf.And(p[2] < 10, p[3] < 10)))) // one digit per part (text built without formatting)
		txt := string([]byte{'0' + p[0], '.', '0' + p[1], '.', '0' + p[2], '.', '0' + p[3]})
		zzRoundTrip(NewIP4ValueString(txt), append([]byte{VALUE_IP4ADDR}, p...), "entrypoints/ip4-from-text")
	}
	zzvf.Reach("entrypoints")
}
