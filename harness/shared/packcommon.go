//vf:dir lang/pack
package pack

// Shared by the pack harnesses (C03, C04, C05).

import (
	"github.com/whatap/golib/io"
	"github.com/whatap/golib/zzvf"
)

// zzFocus: focus slot of the current run (-1 = no focus), readable by the per-pack hooks.
var zzFocus int

// zzOpts: per-pack deviations from the generic round trip (nil = none).
type zzOpts struct {
	// norotate: no focus rotation (every Fill slot stays in its small class); used by the
	// variants that isolate one optional section of a pack already rotated elsewhere.
	norotate bool
	// nofill: the pack stays as constructed (only the hook populates it); used to show one
	// section in isolation when a mis-read of it would otherwise be followed by the decoding
	// of dozens of symbolic scalars at the wrong offsets.
	nofill bool
	// compare replaces the field-by-field AssertCarried(b, p, q, name) (packs whose writer
	// mutates the pack, caches, lazily decoded blobs: compared through accessors).
	compare func(b []byte, p, q Pack, name string)
	// mkEmpty: receiver of Read for unregistered packs when it differs from mk()
	mkEmpty func(p Pack) Pack

}

// zzPackRoundTrip: a pack populated with arbitrary field values survives type-tagged
// serialization: same dynamic type, every field the writer put on the wire restored,
// exact consumption, byte-identical re-encoding; both forms of the common header.
// Focus rotation: each run makes ONE field range over all its values (others within a
// small class), the driver rotates the focus over all fields.
func zzPackRoundTrip(name string, mk func() Pack, registered bool, extra func(Pack)) {
	zzPackRoundTripO(name, mk, registered, extra, nil)
}

func zzPackRoundTripO(name string, mk func() Pack, registered bool, extra func(Pack), o *zzOpts) {
	p := mk()
	focus := -1
	if o == nil || !o.norotate {
		n := zzvf.FillCount(p)
		focus = zzvf.Choose(n+1) - 1
	}
	zzFocus = focus
	if o == nil || !o.nofill {
		zzvf.Fill(p, focus, zzvf.Choose(2))
	}
	extra(p) // fields Fill does not populate (hash maps, value maps, interfaces, nested packs)
	if zzvf.Choose(2) == 0 { // header without kind/node
		p.SetOKIND(0)
		p.SetONODE(0)
	}
	var b []byte
	var q Pack
	in := (*io.DataInputX)(nil)
	if registered {
		b = ToBytesPack(p)
		in = io.NewDataInputX(b)
		q = ReadPack(in)
	} else {
		out := io.NewDataOutputX()
		p.Write(out)
		b = out.ToByteArray()
		in = io.NewDataInputX(b)
		if o != nil && o.mkEmpty != nil {
			q = o.mkEmpty(p)
		} else {
			q = mk()
		}
		q.Read(in)
	}
	zzvf.Assert(q != nil, name+"/decodes")
	zzvf.Assert(q.GetPackType() == p.GetPackType(), name+"/same-pack-type")
	zzvf.Assert(in.Available() == 0, name+"/consumed-exactly")
	if o != nil && o.compare != nil {
		o.compare(b, p, q, name)
	} else {
		zzvf.AssertCarried(b, p, q, name)
	}
	var b2 []byte
	if registered {
		b2 = ToBytesPack(q)
	} else {
		out := io.NewDataOutputX()
		q.Write(out)
		b2 = out.ToByteArray()
	}
	zzvf.Assert(zzvf.Same(b2, b), name+"/reencode-identical")
	zzvf.Reach(name)
}
