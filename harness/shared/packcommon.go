//vf:dir lang/pack
package pack

// Shared by the pack harnesses (C03, C04, C05).

import (
	"github.com/whatap/golib/io"
	"github.com/whatap/golib/zzvf"
)

// zzPackRoundTrip: a pack populated with arbitrary field values survives type-tagged
// serialization: same dynamic type, every field the writer put on the wire restored,
// exact consumption, byte-identical re-encoding; both forms of the common header.
// Focus rotation: each run makes ONE field range over all its values (others within a
// small class), the driver rotates the focus over all fields.
func zzPackRoundTrip(name string, mk func() Pack, registered bool, extra func(Pack)) {
	p := mk()
	n := zzvf.FillCount(p)
	focus := zzvf.Choose(n+1) - 1
	zzvf.Fill(p, focus, zzvf.Choose(2))
	extra(p) // fields Fill does not populate (hash maps, value maps, interfaces, nested packs)
	if zzvf.Choose(2) == 0 { // header without kind/node
		p.SetOKIND(0)
		p.SetONODE(0)
	}
	var b []byte
	var q Pack
	in := (*io.DataInputX)(nil)
	if registered {
		b = ToBytesPack(p)
		in = io.NewDataInputX(b)
		q = ReadPack(in)
	} else {
		out := io.NewDataOutputX()
		p.Write(out)
		b = out.ToByteArray()
		in = io.NewDataInputX(b)
		q = mk()
		q.Read(in)
	}
	zzvf.Assert(q != nil, name+"/decodes")
	zzvf.Assert(q.GetPackType() == p.GetPackType(), name+"/same-pack-type")
	zzvf.Assert(in.Available() == 0, name+"/consumed-exactly")
	zzvf.AssertCarried(b, p, q, name)
	var b2 []byte
	if registered {
		b2 = ToBytesPack(q)
	} else {
		out := io.NewDataOutputX()
		q.Write(out)
		b2 = out.ToByteArray()
	}
	zzvf.Assert(zzvf.Same(b2, b), name+"/reencode-identical")
	zzvf.Reach(name)
}
