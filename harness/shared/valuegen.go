//vf:dir lang/value
package value

// Shared generator of tagged values (used by the C02, C04 and C20 harnesses): the shape
// (type code, container sizes, element shapes) is chosen by the driver, every scalar
// payload is symbolic. Alongside each value the generator builds its encoding with an
// INDEPENDENT reference encoder written from the format description.

import (
	"math"

	"github.com/whatap/golib/zzvf"
)

func zzBE(v uint64, n int) []byte {
	b := make([]byte, n)
	for i := 0; i < n; i++ {
		b[i] = byte(v >> uint(8*(n-1-i)))
	}
	return b
}

func zzDec(v int64) []byte {
	switch {
	case v == 0:
		return []byte{0}
	case v >= -128 && v <= 127:
		return append([]byte{1}, zzBE(uint64(v), 1)...)
	case v >= -32768 && v <= 32767:
		return append([]byte{2}, zzBE(uint64(v), 2)...)
	case v >= -8388608 && v <= 8388607:
		return append([]byte{3}, zzBE(uint64(v), 3)...)
	case v >= -2147483648 && v <= 2147483647:
		return append([]byte{4}, zzBE(uint64(v), 4)...)
	case v >= -549755813888 && v <= 549755813887:
		return append([]byte{5}, zzBE(uint64(v), 5)...)
	}
	return append([]byte{8}, zzBE(uint64(v), 8)...)
}

func zzBlob(p []byte) []byte {
	n := len(p)
	switch {
	case n == 0:
		return []byte{0}
	case n <= 253:
		return append([]byte{byte(n)}, p...)
	case n <= 65535:
		return append(append([]byte{255}, zzBE(uint64(n), 2)...), p...)
	}
	return append(append([]byte{254}, zzBE(uint64(n), 4)...), p...)
}

const zzNLeaf = 18 // leaf (non-recursive) shapes
const zzNAll = 21

// zzStrKeys / zzIntKeys: concrete distinct keys; "p"/"y" and "e"/"l" share a bucket of
// the 101-slot table (CRC-32 mod 101), 5/106 and -3 likewise for int keys.
var zzStrKeys = []string{"p", "y", "", "e"}
var zzIntKeys = []int32{5, 106, -3, 0}

// zzGen returns a value of the chosen shape and its reference encoding (tag included).
// depth 0 => leaves only.
// zzElemKinds, when set, restricts the shapes of container elements (focus rotation).
var zzElemKinds []int

func zzGen(depth int, width int) (Value, []byte) {
	if zzElemKinds != nil {
		return zzGenKind(zzElemKinds[zzvf.Choose(len(zzElemKinds))], depth, width)
	}
	n := zzNLeaf
	if depth > 0 {
		n = zzNAll
	}
	return zzGenKind(zzvf.Choose(n), depth, width)
}

func zzGenKind(k int, depth int, width int) (Value, []byte) {
	switch k {
	case 0:
		return NewNullValue(), []byte{VALUE_NULL}
	case 1:
		b := zzvf.Bool()
		e := byte(0)
		if b {
			e = 1
		}
		return NewBoolValue(b), []byte{VALUE_BOOLEAN, e}
	case 2:
		v := zzvf.Int64()
		return NewDecimalValue(v), append([]byte{VALUE_DECIMAL}, zzDec(v)...)
	case 3:
		v := zzvf.Int32()
		return NewIntValue(v), append([]byte{VALUE_DECIMAL_INT}, zzBE(uint64(v), 4)...)
	case 4:
		v := zzvf.Int64()
		return NewLongValue(v), append([]byte{VALUE_DECIMAL_LONG}, zzBE(uint64(v), 8)...)
	case 5:
		v := zzvf.Float32()
		return NewFloatValue(v), append([]byte{VALUE_FLOAT}, zzBE(uint64(math.Float32bits(v)), 4)...)
	case 6:
		v := zzvf.Float64()
		return NewDoubleValue(v), append([]byte{VALUE_DOUBLE}, zzBE(math.Float64bits(v), 8)...)
	case 7:
		s := NewDoubleSummary()
		s.Sum, s.Count, s.Min, s.Max = zzvf.Float64(), zzvf.Int32(), zzvf.Float64(), zzvf.Float64()
		r := []byte{VALUE_DOUBLE_SUMMARY}
		r = append(r, zzBE(math.Float64bits(s.Sum), 8)...)
		r = append(r, zzBE(uint64(s.Count), 4)...)
		r = append(r, zzBE(math.Float64bits(s.Min), 8)...)
		r = append(r, zzBE(math.Float64bits(s.Max), 8)...)
		return s, r
	case 8:
		s := NewLongSummary()
		s.Sum, s.Count, s.Min, s.Max = zzvf.Int64(), zzvf.Int32(), zzvf.Int64(), zzvf.Int64()
		r := []byte{VALUE_LONG_SUMMARY}
		r = append(r, zzBE(uint64(s.Sum), 8)...)
		r = append(r, zzBE(uint64(s.Count), 4)...)
		r = append(r, zzBE(uint64(s.Min), 8)...)
		r = append(r, zzBE(uint64(s.Max), 8)...)
		return s, r
	case 9:
		s := zzvf.String(zzvf.Choose(3))
		return NewTextValue(s), append([]byte{VALUE_TEXT}, zzBlob([]byte(s))...)
	case 10:
		v := zzvf.Int32()
		return NewTextHashValue(v), append([]byte{VALUE_TEXT_HASH}, zzBE(uint64(v), 4)...)
	case 11:
		var p []byte
		if c := zzvf.Choose(4); c < 3 {
			p = zzvf.Bytes(c)
		} // c == 3: nil payload
		return NewBlobValue(p), append([]byte{VALUE_BLOB}, zzBlob(p)...)
	case 12:
		p := zzvf.Bytes(4)
		return NewIP4Value(p), append([]byte{VALUE_IP4ADDR}, p...)
	case 13:
		n := zzvf.Choose(width + 2)
		a := []int32{}
		if n == width+1 { // nil payload: same wire form as empty
			n, a = 0, nil
		}
		r := append([]byte{ARRAY_INT}, zzBE(uint64(n), 2)...)
		for i := 0; i < n; i++ {
			v := zzvf.Int32()
			a = append(a, v)
			r = append(r, zzBE(uint64(v), 4)...)
		}
		return NewIntArray(a), r
	case 14:
		n := zzvf.Choose(width + 2)
		a := []float32{}
		if n == width+1 { // nil payload: same wire form as empty
			n, a = 0, nil
		}
		r := append([]byte{ARRAY_FLOAT}, zzBE(uint64(n), 2)...)
		for i := 0; i < n; i++ {
			v := zzvf.Float32()
			a = append(a, v)
			r = append(r, zzBE(uint64(math.Float32bits(v)), 4)...)
		}
		return NewFloatArray(a), r
	case 15:
		n := zzvf.Choose(width + 2)
		a := []string{}
		if n == width+1 { // nil payload: same wire form as empty
			n, a = 0, nil
		}
		r := append([]byte{ARRAY_TEXT}, zzBE(uint64(n), 2)...)
		for i := 0; i < n; i++ {
			v := zzvf.String(i % 2)
			a = append(a, v)
			r = append(r, zzBlob([]byte(v))...)
		}
		return NewTextArray(a), r
	case 16:
		n := zzvf.Choose(width + 2)
		a := []int64{}
		if n == width+1 { // nil payload: same wire form as empty
			n, a = 0, nil
		}
		r := append([]byte{ARRAY_LONG}, zzBE(uint64(n), 2)...)
		for i := 0; i < n; i++ {
			v := zzvf.Int64()
			a = append(a, v)
			r = append(r, zzBE(uint64(v), 8)...)
		}
		return NewLongArray(a), r
	case 17: // empty list (leaf form of the container)
		return NewListValue(nil), []byte{VALUE_LIST, 0}
	case 18:
		n := zzvf.Choose(width + 1)
		l := NewListValue(nil)
		r := append([]byte{VALUE_LIST}, zzDec(int64(n))...)
		for i := 0; i < n; i++ {
			e, er := zzGen(depth-1, width)
			l.Add(e)
			r = append(r, er...)
		}
		return l, r
	case 19:
		n := zzvf.Choose(width + 1)
		m := NewMapValue()
		r := append([]byte{VALUE_MAP}, zzDec(int64(n))...)
		ko := zzvf.Choose(2) // two key orders
		for i := 0; i < n; i++ {
			key := zzStrKeys[(i+ko)%len(zzStrKeys)]
			e, er := zzGen(depth-1, width)
			m.Put(key, e)
			r = append(r, zzBlob([]byte(key))...)
			r = append(r, er...)
		}
		return m, r
	}
	n := zzvf.Choose(width + 1)
	m := NewIntMapValue()
	r := append([]byte{INT_VALUE_MAP}, zzDec(int64(n))...)
	ko := zzvf.Choose(2)
	for i := 0; i < n; i++ {
		key := zzIntKeys[(i+ko)%len(zzIntKeys)]
		e, er := zzGen(depth-1, width)
		m.Put(key, e)
		r = append(r, zzBE(uint64(key), 4)...)
		r = append(r, er...)
	}
	return m, r
}
