//vf:dir util/queue
//vf:import util/queue sync github.com/whatap/golib/zzvf/zsync native
//vf:import util/list sync github.com/whatap/golib/zzvf/zsync native
//vf:stub github.com/whatap/golib/util/dateutil.SystemNow ClockNow
package queue

import (
	"github.com/whatap/golib/util/dateutil"
	"strings"

	"github.com/whatap/golib/zzvf"
)

// ---- reference model: bounded FIFO with refusal / forced eviction ----

type zzFifo struct {
	e          []int64
	cap        int
	failed     []int64
	overflowed []int64
}

func (m *zzFifo) put(v int64) bool {
	if m.cap <= 0 || len(m.e) < m.cap {
		m.e = append(m.e, v)
		return true
	}
	m.failed = append(m.failed, v) // refused: handed to the failure callback, content unchanged
	return false
}
func (m *zzFifo) putForce(v int64) bool {
	if m.cap <= 0 || len(m.e) < m.cap {
		m.e = append(m.e, v)
		return true
	}
	for len(m.e) >= m.cap { // evict the oldest, each handed to the overflow callback
		m.overflowed = append(m.overflowed, m.e[0])
		m.e = m.e[1:]
	}
	m.e = append(m.e, v)
	return false
}

func zzUnbox(v interface{}) (int64, bool) {
	x, ok := v.(int64)
	return x, ok
}

func zzSameLog(got []interface{}, want []int64) bool {
	ok := len(got) == len(want)
	for i := range want {
		if i < len(got) {
			v, isI := zzUnbox(got[i])
			ok = zzvf.And(ok, zzvf.And(isI, v == want[i]))
		}
	}
	return ok
}

var zzQOps = []string{"put", "putforce", "getnowait", "clear", "setcapacity", "size", "get"}

// sequential semantics: state reached by up to 3 puts, capacity SYMBOLIC (all capacities,
// <= 0 = unbounded), then 2 (3 thorough) arbitrary operations
//vf: paths=300000 t.paths=3000000
func ZZ_C11_Sequential() {
	capa := zzvf.Int()
	zzvf.Assume(capa >= -2)
	zzvf.Assume(capa <= 4)
	q := NewRequestQueue(capa)
	ref := &zzFifo{cap: capa}
	var failed, overflowed []interface{}
	q.Failed = func(v interface{}) { failed = append(failed, v) }
	q.Overflowed = func(v interface{}) { overflowed = append(overflowed, v) }
	for i, n := 0, zzvf.Choose(4); i < n; i++ {
		v := zzvf.Int64()
		zzvf.Assert(q.Put(v) == ref.put(v), "queue/prefix-put/result")
	}
	nOps := 2
	if zzvf.Thorough() {
		nOps = 3
	}
	for s := 0; s < nOps; s++ {
		op := zzvf.Choose(len(zzQOps))
		what := "queue/" + zzQOps[op]
		switch op {
		case 0:
			v := zzvf.Int64()
			zzvf.Assert(q.Put(v) == ref.put(v), what+"/accepted-iff-room")
		case 1:
			v := zzvf.Int64()
			zzvf.Assert(q.PutForce(v) == ref.putForce(v), what+"/result")
		case 2:
			r := q.GetNoWait()
			if len(ref.e) > 0 {
				v, ok := zzUnbox(r)
				zzvf.Assert(zzvf.And(ok, v == ref.e[0]), what+"/returns-oldest")
				ref.e = ref.e[1:]
			} else {
				zzvf.Assert(r == nil, what+"/empty-returns-nil")
			}
		case 3:
			q.Clear()
			ref.e = nil
		case 4:
			c := zzvf.Int()
			zzvf.Assume(c >= -1)
			zzvf.Assume(c <= 3)
			q.SetCapacity(c)
			ref.cap = c
			zzvf.Assert(q.GetCapacity() == c, what+"/readback")
		case 5:
			zzvf.Assert(q.Size() == len(ref.e), what+"/value")
		case 6: // blocking get on a non-empty queue returns at once with the head
			if len(ref.e) == 0 {
				continue
			}
			v, ok := zzUnbox(q.Get())
			zzvf.Assert(zzvf.And(ok, v == ref.e[0]), what+"/returns-oldest")
			ref.e = ref.e[1:]
		}
		zzvf.Assert(q.Size() == len(ref.e), "queue/size-after-"+zzQOps[op])
	}
	// drain: delivery order = acceptance order
	ok := true
	for _, want := range ref.e {
		v, isI := zzUnbox(q.GetNoWait())
		ok = zzvf.And(ok, zzvf.And(isI, v == want))
	}
	zzvf.Assert(ok, "queue/fifo-order")
	zzvf.Assert(q.GetNoWait() == nil, "queue/nothing-extra")
	zzvf.Assert(zzSameLog(failed, ref.failed), "queue/failed-callback-log")
	zzvf.Assert(zzSameLog(overflowed, ref.overflowed), "queue/overflowed-callback-log-oldest-first-each-once")
	zzvf.Reach("sequential")
}

// double queue: the first queue is always served before the second; both queues are bounded
// FIFOs with refusal / forced eviction (callbacks set in-package: the type has no setter),
// capacities can be changed while the queues hold elements (a forced put on a queue that is
// over its new bound evicts down to the bound), clear empties both
//vf: paths=600000 t.paths=3000000
func ZZ_C11_Double() {
	c1, c2 := zzvf.Int(), zzvf.Int()
	zzvf.Assume(zzvf.And(c1 >= -1, c1 <= 3))
	zzvf.Assume(zzvf.And(c2 >= -1, c2 <= 3))
	q := NewRequestDoubleQueue(c1, c2)
	m1, m2 := &zzFifo{cap: c1}, &zzFifo{cap: c2}
	var failed1, overflowed1, failed2, overflowed2 []interface{}
	q.failed1 = func(v interface{}) { failed1 = append(failed1, v) }
	q.overflowed1 = func(v interface{}) { overflowed1 = append(overflowed1, v) }
	q.failed2 = func(v interface{}) { failed2 = append(failed2, v) }
	q.overflowed2 = func(v interface{}) { overflowed2 = append(overflowed2, v) }
	// pre-state: up to 3 accepted elements in each queue
	for i, n := 0, zzvf.Choose(4); i < n; i++ {
		v := zzvf.Int64()
		zzvf.Assert(q.Put1(v) == m1.put(v), "doublequeue/prefix-put1/result")
	}
	for i, n := 0, zzvf.Choose(3); i < n; i++ {
		v := zzvf.Int64()
		zzvf.Assert(q.Put2(v) == m2.put(v), "doublequeue/prefix-put2/result")
	}
	nOps := 2
	if zzvf.Thorough() {
		nOps = 4
	}
	ops := []string{"put1", "put2", "putforce1", "putforce2", "getnowait", "get", "setcapacity", "clear", "size"}
	for s := 0; s < nOps; s++ {
		op := zzvf.Choose(len(ops))
		what := "doublequeue/" + ops[op]
		switch op {
		case 0:
			v := zzvf.Int64()
			zzvf.Assert(q.Put1(v) == m1.put(v), what+"/accepted-iff-room")
		case 1:
			v := zzvf.Int64()
			zzvf.Assert(q.Put2(v) == m2.put(v), what+"/accepted-iff-room")
		case 2:
			v := zzvf.Int64()
			zzvf.Assert(q.PutForce1(v) == m1.putForce(v), what+"/result")
		case 3:
			v := zzvf.Int64()
			zzvf.Assert(q.PutForce2(v) == m2.putForce(v), what+"/result")
		case 4, 5:
			if op == 5 && len(m1.e)+len(m2.e) == 0 {
				continue // would block
			}
			var r interface{}
			if op == 4 {
				r = q.GetNoWait()
			} else {
				r = q.Get()
			}
			switch {
			case len(m1.e) > 0:
				v, ok := zzUnbox(r)
				zzvf.Assert(zzvf.And(ok, v == m1.e[0]), what+"/first-queue-served-first")
				m1.e = m1.e[1:]
			case len(m2.e) > 0:
				v, ok := zzUnbox(r)
				zzvf.Assert(zzvf.And(ok, v == m2.e[0]), what+"/second-queue-when-first-empty")
				m2.e = m2.e[1:]
			default:
				zzvf.Assert(r == nil, what+"/empty-returns-nil")
			}
		case 6:
			n1, n2 := zzvf.Int(), zzvf.Int()
			zzvf.Assume(zzvf.And(n1 >= -1, n1 <= 3))
			zzvf.Assume(zzvf.And(n2 >= -1, n2 <= 3))
			q.SetCapacity(n1, n2)
			m1.cap, m2.cap = n1, n2
			zzvf.Assert(zzvf.And(q.GetCapacity1() == n1, q.GetCapacity2() == n2), what+"/readback")
		case 7:
			q.Clear()
			m1.e, m2.e = nil, nil
		case 8:
			zzvf.Assert(q.Size() == len(m1.e)+len(m2.e), what+"/sum-of-both")
		}
		zzvf.Assert(zzvf.And(q.Size1() == len(m1.e), q.Size2() == len(m2.e)), "doublequeue/sizes-after-"+ops[op])
	}
	// drain: first queue entirely before the second, each in acceptance order, nothing extra
	ok := true
	for _, want := range append(append([]int64{}, m1.e...), m2.e...) {
		v, isI := zzUnbox(q.GetNoWait())
		ok = zzvf.And(ok, zzvf.And(isI, v == want))
	}
	zzvf.Assert(ok, "doublequeue/drain-first-then-second-in-acceptance-order")
	zzvf.Assert(q.GetNoWait() == nil, "doublequeue/nothing-extra")
	zzvf.Assert(zzvf.And(zzSameLog(failed1, m1.failed), zzSameLog(failed2, m2.failed)), "doublequeue/failed-callback-logs")
	zzvf.Assert(zzvf.And(zzSameLog(overflowed1, m1.overflowed), zzSameLog(overflowed2, m2.overflowed)), "doublequeue/overflowed-callback-logs-oldest-first-each-once")
	zzvf.Reach("double")
}

// timed get on a virtual clock (dateutil.SystemNow -> arbitrary non-decreasing instants,
// time.Sleep(d) advances it by >= d): empty-handed only after the timeout has elapsed;
// an element that is present is returned; one that arrives while sleeping is delivered
//vf: cut=5 t.cut=8 paths=100000
func ZZ_C11_TimedGet() {
	q := NewRequestQueue(zzvf.Choose(3))
	// Sleep is allowed to return early: the safety claim does not depend on how long a
	// sleep lasts, and the chain of 64-bit divisions by 3 (poll interval t/3) that the
	// ">= d" model puts into every query is undecided by all back ends at 20 s (probe)
	zzvf.SleepMayReturnEarly()
	// a server-time correction is in force (dateutil.Now() = SystemNow() + delta): the
	// timed wait is measured on one clock, whatever the correction
	dateutil.SetDelta(int64(zzvf.IntRange(0, 200000)) - 100000)
	defer dateutil.SetDelta(0)
	timeout := zzvf.Int()
	zzvf.Assume(timeout >= 0)
	zzvf.Assume(timeout <= 100000)
	mode := zzvf.Choose(3)
	v := zzvf.Int64()
	switch mode {
	case 1:
		q.Put(v)
	case 2:
		zzvf.OnWait(1, func() { q.Put(v) }) // a producer arrives during the first sleep
	}
	start := zzvf.ClockNow()
	r := q.GetTimeout(timeout)
	end := zzvf.ClockNow()
	switch mode {
	case 0:
		zzvf.Assert(r == nil, "timedget/empty-returns-nil")
		zzvf.Assert(end-start >= int64(timeout), "timedget/nil-only-after-timeout-elapsed")
	case 1:
		x, ok := zzUnbox(r)
		zzvf.Assert(zzvf.And(ok, x == v), "timedget/present-element-returned")
	case 2:
		if r != nil {
			x, ok := zzUnbox(r)
			zzvf.Assert(zzvf.And(ok, x == v), "timedget/arriving-element-delivered")
		} else {
			zzvf.Assert(end-start >= int64(timeout), "timedget/nil-only-after-timeout-elapsed-with-producer")
			zzvf.Assert(q.Size() <= 1, "timedget/late-element-stays-queued")
		}
	}
	zzvf.Reach("timedget")
}

// the same for the double queue (its timed get is a separate polling loop): the element is in, or
// arrives in, the first or the second queue; a server-time correction is in force
//vf: cut=5 t.cut=8 paths=100000
func ZZ_C11_TimedGetDouble() {
	q := NewRequestDoubleQueue(zzvf.Choose(3), zzvf.Choose(3))
	zzvf.SleepMayReturnEarly()
	dateutil.SetDelta(int64(zzvf.IntRange(0, 200000)) - 100000)
	defer dateutil.SetDelta(0)
	timeout := zzvf.Int()
	zzvf.Assume(timeout >= 0)
	zzvf.Assume(timeout <= 100000)
	mode := zzvf.Choose(3)
	second := zzvf.Choose(2) == 1
	v := zzvf.Int64()
	put := func() {
		if second {
			q.PutForce2(v)
		} else {
			q.PutForce1(v)
		}
	}
	switch mode {
	case 1:
		put()
	case 2:
		zzvf.OnWait(1, put) // a producer arrives during the first sleep
	}
	start := zzvf.ClockNow()
	r := q.GetTimeout(timeout)
	end := zzvf.ClockNow()
	switch mode {
	case 0:
		zzvf.Assert(r == nil, "timedget-double/empty-returns-nil")
		zzvf.Assert(end-start >= int64(timeout), "timedget-double/nil-only-after-timeout-elapsed")
	case 1:
		x, ok := zzUnbox(r)
		zzvf.Assert(zzvf.And(ok, x == v), "timedget-double/present-element-returned")
	case 2:
		if r != nil {
			x, ok := zzUnbox(r)
			zzvf.Assert(zzvf.And(ok, x == v), "timedget-double/arriving-element-delivered")
		} else {
			zzvf.Assert(end-start >= int64(timeout), "timedget-double/nil-only-after-timeout-elapsed-with-producer")
			zzvf.Assert(q.Size() <= 1, "timedget-double/late-element-stays-queued")
		}
	}
	zzvf.Reach("timedget-double")
}

// blocking get with a consumer that blocks BEFORE the first producer arrives: the getter
// re-evaluates emptiness after every wake-up (a spurious one first) and receives the element
func ZZ_C11_BlockingGet() {
	q := NewRequestQueue(zzvf.Choose(3))
	v := zzvf.Int64()
	calls := 0
	force := zzvf.Choose(2) == 1
	zzvf.OnWait(2, func() {
		calls++
		if calls == 1 {
			q.lock.Broadcast() // a wake-up without an element (natively too)
		}
		if calls == 2 { // first wake-up is spurious, the second follows a put
			if force {
				q.PutForce(v)
			} else {
				q.Put(v)
			}
		}
	})
	x, ok := zzUnbox(q.Get())
	zzvf.Assert(zzvf.And(ok, x == v), "blockingget/woken-consumer-gets-the-element")
	zzvf.Assert(q.Size() == 0, "blockingget/delivered-exactly-once")
	zzvf.Reach("blockingget")
}

// the same for the double queue: the element arrives in the first or the second queue
// (plain or forced put); the first wake-up is spurious
func ZZ_C11_BlockingGetDouble() {
	q := NewRequestDoubleQueue(zzvf.Choose(3), zzvf.Choose(3))
	v := zzvf.Int64()
	calls := 0
	how := zzvf.Choose(4)
	zzvf.OnWait(2, func() {
		calls++
		if calls == 1 {
			q.lock.Broadcast() // a wake-up without an element (natively too)
		}
		if calls == 2 {
			switch how {
			case 0:
				q.Put1(v)
			case 1:
				q.Put2(v)
			case 2:
				q.PutForce1(v)
			case 3:
				q.PutForce2(v)
			}
		}
	})
	x, ok := zzUnbox(q.Get())
	zzvf.Assert(zzvf.And(ok, x == v), "blockingget-double/woken-consumer-gets-the-element")
	zzvf.Assert(q.Size() == 0, "blockingget-double/delivered-exactly-once")
	zzvf.Reach("blockingget-double")
}

func zzEvents() []string {
	s := zzvf.Events()
	if s == "" {
		return nil
	}
	return strings.Split(s, ";")
}

func zzIdx(ev []string, prefix string, from int) int {
	for i := from; i < len(ev); i++ {
		if strings.HasPrefix(ev[i], prefix) {
			return i
		}
	}
	return -1
}

// wake-up protocol (trace property over the lock event log — the ghost log under the
// executor, the log of package zsync natively): every put
// variant that adds an element broadcasts AFTER the add and BEFORE releasing the
// condition's mutex; everything happens inside one critical section
func ZZ_C11_WakeupProtocol() {
	capa := zzvf.Choose(3)
	q := NewRequestQueue(capa)
	for i, n := 0, zzvf.Choose(3); i < n; i++ {
		q.Put(zzvf.Int64())
	}
	sz := q.Size()
	before := len(zzEvents())
	kind := []string{"put", "putforce"}[zzvf.Choose(2)]
	if kind == "put" {
		q.Put(zzvf.Int64())
	} else {
		q.PutForce(zzvf.Int64())
	}
	ev := zzEvents()[before:] // (taken before the Size() below, which locks the list)
	added := q.Size() > sz || kind == "putforce"
	// outer critical section
	zzvf.Assert(len(ev) >= 2 && strings.HasPrefix(ev[0], "lock ") && ev[len(ev)-1] == "un"+ev[0], "wakeup/"+kind+"/one-critical-section")
	if added {
		// the add is the LAST inner lock/unlock pair of the list; broadcast must follow it
		lastAdd := -1
		for i := 1; i < len(ev)-1; i++ {
			if strings.HasPrefix(ev[i], "unlock ") {
				lastAdd = i
			}
		}
		b := zzIdx(ev, "broadcast ", 0)
		zzvf.Assert(b >= 0, "wakeup/"+kind+"/broadcast-when-element-added")
		zzvf.Assert(b > lastAdd && b < len(ev)-1, "wakeup/"+kind+"/broadcast-after-add-before-unlock")
	}
	zzvf.Reach("wakeup")
}

// the same wake-up protocol for the double queue: Put1 / Put2 / PutForce1 / PutForce2 that
// add an element broadcast (all waiters, not one) after the add and before the unlock
func ZZ_C11_WakeupProtocolDouble() {
	q := NewRequestDoubleQueue(zzvf.Choose(3), zzvf.Choose(3))
	for i, n := 0, zzvf.Choose(3); i < n; i++ {
		if zzvf.Choose(2) == 0 {
			q.Put1(zzvf.Int64())
		} else {
			q.Put2(zzvf.Int64())
		}
	}
	sz := q.Size()
	before := len(zzEvents())
	kind := []string{"put1", "put2", "putforce1", "putforce2"}[zzvf.Choose(4)]
	switch kind {
	case "put1":
		q.Put1(zzvf.Int64())
	case "put2":
		q.Put2(zzvf.Int64())
	case "putforce1":
		q.PutForce1(zzvf.Int64())
	case "putforce2":
		q.PutForce2(zzvf.Int64())
	}
	ev := zzEvents()[before:]
	added := q.Size() > sz || kind == "putforce1" || kind == "putforce2"
	zzvf.Assert(len(ev) >= 2 && strings.HasPrefix(ev[0], "lock ") && ev[len(ev)-1] == "un"+ev[0], "wakeup-double/"+kind+"/one-critical-section")
	if added {
		lastAdd := -1
		for i := 1; i < len(ev)-1; i++ {
			if strings.HasPrefix(ev[i], "unlock ") {
				lastAdd = i
			}
		}
		b := zzIdx(ev, "broadcast ", 0)
		zzvf.Assert(b >= 0, "wakeup-double/"+kind+"/broadcast-when-element-added")
		zzvf.Assert(b > lastAdd && b < len(ev)-1, "wakeup-double/"+kind+"/broadcast-after-add-before-unlock")
	}
	zzvf.Reach("wakeup-double")
}
