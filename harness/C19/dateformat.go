//vf:dir util/dateutil
package dateutil

import (
	"time"

	"github.com/whatap/golib/zzvf"
)

var zzPatterns = []string{"y-m-d H:M:S.s", "ymdHMSs", "s S M H d m y", "d/m/y", "H:M", "y.m", "S", "[y] m월 d일"}

func zzHas(p string, c byte) bool {
	for i := 0; i < len(p); i++ {
		if p[i] == c {
			return true
		}
	}
	return false
}

// the pattern-based format is the inverse of its parser: formatting an instant and
// parsing the text with the same pattern returns the instant's value in every field
// present in the pattern (absent fields are filled from the current time by design and
// are not constrained). Focus rotation: one calendar field over its whole range.
//vf: paths=200000 qtimeout=20s t.deadline=40m
func ZZ_C19_DateFormat() {
	p := zzPatterns[zzvf.Choose(len(zzPatterns))]
	// the time-of-day fields rotate as the symbolic focus; year / month / day are drawn from
	// boundary values (symbolic calendar fields drive the standard library's civil-date
	// inversion, whose queries no back end decides in time: probe, 4 min budget exhausted)
	focus := 3 + zzvf.Choose(4)
	pick := func(f, lo, hi int, vals []int) int {
		if f == focus {
			return zzvf.IntRange(lo, hi)
		}
		return vals[zzvf.Choose(len(vals))]
	}
	ys, ms_, ds := []int{2000, 2099}, []int{1, 12}, []int{1, 28}
	hs, mis, mss := []int{23}, []int{0}, []int{45}
	if zzvf.Thorough() {
		// (4 x 5 x 4 calendar values x 2 x 2 x 3 times of day did not finish in 40 min: outside)
		ys, ms_, ds = []int{2000, 2024, 2099}, []int{1, 2, 12}, []int{1, 28}
		hs, mis, mss = []int{0, 23}, []int{59}, []int{999}
	}
	Y := pick(0, 2000, 2099, ys)
	M := pick(1, 1, 12, ms_)
	D := pick(2, 1, 28, ds)
	h := pick(3, 0, 23, hs)
	mi := pick(4, 0, 59, mis)
	s := pick(5, 0, 59, []int{7})
	ms := pick(6, 0, 999, mss)
	t := time.Date(Y, time.Month(M), D, h, mi, s, ms*1000000, time.UTC)
	text := NewDateFormat(p).FormatTime(t)
	back, err := NewDateFormat(p).Parse(text)
	zzvf.Assert(err == nil, "dateformat/parse-accepts-own-output")
	bt := time.UnixMilli(back).UTC()
	if zzHas(p, 'y') {
		zzvf.Assert(bt.Year() == Y, "dateformat/year")
	}
	// month / day are only well defined when the enclosing fields are present as well
	if zzHas(p, 'y') && zzHas(p, 'm') {
		zzvf.Assert(int(bt.Month()) == M, "dateformat/month")
	}
	if zzHas(p, 'y') && zzHas(p, 'm') && zzHas(p, 'd') {
		zzvf.Assert(bt.Day() == D, "dateformat/day")
	}
	if zzHas(p, 'H') {
		zzvf.Assert(bt.Hour() == h, "dateformat/hour")
	}
	if zzHas(p, 'M') {
		zzvf.Assert(bt.Minute() == mi, "dateformat/minute")
	}
	if zzHas(p, 'S') {
		zzvf.Assert(bt.Second() == s, "dateformat/second")
	}
	if zzHas(p, 's') {
		zzvf.Assert(int(back%1000) == ms, "dateformat/millisecond")
	}
	if p == "y-m-d H:M:S.s" || p == "ymdHMSs" || p == "s S M H d m y" {
		zzvf.Assert(back == t.UnixNano()/1000000, "dateformat/full-pattern-is-exact-inverse")
	}
	zzvf.Reach("dateformat")
}


// one formatter object used repeatedly (concrete instants: same second / other millisecond,
// next second, another day): the text depends on the instant formatted, not on what the
// object formatted before
//vf: paths=2000
func ZZ_C19_DateFormatReuse() {
	p := zzPatterns[zzvf.Choose(len(zzPatterns))]
	base := time.Date(2024, 2, 29, 23, 59, 58, 7*1000000, time.UTC)
	offs := []time.Duration{0, 528 * time.Millisecond, 992 * time.Millisecond, 1000 * time.Millisecond, 2 * time.Second, 36 * time.Hour}
	df := NewDateFormat(p)
	ok := true
	for _, o := range offs {
		t := base.Add(o)
		ok = zzvf.And(ok, df.FormatTime(t) == NewDateFormat(p).FormatTime(t))
	}
	zzvf.Assert(ok, "dateformat/reused-formatter-gives-the-same-text")
	zzvf.Reach("dateformat-reuse")
}
