//vf:dir util/dateutil
package dateutil

import (
	"time"

	"github.com/whatap/golib/zzvf"
)

var zzWd = []string{"Sun", "Mon", "Tue", "Wed", "Thr", "Fri", "Sat"}

// the day table is finite data: every one of the 36525 entries produced by the real
// initialiser agrees with the standard library's proleptic Gregorian calendar (UTC), and
// entry i starts exactly i days after 2000-01-01T00:00:00Z
//vf: visits=40000 steps=400000000 deadline=20m
func ZZ_C19_DayTable() {
	h := helper
	base := time.Date(2000, time.January, 1, 0, 0, 0, 0, time.UTC).Unix() * 1000
	zzvf.Assert(h.BASE_TIME == base, "table/base-time")
	n := 0
	okDate, okTime, okWday, okStr, okIndex := true, true, true, true, true
	for i := 0; i < len(h.dateTable); i++ {
		d := h.dateTable[i]
		if d == nil {
			break
		}
		n++
		t := time.UnixMilli(d.time).UTC()
		y, m, dd := t.Date()
		if d.yyyy != y || d.mm != int(m) || d.dd != dd {
			okDate = false
		}
		if d.time != base+int64(i)*MILLIS_PER_DAY || t.Hour() != 0 || t.Minute() != 0 || t.Second() != 0 {
			okTime = false
		}
		if d.wday != zzWd[int(t.Weekday())] {
			okWday = false
		}
		if d.date != t.Format("20060102") {
			okStr = false
		}
		if h.table[y-2000][int(m)-1][dd-1] != d {
			okIndex = false
		}
	}
	zzvf.Observe("days", n)
	zzvf.Assert(n == 36525, "table/36525-days")
	zzvf.Assert(okDate, "table/year-month-day-agree-with-stdlib")
	zzvf.Assert(okTime, "table/day-start-instants")
	zzvf.Assert(okWday, "table/weekday-agrees-with-stdlib")
	zzvf.Assert(okStr, "table/date-string")
	zzvf.Assert(okIndex, "table/ymd-index-points-to-same-day")
	zzvf.Reach("daytable")
}
