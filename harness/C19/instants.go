//vf:dir util/dateutil
package dateutil

import "github.com/whatap/golib/zzvf"

// reference formatting of a field value known to lie in 0..999
func zzDigits(v int, n int) string {
	b := make([]byte, n)
	for i := n - 1; i >= 0; i-- {
		b[i] = byte('0' + v%10)
		v /= 10
	}
	return string(b)
}

// representative days (first, leap days, month/year ends, last) x EVERY millisecond of
// the day: all string helpers against reference formatting of the decomposed fields
var zzDays = []int{0, 58, 59, 60, 365, 366, 1520, 7304, 18262, 36159, 36523, 36524}

// one harness per helper (their forks would multiply otherwise). Focus rotation over the
// time-of-day fields: ONE of hour / minute / second / millisecond ranges over all its
// values (symbolic), the others are drawn from boundary values; the instant is recomposed
// from the fields, the code under test decomposes it again.
var zzB60 = []int{0, 9, 10, 59}

func zzInstant() (day *Day, k int, t int64, hh, mi, ss, sss int) {
	days := zzDays
	if !zzvf.Thorough() {
		days = []int{0, 59, 36524} // first day, 2000-02-29, last day
	}
	k = days[zzvf.Choose(len(days))]
	focus := zzvf.Choose(4)
	pick := func(f int, bound int, vals []int) int {
		if f == focus {
			return zzvf.IntRange(0, bound-1)
		}
		return vals[zzvf.Choose(len(vals))]
	}
	hh = pick(0, 24, []int{0, 9, 10, 23})
	mi = pick(1, 60, zzB60)
	ss = pick(2, 60, zzB60)
	sss = pick(3, 1000, []int{0, 5, 45, 999})
	day = helper.dateTable[k]
	t = day.time + int64(hh)*MILLIS_PER_HOUR + int64(mi)*MILLIS_PER_MINUTE + int64(ss)*MILLIS_PER_SECOND + int64(sss)
	return
}

//vf: paths=100000 qtimeout=20s
func ZZ_C19_InstantDate() {
	day, k, t, _, _, _, _ := zzInstant()
	zzvf.Assert(YYYYMMDD(t) == day.date, "instant/yyyymmdd")
	zzvf.Assert(WeekDay(t) == day.wday, "instant/weekday")
	zzvf.Assert(GetYmdTime(YYYYMMDD(t)) == day.time, "instant/date-string-to-time")
	zzvf.Assert(GetDateUnit(t) == int64(k), "instant/date-unit")
	zzvf.Reach("instantdate")
}

//vf: paths=100000 qtimeout=20s
func ZZ_C19_InstantDateTime() {
	day, _, t, hh, mi, ss, _ := zzInstant()
	zzvf.Assert(DateTime(t) == day.date+" "+zzDigits(hh, 2)+":"+zzDigits(mi, 2)+":"+zzDigits(ss, 2), "instant/datetime")
	zzvf.Reach("instantdatetime")
}

//vf: paths=100000 qtimeout=20s
func ZZ_C19_InstantCompact() {
	day, _, t, hh, mi, ss, _ := zzInstant()
	zzvf.Assert(Ymdhms(t) == day.date+zzDigits(hh, 2)+zzDigits(mi, 2)+zzDigits(ss, 2), "instant/compact-datetime")
	zzvf.Reach("instantcompact")
}

//vf: paths=100000 qtimeout=20s
func ZZ_C19_InstantHHMMSS() {
	_, _, t, hh, mi, ss, _ := zzInstant()
	zzvf.Assert(HHMMSS(t) == zzDigits(hh, 2)+zzDigits(mi, 2)+zzDigits(ss, 2), "instant/hhmmss")
	zzvf.Assert(HHMM(t) == zzDigits(hh, 2)+zzDigits(mi, 2), "instant/hhmm")
	zzvf.Reach("instanthhmmss")
}

//vf: paths=300000 qtimeout=20s deadline=10m
func ZZ_C19_InstantTimeStamp() {
	day, _, t, hh, mi, ss, sss := zzInstant()
	zzvf.Assert(TimeStamp(t) == day.date+" "+zzDigits(hh, 2)+":"+zzDigits(mi, 2)+":"+zzDigits(ss, 2)+"."+zzDigits(sss, 3), "instant/timestamp-millis")
	zzvf.Reach("instanttimestamp")
}

// unit functions are floor((t - base)/step) for EVERY millisecond of the century, hence
// monotone step functions with the stated step; the day index selects the right table row
//vf: qtimeout=30s
func ZZ_C19_Units() {
	h := helper
	// a server-time correction is in force: functions of an EXPLICIT instant do not depend on it
	SetDelta(int64(zzvf.IntRange(0, 7200000)) - 3600000)
	defer SetDelta(0)
	t := zzvf.Int64()
	zzvf.Assume(t >= h.BASE_TIME)
	zzvf.Assume(t < h.BASE_TIME+36525*MILLIS_PER_DAY)
	d := t - h.BASE_TIME
	u := GetDateUnit(t)
	zzvf.Assert(zzvf.And(u >= 0, u < 36525), "units/day-index-in-table")
	zzvf.Assert(zzvf.And(u*MILLIS_PER_DAY <= d, d < (u+1)*MILLIS_PER_DAY), "units/day-is-floor")
	f := GetFiveMinUnit(t)
	zzvf.Assert(zzvf.And(f*MILLIS_PER_FIVE_MINUTE <= d, d < (f+1)*MILLIS_PER_FIVE_MINUTE), "units/five-minute-is-floor")
	m := GetMinUnit(t)
	zzvf.Assert(zzvf.And(m*MILLIS_PER_MINUTE <= d, d < (m+1)*MILLIS_PER_MINUTE), "units/minute-is-floor")
	// monotone: a later instant never has a smaller unit
	t2 := zzvf.Int64()
	zzvf.Assume(t2 >= t)
	zzvf.Assume(t2 < h.BASE_TIME+36525*MILLIS_PER_DAY)
	zzvf.Assert(zzvf.And(GetDateUnit(t2) >= u, zzvf.And(GetFiveMinUnit(t2) >= f, GetMinUnit(t2) >= m)), "units/monotone")
	zzvf.Reach("units")
}
