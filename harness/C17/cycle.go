//vf:dir logger/logfile
//vf:go FileLogger).run
package logfile

// C17 — the REAL background cycle (*FileLogger).run started by NewFileLogger (not the
// harness's emulation of it): the goroutine runs as a cooperative coroutine — natively the
// real goroutine with its real 10 s period; the harness lets it run (SleepYield), changes
// the date and lets it run again.

import (
	"path/filepath"

	"github.com/whatap/golib/zzvf"
)

//vf: paths=200 nostub=FileLogger).run
func ZZ_C17_RealCycle() {
	home := zzvf.FsHome()
	defer zzvf.FsCleanup()
	d1 := zzDayMs(2026, 12, 31)
	zzvf.Clock = d1 + 12*3600000 + int64(zzvf.IntRange(0, 3600000))
	lg := NewFileLogger(WithHomePath(home), WithOnameLogID("boot", "whatap"))
	lg.conf.cacheInterval = 0 // (rate limiter off: its own harnesses cover it)
	zzvf.SleepYield(300) // the goroutine starts: run()'s prologue and the first cycle
	m1, m2 := zzvf.String(2), zzvf.String(2)
	lg.Warn(m1)
	d2 := d1 + 86400000
	zzvf.Clock = d2 + int64(zzvf.IntRange(0, 3600000))
	zzvf.SleepYield(12500) // the next cycle (10 s period) sees the new date (natively: margin for a loaded machine)
	lg.Warn(m2)
	f1 := filepath.Join(home, "logs", "whatap-boot-"+zzYmd(d1)+".log")
	f2 := filepath.Join(home, "logs", "whatap-boot-"+zzYmd(d2)+".log")
	b1, ok1 := zzvf.FsRead(f1)
	b2, ok2 := zzvf.FsRead(f2)
	zzvf.Assert(zzvf.And(ok1, ok2), "realcycle/old-and-new-day-files-exist")
	r1, r2 := "[Warn]  "+m1+"\n\n", "[Warn]  "+m2+"\n\n"
	if ok1 && ok2 && len(b1) >= zzHdr+len(r1) && len(b2) >= zzHdr+len(r2) {
		zzvf.Assert(zzRecords(b1[len(b1)-zzHdr-len(r1):], []string{r1}), "realcycle/line-before-date-change-in-old-file")
		zzvf.Assert(zzRecords(b2[len(b2)-zzHdr-len(r2):], []string{r2}), "realcycle/line-after-the-cycle-in-new-day-file")
	} else {
		zzvf.Assert(false, "realcycle/files-hold-the-lines")
	}
	zzvf.Reach("real-cycle")
}
