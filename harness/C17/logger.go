//vf:dir logger/logfile
//vf:stub github.com/whatap/golib/util/dateutil.SystemNow ClockVar
//vf:stub github.com/whatap/golib/util/dateutil.TimeStampNow FixedStamp
//vf:stub (*github.com/whatap/golib/logger/logfile.FileLogger).run Skip
package logfile

// C17 — file logger. Environment (see DESIGN.md §8): the file system is the ghost file
// system of zzvf/env.go (natively: the real one, in a fresh temporary directory), the
// clock is zzvf.Clock (dateutil.SystemNow is stubbed; the time stamp text in the "OPEN LOG
// FILE" banner is a fixed string), log.Logger is the one-Write-per-line model, and the
// background goroutine (run) is not started: the harness performs run()'s prologue and
// calls process() itself at the virtual times it chooses.

import (
	"path/filepath"
	"strings"
	"time"

	"github.com/whatap/golib/logger"
	"github.com/whatap/golib/util/dateutil"
	"github.com/whatap/golib/zzvf"
)

const zzHdr = len(zzvf.GlogHeader)

func zzDayMs(y, m, d int) int64 { return time.Date(y, time.Month(m), d, 0, 0, 0, 0, time.UTC).UnixMilli() }

func zzYmd(ms int64) string { return time.UnixMilli(ms).UTC().Format("20060102") }

// zzStart builds a logger the way NewFileLogger + the first instants of run() do.
func zzStart(home string, level, interval, keep int, rotation bool) *FileLogger {
	lg := NewFileLogger(WithHomePath(home), WithOnameLogID("boot", "whatap"), WithLevel(level))
	lg.conf.cacheInterval = interval
	lg.conf.keepDays = keep
	if lg.conf.rotationEnabled != rotation {
		// the file was opened with the default setting; apply the setting the way the
		// cycle does (close, reopen)
		lg.conf.rotationEnabled = rotation
		lg.logfile.Close()
		lg.logfile = nil
		lg.openFile()
	}
	// prologue of run()
	lg.last = dateutil.Now()
	lg.lastDataUnit = dateutil.GetDateUnitNow()
	lg.lastFileRotation = lg.conf.rotationEnabled
	return lg
}

// zzRecords checks that got == concatenation over recs of (20-byte header + rec) and
// reports the result as a term (no forks).
func zzRecords(got []byte, recs []string) bool {
	o := 0
	ok := true
	for _, r := range recs {
		if o+zzHdr+len(r) > len(got) {
			return false
		}
		ok = zzvf.And(ok, string(got[o+zzHdr:o+zzHdr+len(r)]) == r)
		o += zzHdr + len(r)
	}
	return zzvf.And(ok, o == len(got))
}

func zzOpenBanner(oname string) []string {
	return []string{"\n", "## OPEN LOG FILE  " + oname + "  " + "", ""}
}

// the id pool: concrete ids (the rate limiter hashes them), symbolic tails
var zzMsgs = []string{"A", "0123456789"}

const (
	zzKError = iota
	zzKErrorf
	zzKWarn
	zzKWarnf
	zzKInfo
	zzKInfof
	zzKInfoln
	zzKDebug
	zzKDebugf
	zzKPrintln
	zzKPrintf
	zzKinds
)

func zzKindLevel(k int) int {
	switch k {
	case zzKError, zzKErrorf, zzKPrintln, zzKPrintf:
		return logger.LOG_LEVEL_ERROR // never gated
	case zzKWarn, zzKWarnf:
		return logger.LOG_LEVEL_WARN
	case zzKInfo, zzKInfof, zzKInfoln:
		return logger.LOG_LEVEL_INFO
	}
	return logger.LOG_LEVEL_DEBUG
}

func zzRed(s string) string { return "\u001B[31m" + s + "\u001B[0m" }

// zzCall performs log call kind k with message m; it returns the rate-limiter id and the
// record the call appends when admitted.
func zzCall(lg *FileLogger, k int, m string) (id string, rec string, limited bool) {
	trunc := func(s string) string {
		if len(s) > 10 {
			return s[:10]
		}
		return s
	}
	switch k {
	case zzKError:
		lg.Error(m)
		return trunc(m + "\n"), zzRed("[Error] "+m+"\n") + "\n", true
	case zzKErrorf:
		lg.Errorf("%s", m)
		return trunc(m), zzRed("[Error] "+m) + "\n", true
	case zzKWarn:
		lg.Warn(m)
		return trunc(m + "\n"), "[Warn]  " + m + "\n\n", true
	case zzKWarnf:
		lg.Warnf("%s", m)
		return trunc(m), "[Warn]  " + m + "\n", true
	case zzKInfo:
		lg.Info(m)
		return trunc(m + "\n"), "[Info]  " + m + "\n\n", true
	case zzKInfof:
		lg.Infof("%s", m)
		return trunc(m), "[Info]  " + m + "\n", true
	case zzKInfoln:
		lg.Infoln(m)
		return trunc(m + "\n"), "[Info]  " + m + "\n\n", true
	case zzKDebug:
		lg.Debug(m)
		return "", "[Debug]  " + m + "\n\n", false
	case zzKDebugf:
		lg.Debugf("%s", m)
		return "", "[Debug]  " + m + "\n", false
	case zzKPrintln:
		lg.Println("WA1", m)
		return "WA1", "[WA1] [WA1] " + m + "\n\n", true
	}
	lg.Printf("WA1", "%s", m)
	return "WA1", "[WA1] [WA1] " + m + "\n", true
}

// Lines at or above the level are appended whole, in call order; a repeated id is
// suppressed only within the interval. Bounds: 2 calls (thorough 3) of any of the 11
// log methods, messages: a short one or a 10-byte id followed by 2 symbolic bytes, level 0..3,
// interval 0..30 s, clock advances 0..40 s between calls (same day).
//vf: paths=60000 t.paths=600000 t.deadline=40m
func ZZ_C17_Append() {
	home := zzvf.FsHome()
	defer zzvf.FsCleanup()
	day := zzDayMs(2026, 3, 10)
	zzvf.Clock = day + 10*3600000 + int64(zzvf.IntRange(0, 3600000))
	level := zzvf.IntRange(0, 3)
	interval := zzvf.IntRange(0, 30)
	lg := zzStart(home, level, interval, 7, true)
	path := filepath.Join(home, "logs", "whatap-boot-20260310.log")
	before, ok := zzvf.FsRead(path)
	zzvf.Assert(ok, "append/file-named-id-oname-date-exists-after-open")
	ncalls := 2
	if zzvf.Thorough() {
		ncalls = 3
	}
	var recs []string
	lastEmit := map[string]int64{}
	seen := map[string]bool{}
	for i := 0; i < ncalls; i++ {
		zzvf.Clock += int64(zzvf.IntRange(0, 40000))
		k := zzvf.Choose(zzKinds)
		mi := zzvf.Choose(len(zzMsgs))
		m := zzMsgs[mi]
		if len(m) >= 10 {
			m += zzvf.String(2)
		}
		id, rec, limited := zzCall(lg, k, m)
		admitted := zzKindLevel(k) >= level
		if limited && interval > 0 && seen[id] {
			if zzvf.Clock < lastEmit[id]+int64(interval)*1000 {
				admitted = false
			}
		}
		if admitted {
			recs = append(recs, rec)
			if limited && interval > 0 {
				lastEmit[id] = zzvf.Clock
				seen[id] = true
			}
		}
	}
	after, _ := zzvf.FsRead(path)
	zzvf.Assert(len(after) >= len(before), "append/file-only-grows")
	if len(after) >= len(before) {
		zzvf.Assert(string(after[:len(before)]) == string(before), "append/earlier-content-untouched")
		zzvf.Assert(zzRecords(after[len(before):], recs), "append/admitted-lines-whole-and-in-call-order")
	}
	zzvf.Observe("appended", len(after)-len(before))
	zzvf.Reach("append")
}

// Date change: lines go to the old file until the cycle has run, then to the new day's
// file (rotation on) or stay in the single file (rotation off). A cycle runs at 23:59:40;
// the next one on the same day / just after midnight (< 1 min later) / anywhere in the
// next day / three days later.
//vf: paths=2000
func ZZ_C17_Rotate() {
	home := zzvf.FsHome()
	defer zzvf.FsCleanup()
	rotation := zzvf.Choose(2) == 0
	d1 := zzDayMs(2026, 12, 31)
	zzvf.Clock = d1 + 23*3600000 + int64(zzvf.IntRange(0, 1800000))
	lg := zzStart(home, logger.LOG_LEVEL_DEBUG, 0, 7, rotation)
	// a cycle late in the evening (runs the once-a-minute retention tick)
	tA := d1 + 23*3600000 + 59*60000 + 40000
	zzvf.Clock = tA
	lg.process()
	name := func(ms int64) string {
		if rotation {
			return filepath.Join(home, "logs", "whatap-boot-"+zzYmd(ms)+".log")
		}
		return filepath.Join(home, "logs", "whatap-boot.log")
	}
	f1 := name(d1)
	b0, ok := zzvf.FsRead(f1)
	zzvf.Assert(ok, "rotate/first-file-exists")
	m1, m2, m3 := zzvf.String(2), zzvf.String(2), zzvf.String(2)
	lg.Warn(m1)
	cross := zzvf.Choose(4)
	d2 := d1
	switch cross {
	case 0: // same day
		zzvf.Clock = tA + int64(zzvf.IntRange(0, 19999))
	case 1: // next day, anywhere (less or more than a minute after the previous cycle)
		d2 = d1 + 86400000
		zzvf.Clock = d2 + int64(zzvf.IntRange(0, 86399999))
	case 2: // several days later
		d2 = d1 + 3*86400000
		zzvf.Clock = d2 + int64(zzvf.IntRange(0, 86399999))
	case 3: // just after midnight: less than a minute after the previous cycle
		d2 = d1 + 86400000
		zzvf.Clock = d2 + int64(zzvf.IntRange(0, 19999))
	}
	lg.Warn(m2) // before the cycle: still the open file
	lg.process()
	lg.Warn(m3)
	f2 := name(d2)
	r1, r2, r3 := "[Warn]  "+m1+"\n\n", "[Warn]  "+m2+"\n\n", "[Warn]  "+m3+"\n\n"
	b1, ok1 := zzvf.FsRead(f1)
	b2, ok2 := zzvf.FsRead(f2)
	zzvf.Assert(zzvf.And(ok1, ok2), "rotate/old-and-current-file-exist")
	if !ok1 || !ok2 || len(b1) < len(b0) {
		return
	}
	zzvf.Assert(string(b1[:len(b0)]) == string(b0), "rotate/earlier-content-untouched")
	if f1 == f2 {
		// no date change (or rotation off with a date change: the file is reopened, which
		// appends the three banner lines)
		rest := b1[len(b0):]
		if cross == 0 {
			zzvf.Assert(zzRecords(rest, []string{r1, r2, r3}), "rotate/same-file-lines-in-order")
		} else {
			ok := len(rest) > 2*(zzHdr+len(r1))+zzHdr+len(r3)
			zzvf.Assert(ok, "rotate/rotation-off-lines-kept")
			if ok {
				zzvf.Assert(zzRecords(rest[:2*(zzHdr+len(r1))], []string{r1, r2}), "rotate/rotation-off-lines-before-cycle")
				tail := rest[len(rest)-zzHdr-len(r3):]
				zzvf.Assert(zzRecords(tail, []string{r3}), "rotate/rotation-off-line-after-cycle-last")
			}
		}
	} else {
		zzvf.Assert(zzRecords(b1[len(b0):], []string{r1, r2}), "rotate/old-file-keeps-lines-before-cycle")
		ok := len(b2) >= zzHdr+len(r3)
		zzvf.Assert(ok, "rotate/new-day-file-has-line")
		if ok {
			zzvf.Assert(zzRecords(b2[len(b2)-zzHdr-len(r3):], []string{r3}), "rotate/line-after-cycle-goes-to-new-day-file")
		}
	}
	zzvf.Reach("rotate")
}

type zzEnt struct {
	name   string
	age    int  // days before "now" encoded in the name (own dated files)
	own    bool // <id>-<anything>-<yyyymmdd>.log of a real date
	dir    bool
	unsure bool // ambiguous under the property text: nothing asserted
}

// Retention removes exactly the dated files with the logger's id prefix that are older
// than keep-days. Directory: own files of ages 0,1,6,7,8,9,40 days (two object names),
// foreign files with similar names, a directory named like an old log file.
// keep-days symbolic 0..10, rotation on/off; cycle run 0..2 min after the last check.
//vf: paths=20000
func ZZ_C17_Retention() {
	home := zzvf.FsHome()
	defer zzvf.FsCleanup()
	today := zzDayMs(2026, 3, 10)
	// cross: the logger is started in the last minute of the day before, so that the cycle that runs
	// retention is also the first one after the date has changed (ages count from the day of the cycle)
	cross := zzvf.Choose(2) == 1
	if cross {
		zzvf.Clock = today - int64(zzvf.IntRange(1, 60000))
	} else {
		zzvf.Clock = today + int64(zzvf.IntRange(0, 86000000))
	}
	keep := zzvf.IntRange(0, 10)
	rotation := zzvf.Choose(2) == 0
	lg := zzStart(home, logger.LOG_LEVEL_WARN, 0, keep, rotation)
	logs := filepath.Join(home, "logs")
	old := zzYmd(today - 40*86400000)
	ents := []zzEnt{}
	for _, a := range []int{0, 1, 6, 7, 8, 9, 40} {
		ents = append(ents, zzEnt{name: "whatap-boot-" + zzYmd(today-int64(a)*86400000) + ".log", age: a, own: true})
	}
	ents = append(ents,
		zzEnt{name: "whatap-other-" + old + ".log", age: 40, own: true},
		zzEnt{name: "whatap-a-b-" + old + ".log", age: 40, own: true},
		zzEnt{name: "whatap-node-10.0.0.7-" + old + ".log", age: 40, own: true}, // object name with dots
		zzEnt{name: "whatapx-boot-" + old + ".log"},
		zzEnt{name: "xwhatap-boot-" + old + ".log"},
		zzEnt{name: "whatap_boot_" + old + ".log"},
		zzEnt{name: "whatap-boot-" + old[:7] + ".log"},
		zzEnt{name: "whatap-boot-" + old + "1.log"},
		zzEnt{name: "whatap-boot-settings.log"},
		zzEnt{name: "whatap-boot-2026031x.log"},
		zzEnt{name: "whatap-boot.log"},
		zzEnt{name: "whatap-" + old + ".log", unsure: true},
		zzEnt{name: "whatap-boot-" + old + ".txt", unsure: true},
		zzEnt{name: "whatap-boot-" + old, unsure: true},
		zzEnt{name: "whatap-boot-20260231.log", unsure: true},
		zzEnt{name: "whatap.conf"},
		zzEnt{name: "whatap-dir-" + old + ".log", dir: true},
	)
	content := map[string]string{}
	for i, e := range ents {
		p := filepath.Join(logs, e.name)
		if e.dir {
			zzvf.FsMkdir(p)
			continue
		}
		if e.own && e.age == 0 && rotation {
			continue // the open log file of today: already there (cross: opened by the cycle)
		}
		if cross && e.own && e.age == 1 && rotation {
			continue // cross: the file the logger opened yesterday
		}
		c := "c" + string(rune('a'+i))
		content[e.name] = c
		zzvf.FsWrite(p, []byte(c), 1700000000000000000)
	}
	// the cycle runs retention when more than a minute has passed since the last check
	zzvf.Clock += 60001 + int64(zzvf.IntRange(0, 60000))
	lg.process()
	for _, e := range ents {
		p := filepath.Join(logs, e.name)
		exists := zzvf.FsExists(p)
		switch {
		case e.unsure:
		case e.own:
			mustGo := zzvf.And(rotation, zzvf.And(keep > 0, e.age > keep))
			if e.age == 0 {
				zzvf.Assert(exists, "retention/todays-file-kept")
			} else {
				zzvf.Assert(exists != mustGo, "retention/own-dated-file-removed-iff-older-than-keep-days/age="+zzItoa(e.age))
			}
		default:
			zzvf.Assert(exists, "retention/foreign-entry-kept/"+e.name)
		}
		if !rotation && e.name == "whatap-boot.log" {
			continue // the logger's own (undated) file: re-opened and appended to when the date changes
		}
		if c, has := content[e.name]; has && exists && !e.unsure {
			b, _ := zzvf.FsRead(p)
			zzvf.Assert(string(b) == c, "retention/kept-file-content-untouched")
		}
	}
	zzvf.Observe("left", len(zzvf.FsList(logs)))
	zzvf.Reach("retention")
}

func zzItoa(n int) string {
	if n < 10 {
		return string(rune('0' + n))
	}
	return string(rune('0'+n/10)) + string(rune('0'+n%10))
}

// Read returns a contiguous slice of the file's content at the offset it reports, of at
// most the requested length. File content 0..6 symbolic bytes; end position and length
// any int64 with magnitude <= 2^40.
//vf: paths=20000 qtimeout=20s
func ZZ_C17_ReadWindow() {
	home := zzvf.FsHome()
	defer zzvf.FsCleanup()
	zzvf.Clock = zzDayMs(2026, 3, 10) + 1000
	lg := zzStart(home, logger.LOG_LEVEL_WARN, 0, 7, true)
	n := []int{0, 1, 3, 6}[zzvf.Choose(4)]
	data := zzvf.Bytes(n)
	zzvf.FsWrite(filepath.Join(home, "logs", "x.log"), data, 1700000000000000000)
	endpos, length := zzvf.Int64(), zzvf.Int64()
	// |end position|, |length| <= 2^40 (beyond that the code's float64 arithmetic rounds and
	// the float->int conversions become implementation-defined: outside the claim)
	zzvf.Assume(zzvf.And(endpos >= -(1<<40), endpos <= 1<<40))
	zzvf.Assume(zzvf.And(length >= -(1<<40), length <= 1<<40))
	var r *LogData
	pv := zzvf.PanicValue(func() { r = lg.Read("x.log", endpos, length) })
	zzvf.Assert(pv == "", "read/no-panic-for-any-end-position-and-length")
	if pv != "" {
		return
	}
	if r != nil {
		tl := int64(len(r.Text))
		zzvf.Assert(zzvf.Or(length < 0, tl <= length), "read/at-most-requested-length")
		inb := zzvf.And(r.Before >= 0, r.Before+tl <= int64(n))
		zzvf.Assert(inb, "read/window-inside-file")
		if inb {
			zzvf.Assert(r.Text == string(data[r.Before:r.Before+tl]), "read/text-is-file-content-at-reported-offset")
		}
	} else {
		// nothing to return is only acceptable when the request is empty or starts past the end
		zzvf.Assert(zzvf.Or(length <= 0, endpos > int64(n)), "read/valid-request-on-existing-file-answered")
	}
	zzvf.Observe("nil", r == nil)
	zzvf.Reach("read-window")
}

// Read never serves a path outside <home>/logs. A secret file sits next to the logs
// directory; file names: a pool of traversal shapes and every 4-byte name.
//vf: paths=60000 fan=300
func ZZ_C17_ReadConfined() {
	home := zzvf.FsHome()
	defer zzvf.FsCleanup()
	zzvf.Clock = zzDayMs(2026, 3, 10) + 1000
	lg := zzStart(home, logger.LOG_LEVEL_WARN, 0, 7, true)
	logs := filepath.Join(home, "logs")
	zzvf.FsWrite(filepath.Join(home, "s"), []byte("SECRET"), 1700000000000000000)
	zzvf.FsWrite(filepath.Join(logs, "s"), []byte("public"), 1700000000000000000)
	zzvf.FsMkdir(filepath.Join(logs, "d"))
	zzvf.FsWrite(filepath.Join(logs, "d", "s"), []byte("nested"), 1700000000000000000)
	// a sibling directory whose name merely starts with "logs"
	zzvf.FsMkdir(filepath.Join(home, "logs2"))
	zzvf.FsWrite(filepath.Join(home, "logs2", "s"), []byte("SECRET"), 1700000000000000000)
	var file string
	c := zzvf.Choose(16)
	switch c {
	case 0:
		file = zzvf.String(4)
		for i := 0; i < len(file); i++ {
			zzvf.Assume(file[i] != 0)
		}
	default:
		file = []string{"s", "../s", "./s", "d/s", "d/../s", "d/../../s", "../logs/s", "/s", "../logs2/s", "d/../../logs2/s", "../logs2/../logs/s",
			"/../s", "//../s", "/../logs2/s", "/d/../../s"}[c-1]
	}
	var r *LogData
	pv := zzvf.PanicValue(func() { r = lg.Read(file, -1, 100) })
	zzvf.Assert(pv == "", "confine/no-panic")
	if pv != "" {
		return
	}
	if r != nil {
		zzvf.Assert(r.Text != "SECRET", "confine/file-outside-logs-directory-not-served")
		resolved := filepath.Join(logs, file)
		zzvf.Assert(strings.HasPrefix(resolved, logs+"/"), "confine/served-path-is-inside-logs-directory")
	}
	zzvf.Observe("served", r != nil)
	zzvf.Reach("read-confined")
}

// Rate limiter in isolation: 4 calls with the same id (and one with another id in
// between), symbolic interval 0..30 s, symbolic clock advances 0..40 s: a call is
// suppressed exactly when an earlier EMITTED call with the same id lies less than the
// interval back.
//vf: paths=20000
func ZZ_C17_RateLimit() {
	home := zzvf.FsHome()
	defer zzvf.FsCleanup()
	zzvf.Clock = zzDayMs(2026, 3, 10) + 10*3600000 + int64(zzvf.IntRange(0, 3600000))
	interval := zzvf.IntRange(0, 30)
	lg := zzStart(home, logger.LOG_LEVEL_DEBUG, interval, 7, true)
	path := filepath.Join(home, "logs", "whatap-boot-20260310.log")
	before, _ := zzvf.FsRead(path)
	kind := []int{zzKWarnf, zzKPrintln, zzKError}[zzvf.Choose(3)]
	var recs []string
	var last int64
	have := false
	for i := 0; i < 4; i++ {
		zzvf.Clock += int64(zzvf.IntRange(0, 40000))
		if i == 2 {
			lg.Infof("%s", "another-id-in-between") // its own id: must not disturb the first id
			recs = append(recs, "[Info]  another-id-in-between\n")
		}
		m := "0123456789" + zzvf.String(1)
		_, rec, _ := zzCall(lg, kind, m)
		emitted := true
		if interval > 0 && have && zzvf.Clock < last+int64(interval)*1000 {
			emitted = false
		}
		if emitted {
			recs = append(recs, rec)
			last, have = zzvf.Clock, true
		}
	}
	after, _ := zzvf.FsRead(path)
	if len(after) >= len(before) {
		zzvf.Assert(zzRecords(after[len(before):], recs), "ratelimit/suppressed-iff-same-id-emitted-less-than-interval-ago")
	}
	zzvf.Observe("appended", len(after)-len(before))
	zzvf.Reach("ratelimit")
}

// Rotation setting toggled at run time (what ApplyConfig assigns), a cycle after each
// change: off -> lines go to <id>-<oname>.log; on again -> lines go to the dated file;
// (and the reverse history starting with rotation off)
//vf: paths=200
func ZZ_C17_RotationToggle() {
	home := zzvf.FsHome()
	defer zzvf.FsCleanup()
	d1 := zzDayMs(2026, 5, 17)
	zzvf.Clock = d1 + 8*3600000 + int64(zzvf.IntRange(0, 3600000))
	startOn := zzvf.Choose(2) == 0
	lg := zzStart(home, logger.LOG_LEVEL_DEBUG, 0, 7, startOn)
	dated := filepath.Join(home, "logs", "whatap-boot-"+zzYmd(d1)+".log")
	plain := filepath.Join(home, "logs", "whatap-boot.log")
	which := func(on bool) string {
		if on {
			return dated
		}
		return plain
	}
	on := startOn
	for step := 0; step < 3; step++ {
		on = !on
		lg.conf.rotationEnabled = on
		zzvf.Clock += 11000
		lg.process()
		m := zzvf.String(2)
		lg.Warn(m)
		r := "[Warn]  " + m + "\n\n"
		b, ok := zzvf.FsRead(which(on))
		good := ok && len(b) >= zzHdr+len(r)
		zzvf.Assert(good, "toggle/file-for-the-setting-in-force-exists/"+zzItoa(step))
		if good {
			zzvf.Assert(zzRecords(b[len(b)-zzHdr-len(r):], []string{r}), "toggle/line-after-the-cycle-goes-to-the-file-for-the-setting-in-force/"+zzItoa(step))
		}
	}
	zzvf.Reach("rotation-toggle")
}
