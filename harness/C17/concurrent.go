//vf:dir logger/logfile
//vf:import logger/logfile os github.com/whatap/golib/zzvf/zos native
//vf:stub github.com/whatap/golib/util/dateutil.SystemNow ClockVar
//vf:stub github.com/whatap/golib/util/dateutil.TimeStampNow FixedStamp
//vf:stub (*github.com/whatap/golib/logger/logfile.FileLogger).run Skip
package logfile

// C17 — "lines … are appended whole and in call order … from any number of goroutines … once the
// date has changed and the logger's periodic cycle has run, subsequent lines go to the new day's
// file": ONE interleaving of a log call with the rotation cycle, the one that matters — a line
// logged by another goroutine at the instant the cycle has closed a file (the log calls take no
// lock of the logger, so they can run there). The line must not be lost: it is found whole in the
// old or in the new file. The instant is injected with FsOnClose (ghost file system under the
// executor, package zos around the real os natively), so the schedule is a harness choice, not
// timing. Date change with rotation on, rotation switched on / off, and a plain cycle (no Close).

import (
	"path/filepath"
	"strings"

	"github.com/whatap/golib/logger"
	"github.com/whatap/golib/zzvf"
)

//vf: paths=2000
func ZZ_C17_LineDuringCycle() {
	home := zzvf.FsHome()
	defer zzvf.FsCleanup()
	d1 := zzDayMs(2026, 12, 31)
	zzvf.Clock = d1 + 12*3600000
	rotation := zzvf.Choose(2) == 0
	lg := zzStart(home, logger.LOG_LEVEL_DEBUG, 0, 7, rotation)
	lg.process()
	m := zzvf.String(2)
	kind := zzvf.Choose(3)
	switch kind {
	case 0: // next day
		zzvf.Clock = d1 + 86400000 + int64(zzvf.IntRange(0, 86399999))
	case 1: // rotation toggled, same day
		lg.conf.rotationEnabled = !rotation
		zzvf.Clock += 1000
	case 2: // nothing changed: the cycle closes nothing, the hook does not run
		zzvf.Clock += 1000
	}
	ran := false
	zzvf.FsOnClose(func() {
		ran = true
		lg.Warn(m) // "another goroutine" logs while the cycle is between two of its steps
	})
	lg.process()
	zzvf.FsOnClose(nil)
	if !ran {
		lg.Warn(m)
	}
	want := "[Warn]  " + m + "\n\n"
	n := 0
	for _, f := range []string{"whatap-boot.log", "whatap-boot-" + zzYmd(d1) + ".log", "whatap-boot-" + zzYmd(d1+86400000) + ".log"} {
		if b, ok := zzvf.FsRead(filepath.Join(home, "logs", f)); ok {
			n += strings.Count(string(b), want)
		}
	}
	what := []string{"date-change", "rotation-toggled", "plain-cycle"}[kind]
	zzvf.Assert(n >= 1, "line-during-cycle/"+what+"/line-logged-while-the-cycle-runs-is-not-lost")
	zzvf.Assert(n <= 1, "line-during-cycle/"+what+"/line-written-once")
	zzvf.Observe("ran", ran)
	zzvf.Reach("line-during-cycle")
}
