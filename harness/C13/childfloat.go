//vf:dir util/list
package list

import "github.com/whatap/golib/zzvf"

// SortingAnyList with a FLOATING-POINT child list: ties of the primary list (an IntList with values
// 0/1, so ties are frequent) are broken by a DoubleList child compared at full double precision and
// range (symbolic NaN-free doubles: values that differ only beyond float32 precision, or lie beyond
// its range, must still be ordered), or by a FloatList child. 2 or 3 elements (thorough: up to 4).
//vf: paths=150000 qtimeout=60s t.paths=3000000
func ZZ_C13_SortingFloatChild() {
	n := 2 + zzvf.Choose(2)
	if zzvf.Thorough() {
		n = 2 + zzvf.Choose(3)
	}
	l := NewIntListDefault()
	dbl := zzvf.Choose(2) == 1
	var child AnyList
	if dbl {
		child = NewDoubleListDefault()
	} else {
		child = NewFloatListDefault()
	}
	vals := []int{}
	cv := []float64{}
	for i := 0; i < n; i++ {
		v := zzvf.Choose(2)
		l.AddInt(v)
		vals = append(vals, v)
		if dbl {
			c := zzNDDoubleList()
			child.AddDouble(c)
			cv = append(cv, c)
		} else {
			c := zzNDFloatList()
			child.AddFloat(c)
			cv = append(cv, float64(c))
		}
	}
	asc, casc := zzvf.Choose(2) == 1, zzvf.Choose(2) == 1
	idx := l.SortingAnyList(asc, child, casc)
	zzvf.Assert(zzIsPerm(idx, n), "floatchild/permutation")
	ok, tie := true, true
	for j := 1; j < len(idx); j++ {
		a, b := idx[j-1], idx[j]
		if a < 0 || a >= n || b < 0 || b >= n {
			ok = false
			break
		}
		if !asc {
			a, b = b, a
		}
		ok = ok && vals[a] <= vals[b]
		ca, cb := cv[idx[j-1]], cv[idx[j]]
		if !casc {
			ca, cb = cb, ca
		}
		if vals[a] == vals[b] {
			tie = zzvf.And(tie, ca <= cb)
		}
	}
	zzvf.Assert(ok, "floatchild/primary-ordered")
	zzvf.Assert(tie, "floatchild/ties-by-child")
	zzvf.Reach("floatchild")
}
