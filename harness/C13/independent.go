//vf:dir util/list
package list

// C13 — "behave as sequences under any mix of add, add-all, set, get and remove": after
// a.AddAll(b) / a.AddAllArray(s) / a.ToArray() / a.Filtering(ix) the two lists (list and slice)
// are independent sequences: a later Set / Add / Remove on one side is not visible on the other
// (a bulk operation that adopts the argument's backing array, or hands out its own, would be).
// The typed lists' unexported remove(i) is not used: it has no exported caller (dead code; it does
// not shrink the list on the unchanged tree), so it is not part of the public behaviour claimed.
// All five typed lists, receiver empty or not, argument with exact or spare capacity.

import "github.com/whatap/golib/zzvf"

type zzBulk struct {
	name   string
	mk     func(capa int) AnyList
	addAll func(a, b AnyList)
	// addArr adds the three ints as a slice of the list's element type and then overwrites the slice
	addArr func(a AnyList, x, y, z int)
	// toArr0 overwrites element 0 of the slice ToArray returns
	toArr0 func(a AnyList)
}

var zzBulks = []zzBulk{
	{"IntList", func(c int) AnyList { return NewIntList(c) }, func(a, b AnyList) { a.(*IntList).AddAll(b.(*IntList)) },
		func(a AnyList, x, y, z int) {
			s := []int{x, y, z}
			a.(*IntList).AddAllArray(s)
			s[0], s[1], s[2] = -1, -1, -1
		},
		func(a AnyList) { a.(*IntList).ToArray()[0] = -1 }},
	{"LongList", func(c int) AnyList { return NewLongList(c) }, func(a, b AnyList) { a.(*LongList).AddAll(b.(*LongList)) },
		func(a AnyList, x, y, z int) {
			s := []int64{int64(x), int64(y), int64(z)}
			a.(*LongList).AddAllArray(s)
			s[0], s[1], s[2] = -1, -1, -1
		},
		func(a AnyList) { a.(*LongList).ToArray()[0] = -1 }},
	{"FloatList", func(c int) AnyList { return NewFloatList(c) }, func(a, b AnyList) { a.(*FloatList).AddAll(b.(*FloatList)) },
		func(a AnyList, x, y, z int) {
			s := []float32{float32(x), float32(y), float32(z)}
			a.(*FloatList).AddAllArray(s)
			s[0], s[1], s[2] = -1, -1, -1
		},
		func(a AnyList) { a.(*FloatList).ToArray()[0] = -1 }},
	{"DoubleList", func(c int) AnyList { return NewDoubleList(c) }, func(a, b AnyList) { a.(*DoubleList).AddAll(b.(*DoubleList)) },
		func(a AnyList, x, y, z int) {
			s := []float64{float64(x), float64(y), float64(z)}
			a.(*DoubleList).AddAllArray(s)
			s[0], s[1], s[2] = -1, -1, -1
		},
		func(a AnyList) { a.(*DoubleList).ToArray()[0] = -1 }},
	{"StringList", func(c int) AnyList { return NewStringList(c) }, func(a, b AnyList) { a.(*StringList).AddAll(b.(*StringList)) },
		func(a AnyList, x, y, z int) {
			s := []string{string(rune('0' + x)), string(rune('0' + y)), string(rune('0' + z))}
			a.(*StringList).AddAllArray(s)
			s[0], s[1], s[2] = "-", "-", "-"
		},
		func(a AnyList) { a.(*StringList).ToArray()[0] = "-" }},
}

func zzIs(l AnyList, want ...int) bool {
	if l.Size() != len(want) {
		return false
	}
	for i, w := range want {
		if l.GetInt(i) != w {
			return false
		}
	}
	return true
}

// vf: paths=20000
func ZZ_C13_BulkIndependent() {
	t := zzBulks[zzvf.Choose(len(zzBulks))]
	what := t.name + "/bulk-independent"
	a := t.mk([]int{0, 1, 8}[zzvf.Choose(3)])
	pre := zzvf.Choose(2) // receiver empty or holding one element
	if pre == 1 {
		a.AddInt(9)
	}
	head := []int{}
	if pre == 1 {
		head = []int{9}
	}
	switch zzvf.Choose(4) {
	case 0: // AddAll, then each side is updated in turn
		b := t.mk([]int{0, 3, 8}[zzvf.Choose(3)])
		b.AddInt(1)
		b.AddInt(2)
		b.AddInt(3)
		t.addAll(a, b)
		zzvf.Assert(zzIs(a, append(append([]int{}, head...), 1, 2, 3)...), what+"/addall/receiver-is-the-concatenation")
		switch zzvf.Choose(2) {
		case 0:
			b.SetInt(0, 7)
			b.AddInt(4)
			zzvf.Assert(zzIs(a, append(append([]int{}, head...), 1, 2, 3)...), what+"/addall/receiver-unchanged-by-update-of-argument")
		case 1:
			a.SetInt(pre, 7)
			a.AddInt(4)
			zzvf.Assert(zzIs(b, 1, 2, 3), what+"/addall/argument-unchanged-by-update-of-receiver")
		}
	case 1: // AddAllArray: the caller keeps and overwrites its slice
		t.addArr(a, 1, 2, 3)
		zzvf.Assert(zzIs(a, append(append([]int{}, head...), 1, 2, 3)...), what+"/addallarray/list-unchanged-by-update-of-the-slice")
	case 2: // ToArray hands out a copy
		a.AddInt(1)
		a.AddInt(2)
		t.toArr0(a)
		zzvf.Assert(zzIs(a, append(append([]int{}, head...), 1, 2)...), what+"/toarray/list-unchanged-by-update-of-the-array")
	case 3: // Filtering returns a new list
		a.AddInt(1)
		a.AddInt(2)
		f := a.Filtering([]int{0, 1})
		f.SetInt(0, 7)
		f.AddInt(8)
		zzvf.Assert(zzIs(a, append(append([]int{}, head...), 1, 2)...), what+"/filtering/list-unchanged-by-update-of-the-result")
		a.SetInt(1, 6)
		zzvf.Assert(f.GetInt(1) == append(append([]int{}, head...), 1, 2)[1], what+"/filtering/result-unchanged-by-update-of-the-list")
	}
	zzvf.Reach("bulk-independent")
}
