//vf:dir util/list
package list

import "github.com/whatap/golib/zzvf"

func zzNode(l *LinkedList, k int) *LinkedListEntity {
	e := l.GetFirst()
	for i := 0; i < k && e != nil; i++ {
		e = l.GetNext(e)
	}
	return e
}

func zzLLCheck(l *LinkedList, ref []int64, what string) {
	zzvf.Assert(l.Size() == len(ref), what+"/size")
	arr := l.ToArray()
	ok := len(arr) == len(ref)
	for i := range ref {
		if i < len(arr) {
			v, isInt := arr[i].(int64)
			ok = zzvf.And(ok, zzvf.And(isInt, v == ref[i]))
		}
	}
	zzvf.Assert(ok, what+"/sequence")
	// forward and backward links agree with the sequence
	e := l.GetFirst()
	fw := true
	for i := range ref {
		if e == nil {
			fw = false
			break
		}
		v, _ := e.Value.(int64)
		fw = zzvf.And(fw, v == ref[i])
		if i == len(ref)-1 {
			fw = zzvf.And(fw, e == l.GetLast())
		}
		e = l.GetNext(e)
	}
	zzvf.Assert(zzvf.And(fw, e == nil), what+"/links")
	if len(ref) == 0 {
		zzvf.Assert(zzvf.And(l.GetFirst() == nil, l.GetLast() == nil), what+"/empty-ends-nil")
	}
}

// the linked list as a sequence under any mix of its operations
//vf: paths=300000 t.paths=3000000
func ZZ_C13_LinkedList_Ops() {
	l := NewLinkedList()
	ref := []int64{}
	n := 4
	if zzvf.Thorough() {
		n = 6
	}
	ops := []string{"addfirst", "addlast", "add", "removefirst", "removelast", "remove", "putbefore", "clear"}
	for s := 0; s < n; s++ {
		op := zzvf.Choose(len(ops))
		what := "LinkedList/" + ops[op]
		switch op {
		case 0:
			v := zzvf.Int64()
			l.AddFirst(v)
			ref = append([]int64{v}, ref...)
		case 1:
			v := zzvf.Int64()
			l.AddLast(v)
			ref = append(ref, v)
		case 2:
			v := zzvf.Int64()
			zzvf.Assert(l.Add(v), what+"/returns-true")
			ref = append(ref, v)
		case 3:
			r := l.RemoveFirst()
			if len(ref) > 0 {
				v, ok := r.(int64)
				zzvf.Assert(zzvf.And(ok, v == ref[0]), what+"/returns-head")
				ref = ref[1:]
			} else {
				zzvf.Assert(r == nil, what+"/empty-returns-nil")
			}
		case 4:
			r := l.RemoveLast()
			if k := len(ref); k > 0 {
				v, ok := r.(int64)
				zzvf.Assert(zzvf.And(ok, v == ref[k-1]), what+"/returns-tail")
				ref = ref[:k-1]
			} else {
				zzvf.Assert(r == nil, what+"/empty-returns-nil")
			}
		case 5:
			if len(ref) == 0 {
				continue
			}
			k := zzvf.Choose(len(ref))
			r := l.Remove(zzNode(l, k))
			v, ok := r.(int64)
			zzvf.Assert(zzvf.And(ok, v == ref[k]), what+"/returns-element")
			ref = append(ref[:k:k], ref[k+1:]...)
		case 6:
			if len(ref) == 0 {
				continue
			}
			k := zzvf.Choose(len(ref))
			v := zzvf.Int64()
			nn := l.PutBefore(v, zzNode(l, k))
			zzvf.Assert(nn == zzNode(l, k), what+"/returns-new-node-at-position")
			ref = append(ref[:k:k], append([]int64{v}, ref[k:]...)...)
		case 7:
			l.Clear()
			ref = ref[:0]
		}
		zzLLCheck(l, ref, "LinkedList/after-"+ops[op])
	}
	zzvf.Reach("LinkedList/ops")
}
