//vf:dir util/compressutil
package compressutil

// C16 — the real compression helpers (the other C16 harnesses replace them by the contract
// model). The real compress/gzip code is executed by the interpreter on concrete payloads:
// (1) UnZip(DoZip(x)) == x for two different payloads, (2) the compressed bytes handed out
// by one call are not altered by the next call (a retained pack stays intact), (3) nil
// input is refused. Payloads: 0, 1, 40 and 40000 bytes of a repeating pattern / 33 distinct bytes.

import "github.com/whatap/golib/zzvf"

func zzPayload(kind, n int) []byte {
	b := make([]byte, n)
	for i := range b {
		if kind == 0 {
			b[i] = byte('a' + i%3)
		} else {
			b[i] = byte(7 * i)
		}
	}
	return b
}

//vf: paths=200 nostub=1 steps=400000000 visits=20000000
func ZZ_C16_RealZip() {
	// 40000: more than the 32 KiB decompression window (one Read does not return it all)
	n := []int{0, 1, 40, 40000}[zzvf.Choose(4)]
	a, b := zzPayload(0, n), zzPayload(1, 33)
	za, err := DoZip(a)
	zzvf.Assert(err == nil, "realzip/compress-ok")
	keep := append([]byte{}, za...)
	zb, err2 := DoZip(b)
	zzvf.Assert(err2 == nil, "realzip/compress-ok-2")
	zzvf.Assert(zzvf.Same(za, keep), "realzip/handed-out-bytes-not-altered-by-the-next-call")
	ua, e1 := UnZip(za)
	ub, e2 := UnZip(zb)
	zzvf.Assert(e1 == nil && zzvf.Same(ua, a), "realzip/roundtrip-first")
	zzvf.Assert(e2 == nil && zzvf.Same(ub, b), "realzip/roundtrip-second")
	_, e3 := DoZip(nil)
	zzvf.Assert(e3 != nil, "realzip/nil-input-refused")
	zzvf.Observe("len", len(za))
	zzvf.Reach("realzip")
}
