//vf:dir logsink/zip
//vf:stub github.com/whatap/golib/util/compressutil.DoZip ZipModel+
//vf:stub github.com/whatap/golib/util/compressutil.UnZip UnzipModel+
//vf:stub github.com/whatap/golib/util/dateutil.SystemNow ClockNow
package zip

import (
	"errors"
	"github.com/whatap/golib/io"
	"github.com/whatap/golib/lang/pack"
	"github.com/whatap/golib/logger"
	wnet "github.com/whatap/golib/net"
	"github.com/whatap/golib/util/compressutil"
	"github.com/whatap/golib/zzvf"
)

// recording TCP client; retain=false copies the pack's payload at hand-over (a client
// that transmits synchronously), retain=true keeps the pointer (a client that queues the
// pack for later transmission)
type zzClient struct {
	retain  bool
	packs   []*pack.ZipPack
	atSend  [][]byte // payload bytes as they were at hand-over
	counts  []int
	statuses []byte
	failAt  int // > 0: the failAt-th pack handed over is reported as failed (after it was taken)
}

func (c *zzClient) Connect() error { return nil }
func (c *zzClient) Close() error   { return nil }
func (c *zzClient) Send(p pack.Pack, opts ...wnet.TcpClientOption) error {
	return c.SendFlush(p, false)
}
func (c *zzClient) SendFlush(p pack.Pack, flush bool, opts ...wnet.TcpClientOption) error {
	z, ok := p.(*pack.ZipPack)
	if !ok {
		return nil
	}
	cp := make([]byte, len(z.Records))
	copy(cp, z.Records)
	c.atSend = append(c.atSend, cp)
	c.counts = append(c.counts, z.RecordCount)
	c.statuses = append(c.statuses, z.Status)
	c.packs = append(c.packs, z)
	if c.failAt > 0 && len(c.packs) == c.failAt {
		return errors.New("client: connection lost")
	}
	return nil
}

func zzSender(c *zzClient, maxBuf int, maxWait int64, zipMin int) *ZipSendProxyThread {
	return &ZipSendProxyThread{client: c, Log: &logger.EmptyLogger{}, logsinkMaxBufferSize: maxBuf, logsinkMaxWaitTime: maxWait, logsinkZipMinSize: zipMin, logsinkQueueSize: 10}
}

func zzRecord(i int) *pack.LogSinkPack {
	p := pack.NewLogSinkPack()
	p.Pcode = int64(zzvf.IntRange(1, 100))
	p.Oid = int32(zzvf.IntRange(1, 100))
	p.Category = "c"
	p.TagHash = int64(zzvf.IntRange(1, 100))
	p.Line = int64(i + 1)
	p.Content = zzvf.String(zzvf.Choose(3))
	return p
}

// decode every emitted pack (after decompression when flagged) back into records
func zzDecode(c *zzClient, useAtSend bool) (recs []pack.Pack, okCount bool, okStatus bool, zipMin int) {
	okCount, okStatus = true, true
	for i, z := range c.packs {
		payload := z.Records
		if useAtSend {
			payload = c.atSend[i]
		}
		if c.statuses[i] == pack.ZIPPED {
			raw, err := compressutil.UnZip(payload)
			if err != nil {
				okStatus = false
				continue
			}
			payload = raw
		}
		in := io.NewDataInputX(payload)
		n := 0
		for in.Available() > 0 {
			recs = append(recs, pack.ReadPack(in))
			n++
		}
		if n != c.counts[i] {
			okCount = false
		}
	}
	return
}

// sequential batching semantics for ALL settings (buffer size, waiting time and
// compression threshold symbolic): every appended record is emitted exactly once, in
// order, inside some zip pack; record count = records contained; compressed exactly when
// the payload reaches the minimum size; a batch is flushed as soon as size or age reaches
// the setting, and at stop; a pack already handed over is never altered afterwards
//vf: paths=300000 t.paths=3000000 deadline=8m
func ZZ_C16_AppendFlush() {
	c := &zzClient{retain: zzvf.Choose(2) == 1}
	maxBuf := zzvf.IntRange(0, 400)
	maxWait := int64(zzvf.IntRange(1, 10000)) // a waiting time of 0 ms (flush every record) is outside the claim
	zipMin := zzvf.IntRange(0, 400)
	s := zzSender(c, maxBuf, maxWait, zipMin)
	k := 1 + zzvf.Choose(2)
	if zzvf.Thorough() {
		k = 1 + zzvf.Choose(3)
	}
	var sent []*pack.LogSinkPack
	t := int64(zzvf.IntRange(1, 1000000))
	mLen, mFirst := 0, int64(0) // model of the open batch: payload length, time of its first record
	flushes := 0
	for i := 0; i < k; i++ {
		r := zzRecord(i)
		t += int64(zzvf.IntRange(0, 20000))
		r.Time = t
		sz := len(pack.ToBytesPack(r))
		before := len(c.packs)
		s.Append(r)
		sent = append(sent, r)
		// model: flush once the buffer size or the waiting time in force is reached
		if mLen == 0 {
			mFirst = t
		}
		mLen += sz
		want := zzvf.Or(mLen >= maxBuf, t-mFirst >= maxWait)
		got := len(c.packs) > before
		zzvf.Assert(got == want, "append/flushes-exactly-when-size-or-age-reached")
		if got {
			flushes++
			mLen = 0
		}
	}
	s.sendAndClear() // the stop path
	recs, okCount, okStatus, _ := zzDecode(c, true)
	zzvf.Assert(okStatus, "emitted/compressed-payload-decompresses")
	zzvf.Assert(okCount, "emitted/record-count-equals-records-contained")
	ok := len(recs) == len(sent)
	for i := range sent {
		if i < len(recs) {
			ok = zzvf.And(ok, zzvf.Same(recs[i], pack.Pack(sent[i])))
		}
	}
	zzvf.Assert(ok, "emitted/every-record-exactly-once-in-order")
	for i := range c.packs {
		raw := c.atSend[i]
		zipped := c.statuses[i] == pack.ZIPPED
		n := len(raw)
		if zipped {
			n-- // the contract model prepends one marker byte
		}
		zzvf.Assert(zipped == (n >= zipMin), "emitted/compressed-iff-payload-reaches-minimum")
	}
	if c.retain {
		okAlias := true
		for i, z := range c.packs {
			okAlias = zzvf.And(okAlias, zzvf.Same(z.Records, c.atSend[i]))
		}
		zzvf.Assert(okAlias, "retained/handed-over-pack-not-altered-by-later-records")
	}
	zzvf.Reach("appendflush")
}

// SendDirect: same guarantees for a slice of records handed over directly
//vf: paths=300000 deadline=8m
func ZZ_C16_SendDirect() {
	c := &zzClient{retain: true}
	maxBuf := zzvf.IntRange(0, 400)
	zipMin := zzvf.IntRange(0, 400)
	s := zzSender(c, maxBuf, 5000, zipMin)
	k := zzvf.Choose(4)
	var sent []*pack.LogSinkPack
	for i := 0; i < k; i++ {
		sent = append(sent, zzRecord(i))
	}
	s.SendDirect(sent)
	recs, okCount, okStatus, _ := zzDecode(c, false)
	zzvf.Assert(okStatus, "direct/compressed-payload-decompresses")
	zzvf.Assert(okCount, "direct/record-count-equals-records-contained")
	ok := len(recs) == len(sent)
	for i := range sent {
		if i < len(recs) {
			ok = zzvf.And(ok, zzvf.Same(recs[i], pack.Pack(sent[i])))
		}
	}
	zzvf.Assert(ok, "direct/every-record-exactly-once-in-order-even-when-retained")
	zzvf.Reach("senddirect")
}

// the built-in defaults are in force until configuration overrides them
func ZZ_C16_Defaults() {
	zipSendProxyThread = nil
	s := GetInstance(WithTcpClient(&zzClient{}))
	zzvf.Assert(s.logsinkMaxBufferSize == 64*1024, "defaults/buffer-64KiB")
	zzvf.Assert(s.logsinkMaxWaitTime == 5000, "defaults/wait-5s")
	zzvf.Assert(s.logsinkZipMinSize == 100, "defaults/compress-from-100-bytes")
	zzvf.Assert(s.logsinkQueueSize == 1000, "defaults/queue-1000")
	zipSendProxyThread = nil
	q := GetInstance(WithTcpClient(&zzClient{}), WithUseQueue())
	zzvf.Assert(zzvf.And(q.Queue != nil, q.Queue.GetCapacity() == 1000), "defaults/queue-capacity-1000")
	zipSendProxyThread = nil
	zzvf.Reach("defaults")
}

// a record that cannot be serialised (zero-value record without its tag map: Append recovers from
// the failure and drops it) in the middle of well-formed ones: the packs emitted afterwards still
// count exactly the records they contain and carry every well-formed record once, in order
//vf: paths=20000
func ZZ_C16_UnserialisableRecord() {
	c := &zzClient{retain: true}
	s := zzSender(c, 100000, 1000000, zzvf.IntRange(0, 400))
	pos := zzvf.Choose(3) // the bad record comes first, in the middle, or last
	var sent []*pack.LogSinkPack
	t := int64(zzvf.IntRange(1, 1000000))
	for i := 0; i < 3; i++ {
		if i == pos {
			bad := &pack.LogSinkPack{}
			bad.Time = t
			failed := zzvf.Panics(func() { s.Append(bad) })
			zzvf.Assert(!failed, "unserialisable/append-does-not-fail")
			continue
		}
		r := zzRecord(i)
		r.Time = t
		s.Append(r)
		sent = append(sent, r)
	}
	s.sendAndClear()
	recs, okCount, okStatus, _ := zzDecode(c, true)
	zzvf.Assert(okStatus, "unserialisable/compressed-payload-decompresses")
	zzvf.Assert(okCount, "unserialisable/record-count-equals-records-contained")
	ok := len(recs) == len(sent)
	for i := range sent {
		if i < len(recs) {
			ok = zzvf.And(ok, zzvf.Same(recs[i], pack.Pack(sent[i])))
		}
	}
	zzvf.Assert(ok, "unserialisable/every-well-formed-record-exactly-once-in-order")
	zzvf.Reach("unserialisable")
}


// a client that REPORTS A FAILURE for one of the packs handed to it (the connection was lost; the pack
// was passed to the client all the same): records appended before and after are still emitted exactly
// once, in order — a failed hand-over neither repeats its batch in the next pack nor loses later
// records; the record counts stay exact. Two or three flushes, the first or the second one fails.
//vf: paths=20000
func ZZ_C16_ClientError() {
	c := &zzClient{retain: zzvf.Choose(2) == 1, failAt: 1 + zzvf.Choose(2)}
	s := zzSender(c, 100000, 1000000, zzvf.IntRange(0, 400))
	var sent []*pack.LogSinkPack
	t := int64(zzvf.IntRange(1, 1000000))
	for round := 0; round < 3; round++ {
		for i := 0; i < 1+round%2; i++ {
			r := zzRecord(len(sent))
			r.Time = t
			s.Append(r)
			sent = append(sent, r)
		}
		s.sendAndClear()
	}
	zzvf.Assert(len(c.packs) == 3, "client-error/one-pack-per-flush")
	recs, okCount, okStatus, _ := zzDecode(c, true)
	zzvf.Assert(okStatus, "client-error/compressed-payload-decompresses")
	zzvf.Assert(okCount, "client-error/record-count-equals-records-contained")
	ok := len(recs) == len(sent)
	for i := range sent {
		if i < len(recs) {
			ok = zzvf.And(ok, zzvf.Same(recs[i], pack.Pack(sent[i])))
		}
	}
	zzvf.Assert(ok, "client-error/every-record-exactly-once-in-order")
	zzvf.Reach("client-error")
}
