//vf:dir logsink/zip
//vf:go ZipSendProxyThread).run
package zip

// C16 — queue mode through the REAL background loop (*ZipSendProxyThread).run started by
// GetInstance: the goroutine runs as a cooperative coroutine (natively: the real goroutine
// and real waiting times); the harness adds records and waits, on a channel fed by the
// client, for the pack. Idle flush (queue empty for the waiting time) and flush at stop.
// Clock: exact virtual clock. Compression: contract model (as in the other C16 harnesses).

import (
	"context"

	"github.com/whatap/golib/lang/pack"
	wnet "github.com/whatap/golib/net"
	"github.com/whatap/golib/zzvf"
)

type zzChanClient struct {
	zzClient
	ch chan int
}

func (c *zzChanClient) SendFlush(p pack.Pack, flush bool, opts ...wnet.TcpClientOption) error {
	c.zzClient.SendFlush(p, flush)
	c.ch <- 1
	return nil
}
func (c *zzChanClient) Send(p pack.Pack, opts ...wnet.TcpClientOption) error {
	return c.SendFlush(p, false)
}

//vf: paths=2000
func ZZ_C16_QueueLoop() {
	zzvf.ClockExact(1700000000000)
	zipSendProxyThread = nil // fresh singleton
	c := &zzChanClient{ch: make(chan int, 8)}
	ctx, cancel := context.WithCancel(context.Background())
	s := GetInstance(WithUseQueue(), WithTcpClient(c), WithContext(ctx, cancel))
	r1, r2, r3 := zzRecord(0), zzRecord(1), zzRecord(2)
	r1.Time, r2.Time, r3.Time = 1700000000000, 1700000000010, 1700000000020
	s.Add(r1)
	s.Add(r2)
	<-c.ch // idle flush: the queue stays empty for the waiting time
	zzvf.Assert(len(c.packs) == 1, "queueloop/one-pack-after-idle-flush")
	recs, okCount, okStatus, _ := zzDecode(&c.zzClient, false)
	zzvf.Assert(okCount && okStatus, "queueloop/record-count-and-status-consistent")
	ok := len(recs) == 2
	zzvf.Assert(ok, "queueloop/both-records-in-the-pack")
	if ok {
		zzvf.Assert(zzvf.Same(recs[0], r1) && zzvf.Same(recs[1], r2), "queueloop/records-in-order-and-intact")
	}
	// re-configuration while the loop runs (what ApplyConfig assigns): the waiting time in
	// force is the new one — the idle flush of the next batch comes after about that long
	s.logsinkMaxWaitTime = 300
	r4 := zzRecord(3)
	r4.Time = 1700000000015
	s.Add(r4)
	t0 := zzvf.ClockNow()
	<-c.ch
	t1 := zzvf.ClockNow()
	// (the wait already in progress when the setting changed ends with the record; the
	// following idle wait uses the new setting: well under the old 5 s)
	zzvf.Assert(t1-t0 <= 2500, "queueloop/reconfigured-waiting-time-is-in-force")
	s.Add(r3)
	zzvf.SleepYield(50) // let the loop pick the record up
	cancel()
	<-c.ch // the record still buffered reaches the client (waiting time or stop)
	recs, okCount, okStatus, _ = zzDecode(&c.zzClient, false)
	zzvf.Assert(okCount && okStatus, "queueloop/after-stop/record-count-and-status-consistent")
	ok = len(recs) == 4
	zzvf.Assert(ok, "queueloop/after-stop/nothing-lost-nothing-duplicated")
	if ok {
		zzvf.Assert(zzvf.Same(recs[2], r4) && zzvf.Same(recs[3], r3), "queueloop/after-stop/last-records-intact")
	}
	zzvf.Reach("queue-loop")
}
