//vf:dir lang/value
//vf:use valuegen.go
package value

import (
	"math"

	"github.com/whatap/golib/io"
	"github.com/whatap/golib/zzvf"
)

var zzKinds = []string{"null", "bool", "decimal", "int", "long", "float", "double", "doublesummary", "longsummary", "text", "texthash", "blob", "ip4",
	"intarray", "floatarray", "textarray", "longarray", "emptylist", "list", "map", "intmap"}

func zzSign(x int) int {
	return zzvf.IteInt(x > 0, 1, zzvf.IteInt(x < 0, -1, 0))
}

func zzHasNaN(v Value) bool {
	switch x := v.(type) {
	case *FloatValue:
		return x.Val != x.Val
	case *DoubleValue:
		return x.Val != x.Val
	case *DoubleSummary:
		return zzvf.Or(x.Sum != x.Sum, zzvf.Or(x.Min != x.Min, x.Max != x.Max))
	case *ListValue:
		r := false
		for i := 0; i < x.Size(); i++ {
			r = zzvf.Or(r, zzHasNaN(x.Get(i)))
		}
		return r
	case *FloatArray:
		r := false
		for _, f := range x.Val {
			r = zzvf.Or(r, f != f)
		}
		return r
	}
	return false
}

// Equals / CompareTo never fail, for any two values of any shapes (incl. nil operand)
//vf: paths=400000
func ZZ_C20_Total() {
	zzElemKinds = []int{0, 3, 9}
	ka, kb := zzvf.Choose(zzNAll), zzvf.Choose(zzNAll+1)
	a, _ := zzGenKind(ka, 1, 2)
	var b Value
	kbn := "nil"
	if kb < zzNAll {
		b, _ = zzGenKind(kb, 1, 2)
		kbn = zzKinds[kb]
	}
	pair := zzKinds[ka] + "-" + kbn
	zzvf.Assert(!zzvf.Panics(func() { a.Equals(b) }), "equals/no-panic/"+pair)
	zzvf.Assert(!zzvf.Panics(func() { a.CompareTo(b) }), "compare/no-panic/"+pair)
	zzvf.Reach("total/" + zzKinds[ka])
}

// laws on pairs: symmetry of Equals, sign reversal of CompareTo, ordering of different
// types by type code, scalar cmp==0 <=> Equals
//vf: paths=400000
func ZZ_C20_Pairs() {
	zzElemKinds = []int{0, 3, 9}
	ka, kb := zzvf.Choose(zzNAll), zzvf.Choose(zzNAll)
	a, _ := zzGenKind(ka, 1, 2)
	b, _ := zzGenKind(kb, 1, 2)
	pair := zzKinds[ka] + "-" + zzKinds[kb]
	var eab, eba bool
	var cab, cba int
	if zzvf.Panics(func() { eab, eba = a.Equals(b), b.Equals(a) }) {
		return // reported by ZZ_C20_Total
	}
	if zzvf.Panics(func() { cab, cba = a.CompareTo(b), b.CompareTo(a) }) {
		return
	}
	nan := zzvf.Or(zzHasNaN(a), zzHasNaN(b))
	zzvf.Assert(eab == eba, "equals/symmetric/"+pair)
	zzvf.Assert(zzvf.Implies(zzvf.Not(nan), zzSign(cab) == -zzSign(cba)), "compare/sign-reversal/"+pair)
	ta, tb := int(a.GetValueType()), int(b.GetValueType())
	if ta != tb {
		zzvf.Assert(zzvf.Not(eab), "equals/different-types-unequal/"+pair)
		zzvf.Assert(zzSign(cab) == zzSign(ta-tb), "compare/ordered-by-type-code/"+pair)
	} else if ka != kb {
		// empty list vs list: same type
	} else if ka <= 6 || ka == 9 || ka == 10 { // scalar kinds
		zzvf.Assert(zzvf.Implies(zzvf.Not(nan), (cab == 0) == eab), "compare/zero-iff-equal/"+zzKinds[ka])
	} else {
		zzvf.Assert(zzvf.Implies(zzvf.Not(nan), zzvf.Implies(eab, cab == 0)), "compare/equal-implies-zero/"+zzKinds[ka])
	}
	zzvf.Reach("pairs/" + zzKinds[ka])
}

// reflexivity and equality with the decoded encoding
//vf: paths=200000
func ZZ_C20_Reflexive() {
	zzElemKinds = []int{0, 3, 9, 11}
	k := zzvf.Choose(zzNAll)
	a, _ := zzGenKind(k, 1, 2)
	nan := zzHasNaN(a)
	ok := false
	zzvf.Assert(!zzvf.Panics(func() { ok = a.Equals(a) }), "equals/self/no-panic/"+zzKinds[k])
	zzvf.Assert(zzvf.Implies(zzvf.Not(nan), ok), "equals/reflexive/"+zzKinds[k])
	zzvf.Assert(zzvf.Implies(nan, ok), "equals/reflexive-nan/"+zzKinds[k])
	c := 1
	zzvf.Assert(!zzvf.Panics(func() { c = a.CompareTo(a) }), "compare/self/no-panic/"+zzKinds[k])
	zzvf.Assert(zzvf.Implies(zzvf.Not(nan), c == 0), "compare/self-zero/"+zzKinds[k])
	out := io.NewDataOutputX()
	WriteValue(out, a)
	d := ReadValue(io.NewDataInputX(out.ToByteArray()))
	ok2, ok3 := false, false
	zzvf.Assert(!zzvf.Panics(func() { ok2, ok3 = a.Equals(d), d.Equals(a) }), "equals/decoded/no-panic/"+zzKinds[k])
	zzvf.Assert(zzvf.Implies(zzvf.Not(nan), zzvf.And(ok2, ok3)), "equals/value-equals-its-decoding/"+zzKinds[k])
	zzvf.Reach("reflexive/" + zzKinds[k])
}

// transitivity on triples of the same kind (scalars symbolic)
//vf: paths=400000
func ZZ_C20_Transitive() {
	zzElemKinds = []int{3, 9}
	k := zzvf.Choose(zzNAll)
	a, _ := zzGenKind(k, 1, 1)
	b, _ := zzGenKind(k, 1, 1)
	c, _ := zzGenKind(k, 1, 1)
	var eab, ebc, eac bool
	var cab, cbc, cac int
	if zzvf.Panics(func() {
		eab, ebc, eac = a.Equals(b), b.Equals(c), a.Equals(c)
		cab, cbc, cac = a.CompareTo(b), b.CompareTo(c), a.CompareTo(c)
	}) {
		return
	}
	nan := zzvf.Or(zzHasNaN(a), zzvf.Or(zzHasNaN(b), zzHasNaN(c)))
	zzvf.Assert(zzvf.Implies(zzvf.Not(nan), zzvf.Implies(zzvf.And(eab, ebc), eac)), "equals/transitive/"+zzKinds[k])
	zzvf.Assert(zzvf.Implies(nan, zzvf.Implies(zzvf.And(eab, ebc), eac)), "equals/transitive-nan/"+zzKinds[k])
	zzvf.Assert(zzvf.Implies(zzvf.Not(nan), zzvf.Implies(zzvf.And(cab <= 0, cbc <= 0), cac <= 0)), "compare/transitive/"+zzKinds[k])
	zzvf.Reach("transitive/" + zzKinds[k])
}

var _ = math.NaN

// the IPv4 value built by its constructor from ANY payload (nil, short, exactly 4 bytes,
// longer — e.g. the 16-byte form net.ParseIP returns) equals its own decoding, alone and
// followed by another element in a list
//vf: paths=2000
func ZZ_C20_IP4Constructor() {
	n := []int{-1, 0, 3, 4, 5, 16}[zzvf.Choose(6)]
	var payload []byte
	if n >= 0 {
		payload = zzvf.Bytes(n)
	}
	v := NewIP4Value(payload)
	d := ReadValue(io.NewDataInputX(zzEnc20(v)))
	zzvf.Assert(v.Equals(d), "ip4-constructor/equals-its-decoding")
	zzvf.Assert(v.CompareTo(d) == 0, "ip4-constructor/compares-zero-with-its-decoding")
	l := NewListValue(nil)
	l.Add(v)
	l.AddLong(7)
	var dl Value
	pv := zzvf.PanicValue(func() { dl = ReadValue(io.NewDataInputX(zzEnc20(l))) })
	zzvf.Assert(pv == "", "ip4-constructor/list-with-following-element-decodes")
	if pv == "" {
		zzvf.Assert(l.Equals(dl), "ip4-constructor/list-equals-its-decoding")
	}
	zzvf.Reach("ip4-constructor")
}

func zzEnc20(v Value) []byte {
	out := io.NewDataOutputX()
	WriteValue(out, v)
	return out.ToByteArray()
}

// maps that went through a merge: two maps with the same keys in the same order (symbolic decimal
// values), then one of them receives PutAll of a map holding one or both of its own entries with
// identical values (also via the decoded copy). It still equals its former self, so its comparison
// against the other map keeps its sign, and comparison still reverses sign when operands are swapped.
//vf: paths=20000
func ZZ_C20_MapAfterMerge() {
	keys := []string{"x", "y", "k3"}
	n := 2 + zzvf.Choose(2)
	a, b := NewMapValue(), NewMapValue()
	av := make([]int64, n)
	for i := 0; i < n; i++ {
		av[i] = zzvf.Int64()
		a.PutLong(keys[i], av[i])
		b.PutLong(keys[i], zzvf.Int64())
	}
	before := ReadValue(io.NewDataInputX(zzEnc20(a)))
	c0 := zzSign(a.CompareTo(b))
	zzvf.Assert(c0 == -zzSign(b.CompareTo(a)), "map-merge/sign-reversal-before")
	same := NewMapValue()
	first := zzvf.Choose(n)
	same.PutLong(keys[first], av[first])
	if zzvf.Choose(2) == 1 {
		o := (first + 1) % n
		same.PutLong(keys[o], av[o])
	}
	a.PutAll(same)
	zzvf.Assert(zzvf.And(a.Equals(before), before.Equals(a)), "map-merge/merged-map-equals-its-former-self")
	c1 := zzSign(a.CompareTo(b))
	zzvf.Assert(c1 == c0, "map-merge/comparison-unchanged-by-merging-identical-entries")
	zzvf.Assert(c1 == -zzSign(b.CompareTo(a)), "map-merge/sign-reversal-after")
	zzvf.Assert(zzSign(before.CompareTo(b)) == c1, "map-merge/equal-maps-order-alike")
	zzvf.Reach("map-merge")
}
