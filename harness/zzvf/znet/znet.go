// Package znet is substituted for "net" in the package under test, in BOTH the symbolic
// load and the native replay (`//vf:import <dir> net github.com/whatap/golib/zzvf/znet
// both`): an in-memory model of dialling and of one direction of a TCP connection as the
// client sees it, driven by a fault plan that the harness (and the solver) chooses.
//
// Contract modelled (DESIGN.md §8): a dial attempt succeeds or is refused according to
// the plan; the bytes written to a connection reach the peer in order, without
// duplication, up to the connection's cut offset (peer closed / reset: later bytes are
// lost); a Write that would pass the error offset transfers the bytes up to it and
// returns an error, as does every later Write (loss becomes detectable there; between
// cut and error offset it is not, as with real TCP buffering); Close is idempotent in
// effect; a write deadline is honoured in the model's virtual time (Advance).
package znet

import (
	"errors"
	"time"
)

type Addr interface {
	Network() string
	String() string
}

type tcpAddr string

func (a tcpAddr) Network() string { return "tcp" }
func (a tcpAddr) String() string  { return string(a) }

type Conn interface {
	Read(b []byte) (n int, err error)
	Write(b []byte) (n int, err error)
	Close() error
	LocalAddr() Addr
	RemoteAddr() Addr
	SetDeadline(t time.Time) error
	SetReadDeadline(t time.Time) error
	SetWriteDeadline(t time.Time) error
}

// Link is the planned behaviour of one dial attempt.
type Link struct {
	Refuse bool
	Cut    int // the peer receives only the first Cut bytes (-1: everything)
	ErrAt  int // the Write that would pass this offset fails there (-1: never)
}

var (
	Plan  []Link     // behaviour of the i-th dial attempt; attempts beyond the plan are healthy
	Dials int        // dial attempts so far
	Links []*TCPConn // connections established, in order (the collector's view)

	ErrRefused = errors.New("connect: connection refused")
	ErrReset   = errors.New("write: connection reset by peer")
	ErrClosed  = errors.New("use of closed network connection")
)

// virtual time of the connection model (advanced by the harness): a write deadline set at
// virtual time T for a duration D makes every Write after T+D fail with ErrTimeout
var Clock time.Duration

// Advance lets virtual time pass (an idle period between sends).
func Advance(d time.Duration) { Clock += d }

var ErrTimeout = errors.New("write: i/o timeout")

func Reset() { Plan, Dials, Links, Clock = nil, 0, nil, 0 }

type TCPConn struct {
	Addr      string
	Rcvd      []byte // what the peer has received on this connection
	Sent      int    // bytes the client's Write calls have transferred
	Cut       int
	ErrAt     int
	Closed    bool
	WriteErrs int // Write calls that returned an error
	Writes    int
	hasWDL    bool
	wdl       time.Duration // virtual instant at which the write deadline expires
}

func DialTimeout(network, address string, timeout time.Duration) (Conn, error) {
	i := Dials
	Dials++
	l := Link{Cut: -1, ErrAt: -1}
	if i < len(Plan) {
		l = Plan[i]
	}
	if l.Refuse {
		return nil, ErrRefused
	}
	c := &TCPConn{Addr: address, Cut: l.Cut, ErrAt: l.ErrAt}
	Links = append(Links, c)
	return c, nil
}

func Dial(network, address string) (Conn, error) { return DialTimeout(network, address, 0) }

func (c *TCPConn) deliver(b []byte) {
	c.Sent += len(b)
	if c.Cut >= 0 {
		room := c.Cut - len(c.Rcvd)
		if room <= 0 {
			return
		}
		if len(b) > room {
			b = b[:room]
		}
	}
	c.Rcvd = append(c.Rcvd, b...)
}

func (c *TCPConn) Write(b []byte) (int, error) {
	c.Writes++
	if c.Closed {
		c.WriteErrs++
		return 0, ErrClosed
	}
	if c.hasWDL && Clock > c.wdl {
		c.WriteErrs++
		return 0, ErrTimeout
	}
	if c.ErrAt >= 0 && c.Sent+len(b) > c.ErrAt {
		n := c.ErrAt - c.Sent
		if n < 0 {
			n = 0
		}
		c.deliver(b[:n])
		c.WriteErrs++
		return n, ErrReset
	}
	c.deliver(b)
	return len(b), nil
}

func (c *TCPConn) Read(b []byte) (int, error) { return 0, errors.New("read: not modelled (one-way)") }

func (c *TCPConn) Close() error {
	if c.Closed {
		return ErrClosed
	}
	c.Closed = true
	return nil
}

func (c *TCPConn) LocalAddr() Addr  { return tcpAddr("127.0.0.1:1") }
func (c *TCPConn) RemoteAddr() Addr { return tcpAddr(c.Addr) }

func (c *TCPConn) dl() error {
	if c.Closed {
		return ErrClosed
	}
	return nil
}
func (c *TCPConn) SetDeadline(t time.Time) error      { return c.dl() }
func (c *TCPConn) SetReadDeadline(t time.Time) error  { return c.dl() }
func (c *TCPConn) SetWriteDeadline(t time.Time) error {
	if err := c.dl(); err != nil {
		return err
	}
	if t.IsZero() {
		c.hasWDL = false
		return nil
	}
	// the deadline is an absolute wall-clock instant: its distance from "now" in virtual time
	c.hasWDL, c.wdl = true, Clock+time.Until(t)
	return nil
}
func (c *TCPConn) SetNoDelay(b bool) error            { return c.dl() }
func (c *TCPConn) SetKeepAlive(b bool) error          { return c.dl() }
