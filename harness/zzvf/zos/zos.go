// Package zos is substituted for "os" in a package under test during NATIVE replay only
// (`//vf:import <dir> os github.com/whatap/golib/zzvf/zos native`): thin wrappers around
// the real operating system that count mutating file operations exactly like the ghost
// file system of zzvf/env.go does and stop the process (panic(zzvf.GCrash)) after the
// k-th one — so that a crash point found symbolically is reproduced against the real
// file system.
package zos

import (
	"os"
	"time"

	"github.com/whatap/golib/zzvf"
)

const (
	O_RDONLY = os.O_RDONLY
	O_WRONLY = os.O_WRONLY
	O_RDWR   = os.O_RDWR
	O_APPEND = os.O_APPEND
	O_CREATE = os.O_CREATE
	O_EXCL   = os.O_EXCL
	O_SYNC   = os.O_SYNC
	O_TRUNC  = os.O_TRUNC

	ModePerm = os.ModePerm
)

type (
	FileMode  = os.FileMode
	FileInfo  = os.FileInfo
	PathError = os.PathError
)

var (
	ErrNotExist = os.ErrNotExist
	ErrExist    = os.ErrExist
	Stdout      = &File{os.Stdout}
	Stderr      = &File{os.Stderr}
)

type File struct{ *os.File }

func crash(op string) { panic(zzvf.GCrash{Op: op}) }

func exists(name string) bool { _, err := os.Lstat(name); return err == nil }

func OpenFile(name string, flag int, perm FileMode) (*File, error) {
	existed := exists(name)
	f, err := os.OpenFile(name, flag, perm)
	if err != nil {
		return nil, err
	}
	switch {
	case !existed && flag&O_CREATE != 0:
		if zzvf.FsMutation("create") {
			crash("create")
		}
	case existed && flag&O_TRUNC != 0 && flag&(O_WRONLY|O_RDWR) != 0:
		if zzvf.FsMutation("truncate") {
			crash("truncate")
		}
	}
	return &File{f}, nil
}

func Open(name string) (*File, error)   { return OpenFile(name, O_RDONLY, 0) }
func Create(name string) (*File, error) { return OpenFile(name, O_RDWR|O_CREATE|O_TRUNC, 0666) }

func CreateTemp(dir, pattern string) (*File, error) {
	f, err := os.CreateTemp(dir, pattern)
	if err != nil {
		return nil, err
	}
	if zzvf.FsMutation("create") {
		crash("create")
	}
	return &File{f}, nil
}

func (f *File) Write(b []byte) (int, error) {
	if f == nil {
		return 0, os.ErrInvalid
	}
	if len(b) == 0 {
		return f.File.Write(b)
	}
	stop := zzvf.FsMutation("write")
	if stop && zzvf.GfsCrashP >= 0 && zzvf.GfsCrashP < len(b) {
		b = b[:zzvf.GfsCrashP]
	}
	n, err := f.File.Write(b)
	if stop {
		crash("write")
	}
	return n, err
}

func (f *File) WriteString(s string) (int, error) { return f.Write([]byte(s)) }

func (f *File) Truncate(size int64) error {
	stop := zzvf.FsMutation("truncate")
	err := f.File.Truncate(size)
	if stop {
		crash("truncate")
	}
	return err
}

func (f *File) Close() error {
	if f == nil {
		return os.ErrInvalid
	}
	err := f.File.Close()
	if h := zzvf.GfsOnClose; err == nil && h != nil {
		zzvf.GfsOnClose = nil
		h()
	}
	return err
}

func Remove(name string) error {
	if !exists(name) {
		return os.Remove(name)
	}
	stop := zzvf.FsMutation("remove")
	err := os.Remove(name)
	if stop {
		crash("remove")
	}
	return err
}

func Rename(oldpath, newpath string) error {
	if !exists(oldpath) {
		return os.Rename(oldpath, newpath)
	}
	stop := zzvf.FsMutation("rename")
	err := os.Rename(oldpath, newpath)
	if stop {
		crash("rename")
	}
	return err
}

func Mkdir(name string, perm FileMode) error {
	err := os.Mkdir(name, perm)
	if err == nil && zzvf.FsMutation("mkdir") {
		crash("mkdir")
	}
	return err
}

func MkdirAll(path string, perm FileMode) error { return os.MkdirAll(path, perm) }

func WriteFile(name string, data []byte, perm FileMode) error {
	f, err := OpenFile(name, O_WRONLY|O_CREATE|O_TRUNC, perm)
	if err != nil {
		return err
	}
	_, err = f.Write(data)
	if err1 := f.Close(); err1 != nil && err == nil {
		err = err1
	}
	return err
}

func ReadFile(name string) ([]byte, error)     { return os.ReadFile(name) }
func Stat(name string) (FileInfo, error)       { return os.Stat(name) }
func Lstat(name string) (FileInfo, error)      { return os.Lstat(name) }
func IsNotExist(err error) bool                { return os.IsNotExist(err) }
func IsExist(err error) bool                   { return os.IsExist(err) }
func Getenv(key string) string                 { return os.Getenv(key) }
func Getpid() int                              { return os.Getpid() }
func Chtimes(n string, a, m time.Time) error       { return os.Chtimes(n, a, m) }
func Chmod(name string, mode FileMode) error   { return os.Chmod(name, mode) }
func TempDir() string                          { return os.TempDir() }
func Hostname() (string, error)                { return os.Hostname() }
func ReadDir(name string) ([]os.DirEntry, error) { return os.ReadDir(name) }
