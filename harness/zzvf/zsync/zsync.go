// Package zsync is substituted for "sync" in a package under test during NATIVE replay only
// (`//vf:import <dir> sync github.com/whatap/golib/zzvf/zsync native`): the real
// primitives plus an event log in the executor's format (lock / unlock / rlock / runlock /
// wait / signal / broadcast <name>), so that trace properties over the lock events
// (critical-section structure, wake-up protocol) are evaluated by the native replay on what
// the compiled code really does. Meaningful for single-threaded harness sections only.
package zsync

import (
	"fmt"
	"sync"

	"github.com/whatap/golib/zzvf"
)

type (
	Locker    = sync.Locker
	Once      = sync.Once
	WaitGroup = sync.WaitGroup
	Pool      = sync.Pool
	Map       = sync.Map
)

type Mutex struct{ mu sync.Mutex }

func (m *Mutex) name() string { return fmt.Sprintf("m%p", m) }
func (m *Mutex) Lock()        { m.mu.Lock(); zzvf.NativeEvent("lock " + m.name()) }
func (m *Mutex) Unlock()      { zzvf.NativeEvent("unlock " + m.name()); m.mu.Unlock() }
func (m *Mutex) TryLock() bool {
	ok := m.mu.TryLock()
	if ok {
		zzvf.NativeEvent("lock " + m.name())
	}
	return ok
}

type RWMutex struct{ mu sync.RWMutex }

func (m *RWMutex) name() string { return fmt.Sprintf("m%p", m) }
func (m *RWMutex) Lock()        { m.mu.Lock(); zzvf.NativeEvent("lock " + m.name()) }
func (m *RWMutex) Unlock()      { zzvf.NativeEvent("unlock " + m.name()); m.mu.Unlock() }
func (m *RWMutex) RLock()       { m.mu.RLock(); zzvf.NativeEvent("rlock " + m.name()) }
func (m *RWMutex) RUnlock()     { zzvf.NativeEvent("runlock " + m.name()); m.mu.RUnlock() }

type Cond struct {
	L Locker
	c *sync.Cond
}

func NewCond(l Locker) *Cond { return &Cond{L: l, c: sync.NewCond(l)} }

func (c *Cond) name() string { return fmt.Sprintf("c%p", c) }
func (c *Cond) Wait()        { zzvf.NativeEvent("wait " + c.name()); c.c.Wait() }
func (c *Cond) Signal()      { zzvf.NativeEvent("signal " + c.name()); c.c.Signal() }
func (c *Cond) Broadcast()   { zzvf.NativeEvent("broadcast " + c.name()); c.c.Broadcast() }
