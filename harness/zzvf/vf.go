// Package zzvf is the harness API of the golib verification machinery (/verif).
//
// Under the symbolic executor (gosym) every function here is intercepted: the nondet
// functions return fresh solver variables, Assume/Assert become path constraints and
// proof obligations. The bodies below are the *native twin*, used only to replay a
// solver model (counterexample or reachability witness) against the really compiled code:
// inputs are read, in call order, from the replay file named by $ZZVF_REPLAY.
package zzvf

import (
	"bytes"
	"sync"
	"strings"
	"encoding/hex"
	"encoding/json"
	"fmt"
	"math"
	"os"
	"reflect"
	"strconv"
	"time"
	"unsafe"
)

type input struct {
	T string `json:"t"`
	V string `json:"v"`
}

type replayFile struct {
	Inputs  []input `json:"inputs"`
	Choose  []int   `json:"choose"`
	Derived []bool  `json:"derived"`
}

var (
	rp       replayFile
	ip, cp   int
	dp       int
	loaded   bool
	Failed   []string
	clockNow int64
)

func load() {
	if loaded {
		return
	}
	loaded = true
	p := os.Getenv("ZZVF_REPLAY")
	if p == "" {
		return
	}
	b, err := os.ReadFile(p)
	if err != nil {
		panic("zzvf: " + err.Error())
	}
	if err := json.Unmarshal(b, &rp); err != nil {
		panic("zzvf: " + err.Error())
	}
}

// Reset rewinds the replay cursor (used by the generated test wrapper).
func Reset() { nativeEvents = nil; clockIsExact = false; loaded = false; ip, cp, dp = 0, 0, 0; Failed = nil; load() }

func next(t string) string {
	load()
	if ip >= len(rp.Inputs) {
		return "0"
	}
	in := rp.Inputs[ip]
	ip++
	if in.T != t {
		fmt.Printf("VF-MISMATCH input %d: want %s have %s\n", ip-1, t, in.T)
	}
	return in.V
}

func nextU(t string) uint64 {
	v, _ := strconv.ParseUint(next(t), 10, 64)
	return v
}

func Int64() int64     { return int64(nextU("i64")) }
func Int32() int32     { return int32(nextU("i32")) }
func Int16() int16     { return int16(nextU("i16")) }
func Int8() int8       { return int8(nextU("i8")) }
func Int() int         { return int(nextU("int")) }
func Uint64() uint64   { return nextU("u64") }

// IntRange returns a fresh symbolic int in [lo,hi] (0 <= lo <= hi). Unlike Int()+Assume the
// range is part of the variable: comparisons and divisions by constants over it are
// simplified statically, often without any solver query.
func IntRange(lo, hi int) int { return int(nextU("int")) }
func Uint32() uint32   { return uint32(nextU("u32")) }
func Uint16() uint16   { return uint16(nextU("u16")) }
func Uint8() uint8     { return uint8(nextU("u8")) }
func Byte() byte       { return uint8(nextU("u8")) }
func Uint() uint       { return uint(nextU("uint")) }
func Bool() bool       { return nextU("bool") != 0 }
func Float32() float32 { return math.Float32frombits(uint32(nextU("f32"))) }
func Float64() float64 { return math.Float64frombits(nextU("f64")) }

// Bytes returns a fresh byte slice of concrete length n with symbolic contents.
func Bytes(n int) []byte {
	s := next("bytes")
	b, _ := hex.DecodeString(s)
	for len(b) < n {
		b = append(b, 0)
	}
	return b[:n:n]
}

// String returns a fresh string of concrete length n with symbolic bytes.
func String(n int) string { return string(Bytes(n)) }

// Choose returns a concrete value in [0,n); the driver enumerates all of them.
func Choose(n int) int {
	load()
	if cp >= len(rp.Choose) {
		return 0
	}
	c := rp.Choose[cp]
	cp++
	return c
}

type assumeFailed struct{}

// Assume restricts the explored inputs. Natively a false assumption means the replayed
// model does not follow the path the executor took: reported as a mismatch.
func Assume(c bool) {
	if !c {
		fmt.Println("VF-ASSUME-FAIL")
		panic(assumeFailed{})
	}
}

// Assert states a property obligation with a label (labels identify findings).
func Assert(c bool, label string) {
	if !c {
		fmt.Printf("VF-ASSERT %s\n", label)
		Failed = append(Failed, label)
	}
}

// Reach marks a point some feasible path must reach (vacuity witness).
func Reach(label string) { fmt.Printf("VF-REACH %s\n", label) }

// Panics runs f and reports whether it panicked (recoverable panic).
func Panics(f func()) (p bool) {
	defer func() {
		if r := recover(); r != nil {
			if _, ok := r.(assumeFailed); ok {
				panic(r)
			}
			p = true
		}
	}()
	f()
	return false
}

// PanicValue runs f and returns the panic message ("" when f returned normally).
func PanicValue(f func()) (msg string) {
	defer func() {
		if r := recover(); r != nil {
			if _, ok := r.(assumeFailed); ok {
				panic(r)
			}
			msg = fmt.Sprint(r)
			if msg == "" {
				msg = "panic"
			}
		}
	}()
	f()
	return ""
}

func And(a, b bool) bool         { return a && b }
func Or(a, b bool) bool          { return a || b }
func Not(a bool) bool            { return !a }
func Implies(a, b bool) bool     { return !a || b }
func IteInt(c bool, a, b int) int {
	if c {
		return a
	}
	return b
}
func IteInt64(c bool, a, b int64) int64 {
	if c {
		return a
	}
	return b
}

// Observe logs a value; the executor evaluates the same value under the model and the
// driver compares both (translator validation).
func Observe(tag string, v interface{}) {
	fmt.Printf("VF-OBS %s=%s\n", tag, fmtObs(v))
}

func fmtObs(v interface{}) string {
	switch x := v.(type) {
	case bool:
		if x {
			return "1"
		}
		return "0"
	case int:
		return strconv.FormatUint(uint64(x), 10)
	case int8:
		return strconv.FormatUint(uint64(uint8(x)), 10)
	case int16:
		return strconv.FormatUint(uint64(uint16(x)), 10)
	case int32:
		return strconv.FormatUint(uint64(uint32(x)), 10)
	case int64:
		return strconv.FormatUint(uint64(x), 10)
	case uint:
		return strconv.FormatUint(uint64(x), 10)
	case uint8:
		return strconv.FormatUint(uint64(x), 10)
	case uint16:
		return strconv.FormatUint(uint64(x), 10)
	case uint32:
		return strconv.FormatUint(uint64(x), 10)
	case uint64:
		return strconv.FormatUint(x, 10)
	case float32:
		return strconv.FormatUint(uint64(math.Float32bits(x)), 10)
	case float64:
		return strconv.FormatUint(math.Float64bits(x), 10)
	case string:
		return "x" + hex.EncodeToString([]byte(x))
	case []byte:
		return "x" + hex.EncodeToString(x)
	}
	return "?"
}

// Same: deep structural equality. nil and empty slices are equal; floats compare
// bitwise; unexported fields are included; pointer cycles are handled; fields named in
// except (by field name, any depth) are skipped.
func Same(a, b interface{}, except ...string) bool {
	ex := map[string]bool{}
	for _, e := range except {
		ex[e] = true
	}
	return same(reflect.ValueOf(a), reflect.ValueOf(b), map[[2]uintptr]bool{}, ex)
}

func same(a, b reflect.Value, seen map[[2]uintptr]bool, except map[string]bool) bool {
	if !a.IsValid() || !b.IsValid() {
		return a.IsValid() == b.IsValid()
	}
	if a.Type() != b.Type() {
		return false
	}
	switch a.Kind() {
	case reflect.Bool:
		return a.Bool() == b.Bool()
	case reflect.Int, reflect.Int8, reflect.Int16, reflect.Int32, reflect.Int64:
		return a.Int() == b.Int()
	case reflect.Uint, reflect.Uint8, reflect.Uint16, reflect.Uint32, reflect.Uint64, reflect.Uintptr:
		return a.Uint() == b.Uint()
	case reflect.Float32:
		return math.Float32bits(float32(a.Float())) == math.Float32bits(float32(b.Float()))
	case reflect.Float64:
		return math.Float64bits(a.Float()) == math.Float64bits(b.Float())
	case reflect.String:
		return a.String() == b.String()
	case reflect.Ptr:
		if a.IsNil() || b.IsNil() {
			return a.IsNil() == b.IsNil()
		}
		k := [2]uintptr{a.Pointer(), b.Pointer()}
		if seen[k] {
			return true
		}
		seen[k] = true
		return same(a.Elem(), b.Elem(), seen, except)
	case reflect.Interface:
		if a.IsNil() || b.IsNil() {
			return a.IsNil() == b.IsNil()
		}
		return same(a.Elem(), b.Elem(), seen, except)
	case reflect.Struct:
		for i := 0; i < a.NumField(); i++ {
			if except[a.Type().Field(i).Name] {
				continue
			}
			if !same(a.Field(i), b.Field(i), seen, except) {
				return false
			}
		}
		return true
	case reflect.Slice, reflect.Array:
		if a.Len() != b.Len() {
			return false
		}
		for i := 0; i < a.Len(); i++ {
			if !same(a.Index(i), b.Index(i), seen, except) {
				return false
			}
		}
		return true
	case reflect.Map:
		if a.Len() != b.Len() {
			return false
		}
		for _, k := range a.MapKeys() {
			bv := b.MapIndex(k)
			if !bv.IsValid() || !same(a.MapIndex(k), bv, seen, except) {
				return false
			}
		}
		return true
	case reflect.Func, reflect.Chan, reflect.UnsafePointer:
		return true
	}
	return false
}

// Guard runs f under a watchdog: a hang (self-deadlock) is reported.
func Guard(label string, f func()) {
	done := make(chan struct{})
	var pv interface{}
	go func() {
		defer func() { pv = recover(); close(done) }()
		f()
	}()
	select {
	case <-done:
		if pv != nil {
			panic(pv)
		}
	case <-time.After(3 * time.Second):
		fmt.Printf("VF-DEADLOCK %s\n", label)
		Failed = append(Failed, label)
		fmt.Println("VF-END")
		os.Exit(3)
	}
}

// Derived returns an executor-computed fact recorded in the replay file.
func derived() bool {
	load()
	if dp >= len(rp.Derived) {
		return false
	}
	d := rp.Derived[dp]
	dp++
	return d
}

// DependsOn: does any of the bytes mention a solver variable of v? (executor-only
// knowledge; natively the recorded answer is returned).
func DependsOn(bytes []byte, v interface{}) bool { return derived() }

// HavocLoopVar: on first entry to the loop header of fn, the named loop-carried variable
// is replaced by a fresh symbolic value of the given bit width (executor only; natively
// a no-op, so harnesses using it are not replayed as traces).
func HavocLoopVar(fn, name string) {}

// HavocU64 is HavocLoopVar that also returns the fresh value (truncated to the variable's
// width at the loop head), so that the harness can state the inductive step.
func HavocU64(fn, name string) uint64 { return nextU("u64") }

// LocksetBegin / LocksetEnd bracket an operation whose memory accesses are recorded
// together with the set of ghost locks held. Natively no-ops.
func LocksetBegin(tag string) {}
func LocksetEnd()             {}

// RacePair: a and b are two operations on one shared instance. Under the executor they run
// one after the other while every access to state that existed before the pair started is
// recorded together with the set of ghost locks held; a common cell, at least one write,
// and no common lock held in write mode by one side = a data race (obligation `label`).
// The closures must not write variables they share by capture. Natively the two closures
// run concurrently (the replay binary is built with -race when the harness file carries a
// `//vf:race` line) so that the race detector confirms the finding.
// RacePairFresh is RacePair with a fresh shared state per native round: mk builds the
// state and returns the two operations on it (under the executor it is called once).
// Use it when an operation changes the state only the first time it is applied.
func RacePairFresh(label string, mk func() (func(), func())) {
	rounds := RaceRounds
	RaceRounds = 400
	for i := 0; i < rounds; i++ {
		a, b := mk()
		var wg sync.WaitGroup
		start := make(chan struct{})
		wg.Add(2)
		go func() { defer wg.Done(); defer func() { recover() }(); <-start; a() }()
		go func() { defer wg.Done(); defer func() { recover() }(); <-start; b() }()
		close(start)
		wg.Wait()
	}
}

// RaceRounds: number of native rounds of the NEXT RacePair (reset to 400 afterwards);
// lower it for pairs whose operations take seconds natively.
var RaceRounds = 400

func RacePair(label string, a, b func()) {
	// many rounds: the race detector keeps only a few recent accesses per memory word and
	// evicts at random, so a single round can miss an unordered pair
	rounds := RaceRounds
	RaceRounds = 400
	for i := 0; i < rounds; i++ {
		var wg sync.WaitGroup
		start := make(chan struct{})
		wg.Add(2)
		go func() { defer wg.Done(); defer func() { recover() }(); <-start; a() }()
		go func() { defer wg.Done(); defer func() { recover() }(); <-start; b() }()
		close(start)
		wg.Wait()
	}
}

// Conflicts reports whether two recorded operations touch a common cell, at least one
// writing, with disjoint locksets (executor only).
func Conflicts(tagA, tagB string) bool { return derived() }

// ConflictCell names the first conflicting cell (diagnostics).
func ConflictCell(tagA, tagB string) string { return "" }

// Events returns the event log (lock/unlock/broadcast/…): the ghost log under the executor;
// natively the log written by package zsync when it is substituted for sync.
func Events() string {
	nativeEvMu.Lock()
	defer nativeEvMu.Unlock()
	return strings.Join(nativeEvents, ";")
}

var (
	nativeEvMu   sync.Mutex
	nativeEvents []string
)

// NativeEvent appends to the native event log (package zsync).
func NativeEvent(e string) {
	nativeEvMu.Lock()
	nativeEvents = append(nativeEvents, e)
	nativeEvMu.Unlock()
}

// AllocBudget: from now on every allocation whose size depends on a symbolic input must
// satisfy size*elemsize <= k*l + c for all inputs.
func AllocBudget(l, k, c int) {}

// OnWait models "another thread": under the executor, each of the next `budget` blocking
// points of the logical thread (sync.Cond.Wait, time.Sleep) first runs f — with the
// condition's mutex released — and then returns. Natively a goroutine calls f `budget`
// times, 40 ms apart, starting 40 ms from now.
func OnWait(budget int, f func()) {
	go func() {
		for i := 0; i < budget; i++ {
			time.Sleep(40 * time.Millisecond)
			f()
		}
	}()
}

// SleepMayReturnEarly weakens the environment model: time.Sleep(d) then advances the
// virtual clock by an arbitrary amount >= 0 instead of >= d (more behaviours; safety
// properties proved under it hold a fortiori). Natively a no-op.
func SleepMayReturnEarly() {}

// ZipModel / UnzipModel: contract model of compressutil.DoZip / UnZip used through
// `//vf:stub …compressutil.DoZip ZipModel+` (gzip itself cannot be executed symbolically):
// UnzipModel(ZipModel(x)) == x; ZipModel(x) = marker byte 0x1f followed by x.
func ZipModel(in []byte) ([]byte, error) {
	if in == nil {
		return nil, fmt.Errorf("error input data is nil ")
	}
	return append([]byte{0x1f}, in...), nil
}
func UnzipModel(in []byte) ([]byte, error) {
	if len(in) == 0 {
		return []byte{}, fmt.Errorf("EOF")
	}
	if in[0] != 0x1f {
		return []byte{}, fmt.Errorf("gzip: invalid header")
	}
	return append([]byte{}, in[1:]...), nil
}

// ClockNow returns a virtual, non-decreasing clock value (milliseconds).
// ClockStart sets the virtual clock (ms); later ClockNow readings are >= it.
func ClockStart(ms int64) { clockNow = ms }

// ClockExact: deterministic virtual clock starting at ms: under the executor every
// time.Sleep advances it by exactly its duration and every reading by 1 ms; natively it is
// ms + the real time elapsed since this call (sleeps really sleep).
func ClockExact(ms int64) { clockNow = ms; clockReal = time.Now(); clockIsExact = true }

var (
	clockReal    time.Time
	clockIsExact bool
)

// SleepYield lets background goroutines run: natively a real sleep of ms milliseconds; under
// the executor the coroutines of the path are advanced until each blocks or sleeps.
func SleepYield(ms int) { time.Sleep(time.Duration(ms) * time.Millisecond) }

// ClockIsExact reports whether ClockExact was called.
func ClockIsExact() bool { return clockIsExact }

func ClockNow() int64 {
	if clockIsExact {
		return clockNow + time.Since(clockReal).Milliseconds()
	}
	d := int64(nextU("clk"))
	clockNow += d
	return clockNow
}

// Thorough reports whether the check runs in the thorough tier (larger bounds).
func Thorough() bool { return os.Getenv("ZZVF_TIER") == "thorough" }

// Fresh returns whether the native twin runs in replay (true) — lets harness code skip
// executor-only sections natively.
func Native() bool { return true }

// StubActive guards the native stub rewrites: false for a harness that carries the
// `nostub` directive (it exercises the real function).
func StubActive(fn string) bool {
	v := os.Getenv("ZZVF_NOSTUB")
	return v == "" || (v != "1" && !strings.Contains(fn, v))
}

// ---------- Fill / FillCount / AssertCarried (native twins) ----------

func fillablePkg(p string) bool {
	const m = "github.com/whatap/golib"
	return strings.HasPrefix(p, m+"/lang/pack") || strings.HasPrefix(p, m+"/lang/step") || strings.HasPrefix(p, m+"/lang/service")
}

type nfiller struct {
	focus, pattern, slot int
	count                bool
}

func settable(v reflect.Value) reflect.Value {
	if v.CanSet() {
		return v
	}
	return reflect.NewAt(v.Type(), unsafe.Pointer(v.UnsafeAddr())).Elem()
}

func kindName(k reflect.Kind) string {
	switch k {
	case reflect.Int8:
		return "i8"
	case reflect.Int16:
		return "i16"
	case reflect.Int32:
		return "i32"
	case reflect.Int64:
		return "i64"
	case reflect.Int:
		return "int"
	case reflect.Uint8:
		return "u8"
	case reflect.Uint16:
		return "u16"
	case reflect.Uint32:
		return "u32"
	case reflect.Uint64:
		return "u64"
	case reflect.Uint:
		return "uint"
	case reflect.Float32:
		return "f32"
	case reflect.Float64:
		return "f64"
	}
	return ""
}

func setNum(v reflect.Value, kn string) {
	u := nextU(kn)
	switch v.Kind() {
	case reflect.Int, reflect.Int8, reflect.Int16, reflect.Int32, reflect.Int64:
		switch v.Kind() {
		case reflect.Int8:
			v.SetInt(int64(int8(u)))
		case reflect.Int16:
			v.SetInt(int64(int16(u)))
		case reflect.Int32:
			v.SetInt(int64(int32(u)))
		default:
			v.SetInt(int64(u))
		}
	case reflect.Uint, reflect.Uint8, reflect.Uint16, reflect.Uint32, reflect.Uint64:
		v.SetUint(u)
	case reflect.Float32:
		v.SetFloat(float64(math.Float32frombits(uint32(u))))
	case reflect.Float64:
		v.SetFloat(math.Float64frombits(u))
	}
}

func (f *nfiller) fill(v reflect.Value, depth int) {
	t := v.Type()
	switch v.Kind() {
	case reflect.Bool:
		me := f.slot
		f.slot++
		if f.count {
			return
		}
		if me == f.focus {
			settable(v).SetBool(Bool())
		} else {
			settable(v).SetBool(f.pattern&1 == 1)
		}
	case reflect.String:
		me := f.slot
		f.slot++
		if f.count {
			return
		}
		n := 1
		if me == f.focus {
			if f.pattern&2 != 0 {
				fb := Bytes(2)
				b := bytes.Repeat([]byte{'a'}, fillLongLen)
				b[0], b[fillLongLen-1] = fb[0], fb[1]
				fillLong = true
				settable(v).SetString(string(b))
				return
			}
			n = Choose(3)
		}
		if n == 0 {
			settable(v).SetString("")
		} else {
			settable(v).SetString(string(Bytes(n)))
		}
	case reflect.Int, reflect.Int8, reflect.Int16, reflect.Int32, reflect.Int64, reflect.Uint, reflect.Uint8, reflect.Uint16, reflect.Uint32, reflect.Uint64, reflect.Uintptr, reflect.Float32, reflect.Float64:
		f.slot++
		if f.count {
			return
		}
		kn := kindName(v.Kind())
		if kn == "" {
			return
		}
		setNum(settable(v), kn)
	case reflect.Struct:
		if pk := t.PkgPath(); pk != "" && !fillablePkg(pk) {
			return
		}
		for i := 0; i < v.NumField(); i++ {
			f.fill(v.Field(i), depth)
		}
	case reflect.Ptr:
		el := t.Elem()
		switch el.Kind() {
		case reflect.Struct:
			if !fillablePkg(el.PkgPath()) || depth >= 3 {
				return
			}
			nv := reflect.New(el)
			f.fill(nv.Elem(), depth+1)
			if f.count {
				return
			}
			settable(v).Set(nv)
		case reflect.String:
			me := f.slot
			f.slot++
			if f.count {
				return
			}
			n := 1
			if me == f.focus {
				n = Choose(4)
				if n == 3 {
					settable(v).Set(reflect.Zero(t))
					return
				}
			}
			s := ""
			if n > 0 {
				s = string(Bytes(n))
			}
			nv := reflect.New(el)
			nv.Elem().SetString(s)
			settable(v).Set(nv)
		}
	case reflect.Slice:
		el := t.Elem()
		switch {
		case el.Kind() == reflect.Uint8:
			me := f.slot
			f.slot++
			if f.count {
				return
			}
			n := 1
			if me == f.focus {
				n = Choose(4)
				if n == 3 {
					settable(v).Set(reflect.Zero(t))
					return
				}
			}
			b := reflect.MakeSlice(t, n, n)
			if n > 0 {
				reflect.Copy(b, reflect.ValueOf(Bytes(n)))
			}
			settable(v).Set(b)
		case kindName(el.Kind()) != "" || el.Kind() == reflect.String:
			me := f.slot
			f.slot++
			if f.count {
				return
			}
			n := 1
			if me == f.focus {
				switch Choose(3) {
				case 0:
					settable(v).Set(reflect.Zero(t))
					return
				case 1:
					settable(v).Set(reflect.MakeSlice(t, 0, 0))
					return
				}
				n = 2
			}
			sl := reflect.MakeSlice(t, n, n)
			for i := 0; i < n; i++ {
				if el.Kind() == reflect.String {
					sl.Index(i).SetString(string(Bytes(1)))
				} else {
					setNum(sl.Index(i), kindName(el.Kind()))
				}
			}
			settable(v).Set(sl)
		default:
			st := el
			ptr := false
			if el.Kind() == reflect.Ptr {
				st = el.Elem()
				ptr = true
			}
			if st.Kind() == reflect.Struct && fillablePkg(st.PkgPath()) && depth < 3 {
				nv := reflect.New(st)
				f.fill(nv.Elem(), depth+1)
				if f.count {
					return
				}
				sl := reflect.MakeSlice(t, 1, 1)
				if ptr {
					sl.Index(0).Set(nv)
				} else {
					sl.Index(0).Set(nv.Elem())
				}
				settable(v).Set(sl)
			}
		}
	}
}

// Fill populates every field of *p by type, in declaration order: numeric scalars are
// symbolic (the slot with index focus over its whole range, the others within 1..100),
// strings / byte slices / scalar slices get one symbolic element (the focus slot ranges
// over nil / empty / longer by Choose), bools are pattern&1 except the focus, pointers to
// structs and slices of structs of the pack/step/service packages are allocated and
// filled recursively (depth <= 3). Interfaces, maps, hmap and value types are left as
// they are (the harness fills them). Returns the number of slots.
const fillLongLen = 40000

var fillLong bool

// FillLong reports whether a Fill with pattern bit 2 met a plain string field at its focus and gave
// it the long form (40000 bytes: first and last symbolic, 'a' between).
func FillLong() bool { return fillLong }

func Fill(p interface{}, focus int, pattern int) int {
	fillLong = false
	f := &nfiller{focus: focus, pattern: pattern}
	f.fill(reflect.ValueOf(p).Elem(), 0)
	return f.slot
}

// FillCount returns the number of slots Fill would visit (no input is consumed).
func FillCount(p interface{}) int {
	f := &nfiller{focus: -1, count: true}
	f.fill(reflect.ValueOf(p).Elem(), 0)
	return f.slot
}

// AssertCarried: for every (flattened) field of *p whose symbolic variables occur in the
// encoded bytes b — i.e. the writer put it on the wire on this path — the decoded *q must
// hold the same value (obligation label prefix+"/field/"+name). Which fields are carried
// is executor knowledge (recorded in the replay file for the native twin).
func AssertCarried(b []byte, p, q interface{}, prefix string) {
	if !derived() || reflect.TypeOf(p) != reflect.TypeOf(q) {
		Assert(false, prefix+"/same-dynamic-type")
		return
	}
	carried(reflect.ValueOf(p).Elem(), reflect.ValueOf(q).Elem(), prefix+"/field/", 0)
}

func carried(pv, qv reflect.Value, prefix string, depth int) {
	t := pv.Type()
	for i := 0; i < t.NumField(); i++ {
		ft := t.Field(i).Type
		name := prefix + t.Field(i).Name
		if ft.Kind() == reflect.Struct && fillablePkg(ft.PkgPath()) && depth < 3 {
			carried(pv.Field(i), qv.Field(i), name+".", depth+1)
			continue
		}
		if ft.Kind() == reflect.Ptr && ft.Elem().Kind() == reflect.Struct && fillablePkg(ft.Elem().PkgPath()) && depth < 3 {
			if !pv.Field(i).IsNil() && !qv.Field(i).IsNil() {
				carried(pv.Field(i).Elem(), qv.Field(i).Elem(), name+".", depth+1)
				continue
			}
		}
		if derived() {
			Assert(same(pv.Field(i), qv.Field(i), map[[2]uintptr]bool{}, map[string]bool{}), name)
		}
	}
}

var _ = unsafe.Pointer(nil)
