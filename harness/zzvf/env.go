package zzvf

// Environment models (declared stubs, see /verif/DESIGN.md §8).
//
// Ghost file system. Under the symbolic executor every call of the `os` / `io/ioutil`
// file API made by the code under test (or by libraries it uses) is redirected to the
// Gfs* functions below, which are ordinary Go code and are executed symbolically like
// everything else: a file system is a list of nodes (clean absolute path -> directory
// flag, content, modification time); operations are atomic; the only errors are
// "does not exist", "exists", "is a directory", "closed", "bad descriptor". A removed
// file stays alive for the handles that have it open (unlink semantics).
// Natively nothing is redirected: the same harness runs against the real operating
// system in a fresh temporary directory (FsHome), so every witness / counterexample
// replay also validates this model against the real thing.
//
// Crash points: FsCrashAfter(k, prefix) makes the k-th mutating operation (create,
// truncate, write, remove, rename, mkdir) the last one: it is applied (a write only up
// to `prefix` bytes when prefix >= 0) and then panics with GCrash. Natively the same
// happens in package zos, which is substituted for `os` in the package under test by a
// `//vf:import` directive.

import (
	"errors"
	"fmt"
	"io"
	"io/fs"
	"os"
	"path/filepath"
	"sort"
	"time"
)

type GNode struct {
	Path  string
	Dir   bool
	Data  []byte
	MTime int64 // unix nanoseconds
}

type GCrash struct{ Op string }

var (
	GfsNodes  []*GNode
	GfsClock  int64 = 1000000000000000000 // mtime given to files written by the code under test
	GfsMuts   int                         // mutating operations so far
	GfsCrashK int   = -1
	GfsCrashP int   = -1
	GfsLog    []string

	gErrNotExist = errors.New("no such file or directory")
	gErrExist    = errors.New("file exists")
	gErrIsDir    = errors.New("is a directory")
	gErrNotDir   = errors.New("not a directory")
	gErrClosed   = errors.New("file already closed")
	gErrBadFd    = errors.New("bad file descriptor")
	gErrInvalid  = errors.New("invalid argument")
	gErrNotEmpty = errors.New("directory not empty")
)

const gfsHome = "/zzhome"

func gfsFind(p string) *GNode {
	for _, n := range GfsNodes {
		if n.Path == p {
			return n
		}
	}
	return nil
}

func gfsClean(name string) string {
	p := filepath.Clean(name)
	if len(p) == 0 || p[0] != '/' {
		p = filepath.Clean(gfsHome + "/" + p) // the working directory of the model
	}
	return p
}

func gfsErr(op, path string, e error) error { return &fs.PathError{Op: op, Path: path, Err: e} }

// gfsMutate counts a mutating operation; it reports whether this one is the crash point.
func gfsMutate(op string) bool {
	GfsMuts++
	GfsLog = append(GfsLog, op)
	return GfsMuts == GfsCrashK
}

// FsMutation is gfsMutate for the native wrapper package zos.
func FsMutation(op string) bool { return gfsMutate(op) }

var gfsTempSeq int

// GfsCreateTemp models os.CreateTemp: the "random" part is a counter.
func GfsCreateTemp(dir, pattern string) (*GFile, error) {
	if dir == "" {
		dir = "/tmp"
	}
	for {
		gfsTempSeq++
		suffix := string(rune('0' + gfsTempSeq%10))
		name := pattern + suffix
		for i := 0; i < len(pattern); i++ {
			if pattern[i] == '*' {
				name = pattern[:i] + suffix + pattern[i+1:]
			}
		}
		f, err := GfsOpenFile(filepath.Join(dir, name), os.O_RDWR|os.O_CREATE|os.O_EXCL, 0600)
		if err == nil || !GfsIsExist(err) {
			return f, err
		}
	}
}

func gfsParentOK(p string) bool {
	d := filepath.Dir(p)
	if d == "/" {
		return true
	}
	n := gfsFind(d)
	return n != nil && n.Dir
}

type GInfo struct {
	name string
	size int64
	dir  bool
	mt   int64
}

func (i *GInfo) Name() string { return i.name }
func (i *GInfo) Size() int64  { return i.size }
func (i *GInfo) Mode() fs.FileMode {
	if i.dir {
		return fs.ModeDir | 0755
	}
	return 0644
}
func (i *GInfo) ModTime() time.Time { return time.Unix(0, i.mt) }
func (i *GInfo) IsDir() bool        { return i.dir }
func (i *GInfo) Sys() interface{}   { return nil }

func gfsInfo(n *GNode) *GInfo {
	return &GInfo{name: filepath.Base(n.Path), size: int64(len(n.Data)), dir: n.Dir, mt: n.MTime}
}

func GfsStat(name string) (fs.FileInfo, error) {
	n := gfsFind(gfsClean(name))
	if n == nil {
		return nil, gfsErr("stat", name, gErrNotExist)
	}
	return gfsInfo(n), nil
}

func GfsIsNotExist(err error) bool {
	if pe, ok := err.(*fs.PathError); ok {
		return pe.Err == gErrNotExist
	}
	if le, ok := err.(*os.LinkError); ok {
		return le.Err == gErrNotExist
	}
	return err == gErrNotExist
}

func GfsIsExist(err error) bool {
	if pe, ok := err.(*fs.PathError); ok {
		return pe.Err == gErrExist || pe.Err == gErrNotEmpty
	}
	return err == gErrExist
}

func GfsMkdir(name string, perm fs.FileMode) error {
	p := gfsClean(name)
	if gfsFind(p) != nil {
		return gfsErr("mkdir", name, gErrExist)
	}
	if !gfsParentOK(p) {
		return gfsErr("mkdir", name, gErrNotExist)
	}
	crash := gfsMutate("mkdir " + p)
	GfsNodes = append(GfsNodes, &GNode{Path: p, Dir: true, MTime: GfsClock})
	if crash {
		panic(GCrash{"mkdir"})
	}
	return nil
}

func GfsMkdirAll(name string, perm fs.FileMode) error {
	p := gfsClean(name)
	if n := gfsFind(p); n != nil {
		if n.Dir {
			return nil
		}
		return gfsErr("mkdir", name, gErrNotDir)
	}
	if d := filepath.Dir(p); d != "/" && d != p {
		if err := GfsMkdirAll(d, perm); err != nil {
			return err
		}
	}
	return GfsMkdir(p, perm)
}

type GFile struct {
	N      *GNode
	Path   string
	Pos    int
	Append bool
	Rd, Wr bool
	Closed bool
}

func GfsOpenFile(name string, flag int, perm fs.FileMode) (*GFile, error) {
	p := gfsClean(name)
	n := gfsFind(p)
	if n == nil {
		if flag&os.O_CREATE == 0 {
			return nil, gfsErr("open", name, gErrNotExist)
		}
		if !gfsParentOK(p) {
			return nil, gfsErr("open", name, gErrNotExist)
		}
		crash := gfsMutate("create " + p)
		n = &GNode{Path: p, MTime: GfsClock}
		GfsNodes = append(GfsNodes, n)
		if crash {
			panic(GCrash{"create"})
		}
	} else {
		if flag&os.O_CREATE != 0 && flag&os.O_EXCL != 0 {
			return nil, gfsErr("open", name, gErrExist)
		}
		acc := flag & (os.O_WRONLY | os.O_RDWR)
		if n.Dir && acc != 0 {
			return nil, gfsErr("open", name, gErrIsDir)
		}
		if flag&os.O_TRUNC != 0 && acc != 0 {
			crash := gfsMutate("truncate " + p)
			n.Data = nil
			n.MTime = GfsClock
			if crash {
				panic(GCrash{"truncate"})
			}
		}
	}
	acc := flag & (os.O_WRONLY | os.O_RDWR)
	return &GFile{N: n, Path: name, Append: flag&os.O_APPEND != 0, Rd: acc != os.O_WRONLY, Wr: acc != 0}, nil
}

func GfsOpen(name string) (*GFile, error)   { return GfsOpenFile(name, os.O_RDONLY, 0) }
func GfsCreate(name string) (*GFile, error) { return GfsOpenFile(name, os.O_RDWR|os.O_CREATE|os.O_TRUNC, 0666) }

func GfsRemove(name string) error {
	p := gfsClean(name)
	for i, n := range GfsNodes {
		if n.Path == p {
			if n.Dir {
				for _, m := range GfsNodes {
					if m != n && filepath.Dir(m.Path) == p {
						return gfsErr("remove", name, gErrNotEmpty)
					}
				}
			}
			crash := gfsMutate("remove " + p)
			rest := make([]*GNode, 0, len(GfsNodes))
			rest = append(rest, GfsNodes[:i]...)
			rest = append(rest, GfsNodes[i+1:]...)
			GfsNodes = rest
			if crash {
				panic(GCrash{"remove"})
			}
			return nil
		}
	}
	return gfsErr("remove", name, gErrNotExist)
}

func GfsRename(oldname, newname string) error {
	po, pn := gfsClean(oldname), gfsClean(newname)
	n := gfsFind(po)
	if n == nil {
		return &os.LinkError{Op: "rename", Old: oldname, New: newname, Err: gErrNotExist}
	}
	if !gfsParentOK(pn) {
		return &os.LinkError{Op: "rename", Old: oldname, New: newname, Err: gErrNotExist}
	}
	if n.Dir {
		return &os.LinkError{Op: "rename", Old: oldname, New: newname, Err: gErrInvalid} // directories: not modelled
	}
	crash := gfsMutate("rename " + po + " " + pn)
	if po != pn {
		rest := make([]*GNode, 0, len(GfsNodes))
		for _, m := range GfsNodes {
			if m.Path != pn {
				rest = append(rest, m)
			}
		}
		GfsNodes = rest
		n.Path = pn
	}
	if crash {
		panic(GCrash{"rename"})
	}
	return nil
}

func GfsReadFile(name string) ([]byte, error) {
	n := gfsFind(gfsClean(name))
	if n == nil {
		return nil, gfsErr("open", name, gErrNotExist)
	}
	if n.Dir {
		return nil, gfsErr("read", name, gErrIsDir)
	}
	out := make([]byte, len(n.Data))
	copy(out, n.Data)
	return out, nil
}

func GfsWriteFile(name string, data []byte, perm fs.FileMode) error {
	f, err := GfsOpenFile(name, os.O_WRONLY|os.O_CREATE|os.O_TRUNC, perm)
	if err != nil {
		return err
	}
	_, err = f.Write(data)
	f.Close()
	return err
}

func GfsChmod(name string, mode fs.FileMode) error {
	if gfsFind(gfsClean(name)) == nil {
		return gfsErr("chmod", name, gErrNotExist)
	}
	return nil // permissions are not modelled
}

func (f *GFile) Chmod(mode fs.FileMode) error { return f.chk("chmod") }

func GfsChtimes(name string, atime time.Time, mtime time.Time) error {
	n := gfsFind(gfsClean(name))
	if n == nil {
		return gfsErr("chtimes", name, gErrNotExist)
	}
	n.MTime = mtime.UnixNano()
	return nil
}

// GfsReadDir is ioutil.ReadDir: the entries of the directory, sorted by name.
func GfsReadDir(dirname string) ([]fs.FileInfo, error) {
	p := gfsClean(dirname)
	d := gfsFind(p)
	if d == nil {
		return nil, gfsErr("open", dirname, gErrNotExist)
	}
	if !d.Dir {
		return nil, gfsErr("readdirent", dirname, gErrNotDir)
	}
	var out []fs.FileInfo
	for _, n := range GfsNodes {
		if n != d && filepath.Dir(n.Path) == p {
			out = append(out, gfsInfo(n))
		}
	}
	for i := 1; i < len(out); i++ {
		for k := i; k > 0 && out[k].Name() < out[k-1].Name(); k-- {
			out[k], out[k-1] = out[k-1], out[k]
		}
	}
	return out, nil
}

func (f *GFile) Name() string {
	if f == nil {
		panic("invalid memory address or nil pointer dereference")
	}
	return f.Path
}

func (f *GFile) chk(op string) error {
	if f == nil {
		return gErrInvalid
	}
	if f.Closed {
		return gfsErr(op, f.Path, gErrClosed)
	}
	return nil
}

func (f *GFile) Write(b []byte) (int, error) {
	if err := f.chk("write"); err != nil {
		return 0, err
	}
	if !f.Wr {
		return 0, gfsErr("write", f.Path, gErrBadFd)
	}
	if len(b) == 0 {
		return 0, nil
	}
	crash := gfsMutate("write " + f.N.Path)
	if crash && GfsCrashP >= 0 && GfsCrashP < len(b) {
		b = b[:GfsCrashP]
	}
	if f.Append {
		f.Pos = len(f.N.Data)
	}
	for f.Pos > len(f.N.Data) {
		f.N.Data = append(f.N.Data, 0)
	}
	nd := make([]byte, 0, len(f.N.Data)+len(b))
	nd = append(nd, f.N.Data[:f.Pos]...)
	nd = append(nd, b...)
	if f.Pos+len(b) < len(f.N.Data) {
		nd = append(nd, f.N.Data[f.Pos+len(b):]...)
	}
	f.N.Data = nd
	f.Pos += len(b)
	f.N.MTime = GfsClock
	if crash {
		panic(GCrash{"write"})
	}
	return len(b), nil
}

func (f *GFile) WriteString(s string) (int, error) { return f.Write([]byte(s)) }

func (f *GFile) Read(b []byte) (int, error) {
	if err := f.chk("read"); err != nil {
		return 0, err
	}
	if !f.Rd {
		return 0, gfsErr("read", f.Path, gErrBadFd)
	}
	if f.N.Dir {
		return 0, gfsErr("read", f.Path, gErrIsDir)
	}
	if len(b) == 0 {
		return 0, nil
	}
	if f.Pos >= len(f.N.Data) {
		return 0, io.EOF
	}
	n := copy(b, f.N.Data[f.Pos:])
	f.Pos += n
	return n, nil
}

func (f *GFile) ReadAt(b []byte, off int64) (int, error) {
	if err := f.chk("read"); err != nil {
		return 0, err
	}
	if !f.Rd {
		return 0, gfsErr("read", f.Path, gErrBadFd)
	}
	if off < 0 {
		return 0, gfsErr("readat", f.Path, errors.New("negative offset"))
	}
	if f.N.Dir {
		return 0, gfsErr("read", f.Path, gErrIsDir)
	}
	if len(b) == 0 {
		return 0, nil
	}
	if off >= int64(len(f.N.Data)) {
		return 0, io.EOF
	}
	n := copy(b, f.N.Data[off:])
	if n < len(b) {
		return n, io.EOF
	}
	return n, nil
}

func (f *GFile) Seek(offset int64, whence int) (int64, error) {
	if err := f.chk("seek"); err != nil {
		return 0, err
	}
	switch whence {
	case 0:
		f.Pos = int(offset)
	case 1:
		f.Pos += int(offset)
	case 2:
		f.Pos = len(f.N.Data) + int(offset)
	}
	return int64(f.Pos), nil
}

func (f *GFile) Truncate(size int64) error {
	if err := f.chk("truncate"); err != nil {
		return err
	}
	crash := gfsMutate("truncate " + f.N.Path)
	for int64(len(f.N.Data)) < size {
		f.N.Data = append(f.N.Data, 0)
	}
	f.N.Data = f.N.Data[:size:size]
	f.N.MTime = GfsClock
	if crash {
		panic(GCrash{"truncate"})
	}
	return nil
}

func (f *GFile) Sync() error { return f.chk("sync") }

func (f *GFile) Close() error {
	if f == nil {
		return gErrInvalid
	}
	if f.Closed {
		return gfsErr("close", f.Path, gErrClosed)
	}
	f.Closed = true
	if h := GfsOnClose; h != nil {
		GfsOnClose = nil // one shot: the hook itself may close files
		h()
	}
	return nil
}

func (f *GFile) Stat() (fs.FileInfo, error) {
	if err := f.chk("stat"); err != nil {
		return nil, err
	}
	return gfsInfo(f.N), nil
}

// ---------------------------------------------------------------- log.Logger model
//
// Under the executor log.New and the *log.Logger methods are redirected here: a line is
// header + text (+ "\n" if missing), written with ONE Write call to the current output.
// The header is the fixed text below when date/time flags are set (natively it is the
// real time of day: harnesses must not depend on header contents, only on its length).

const GlogHeader = "2026/09/21 17:46:40 "

type GLogger struct {
	Out    io.Writer
	Pfx    string
	Flg    int
	Closed bool
}

func GlogNew(out io.Writer, prefix string, flag int) *GLogger { return &GLogger{Out: out, Pfx: prefix, Flg: flag} }

func (l *GLogger) SetOutput(w io.Writer) {
	if l != nil {
		l.Out = w
	}
}
func (l *GLogger) SetFlags(f int) {
	if l != nil {
		l.Flg = f
	}
}
func (l *GLogger) SetPrefix(p string) {
	if l != nil {
		l.Pfx = p
	}
}
func (l *GLogger) Flags() int {
	if l == nil {
		return 0
	}
	return l.Flg
}
func (l *GLogger) Prefix() string {
	if l == nil {
		return ""
	}
	return l.Pfx
}
func (l *GLogger) Writer() io.Writer {
	if l == nil {
		return nil
	}
	return l.Out
}

func (l *GLogger) emit(s string) {
	if l == nil || l.Out == nil {
		return // a logger created during package initialisation (not modelled): discard
	}
	h := l.Pfx
	if l.Flg&3 != 0 {
		h += GlogHeader
	}
	if len(s) == 0 || s[len(s)-1] != '\n' {
		s += "\n"
	}
	l.Out.Write([]byte(h + s))
}
func (l *GLogger) Println(v ...interface{})               { l.emit(fmt.Sprintln(v...)) }
func (l *GLogger) Print(v ...interface{})                 { l.emit(fmt.Sprint(v...)) }
func (l *GLogger) Printf(format string, v ...interface{}) { l.emit(fmt.Sprintf(format, v...)) }
func (l *GLogger) Output(calldepth int, s string) error   { l.emit(s); return nil }

// ---------------------------------------------------------------- harness-facing API

var fsHome string

// FsHome returns the root directory of the harness's file system: a fresh temporary
// directory natively, the fixed directory /zzhome in the model.
func FsHome() string {
	if !Native() {
		if gfsFind(gfsHome) == nil {
			GfsNodes = append(GfsNodes, &GNode{Path: gfsHome, Dir: true, MTime: GfsClock})
		}
		return gfsHome
	}
	if fsHome == "" {
		d, err := os.MkdirTemp("", "zzvf-home-")
		if err != nil {
			panic(err)
		}
		fsHome = d
	}
	return fsHome
}

// FsCleanup removes the native temporary directory (no-op in the model).
func FsCleanup() {
	if Native() && fsHome != "" {
		os.RemoveAll(fsHome)
		fsHome = ""
	}
}

func FsMkdir(path string) {
	if Native() {
		if err := os.MkdirAll(path, 0755); err != nil {
			panic(err)
		}
		return
	}
	saved := GfsMuts
	GfsMkdirAll(path, 0755)
	GfsMuts = saved
}

// FsWrite creates or replaces a file (not counted as a mutation of the code under test).
// mtime is in unix nanoseconds.
func FsWrite(path string, data []byte, mtime int64) {
	if Native() {
		if err := os.WriteFile(path, data, 0644); err != nil {
			panic(err)
		}
		t := time.Unix(0, mtime)
		os.Chtimes(path, t, t)
		return
	}
	p := gfsClean(path)
	n := gfsFind(p)
	if n == nil {
		n = &GNode{Path: p}
		GfsNodes = append(GfsNodes, n)
	}
	d := make([]byte, len(data))
	copy(d, data)
	n.Data = d
	n.MTime = mtime
}

// FsRead returns a copy of the file's content and whether it exists (as a regular file).
func FsRead(path string) ([]byte, bool) {
	if Native() {
		b, err := os.ReadFile(path)
		return b, err == nil
	}
	n := gfsFind(gfsClean(path))
	if n == nil || n.Dir {
		return nil, false
	}
	out := make([]byte, len(n.Data))
	copy(out, n.Data)
	return out, true
}

func FsExists(path string) bool {
	if Native() {
		_, err := os.Lstat(path)
		return err == nil
	}
	return gfsFind(gfsClean(path)) != nil
}

// FsList returns the sorted names of the entries of a directory.
func FsList(dir string) []string {
	var out []string
	if Native() {
		es, _ := os.ReadDir(dir)
		for _, e := range es {
			out = append(out, e.Name())
		}
	} else {
		p := gfsClean(dir)
		for _, n := range GfsNodes {
			if n.Path != p && filepath.Dir(n.Path) == p {
				out = append(out, filepath.Base(n.Path))
			}
		}
	}
	sort.Strings(out)
	return out
}

// FsCrashAfter makes the k-th (1-based) mutating file operation of the code under test
// the last one before the process "stops" (panic(GCrash)); a crashing write applies only
// its first `prefix` bytes when prefix >= 0. k <= 0 disables.
func FsCrashAfter(k, prefix int) {
	GfsMuts = 0
	GfsCrashK, GfsCrashP = k, prefix
	if k <= 0 {
		GfsCrashK = -1
	}
}

// GfsOnClose, when set, runs once right after the next successful Close of a file by the code under
// test — the instant at which "another goroutine" gets to run between two steps of the code under
// test (FsOnClose). Natively package zos calls it from (*File).Close.
var GfsOnClose func()

// FsOnClose registers f to run right after the next Close of a file (one shot; nil clears).
func FsOnClose(f func()) { GfsOnClose = f }

// FsMutations is the number of mutating operations since the last FsCrashAfter.
func FsMutations() int { return GfsMuts }

// Crashed runs f and reports whether it ended in the injected crash; other panics propagate.
func Crashed(f func()) (crashed bool) {
	defer func() {
		if r := recover(); r != nil {
			if _, ok := r.(GCrash); ok {
				crashed = true
				GfsCrashK = -1
				return
			}
			panic(r)
		}
	}()
	f()
	return false
}

// Clock is the virtual time (ms) returned by ClockVar, the stub target for
// dateutil.SystemNow in harnesses that set the time themselves.
var Clock int64

func ClockVar() int64 {
	if ClockIsExact() {
		return ClockNow() // a harness that runs a real polling loop switched to the exact clock
	}
	return Clock
}

// Skip is the stub target for background loops that the harness drives itself
// (`//vf:stub (*pkg.T).run Skip`): natively the method returns immediately.
func Skip() {}

// FixedStamp is the stub target for time-stamp text that the property does not depend on.
func FixedStamp() string { return "TS" }

// FsRemoveFile removes a file on behalf of the harness (not counted as a mutation).
func FsRemoveFile(path string) {
	if Native() {
		os.Remove(path)
		return
	}
	saved := GfsMuts
	GfsRemove(path)
	GfsMuts = saved
}
