//vf:dir util/bitutil
package bitutil

import "github.com/whatap/golib/zzvf"

func ZZ_C15_BitUtil() {
	h32, l32 := zzvf.Int32(), zzvf.Int32()
	k64 := Composite64(h32, l32)
	zzvf.Observe("k64", k64)
	zzvf.Assert(GetHigh64(k64) == h32, "bitutil/64-high")
	zzvf.Assert(GetLow64(k64) == l32, "bitutil/64-low")
	x := zzvf.Int64()
	zzvf.Assert(Composite64(GetHigh64(x), GetLow64(x)) == x, "bitutil/64-recompose")
	zzvf.Assert(zzvf.And(GetHigh64(SetHigh64(x, h32)) == h32, GetLow64(SetHigh64(x, h32)) == GetLow64(x)), "bitutil/64-sethigh")
	zzvf.Assert(zzvf.And(GetLow64(SetLow64(x, l32)) == l32, GetHigh64(SetLow64(x, l32)) == GetHigh64(x)), "bitutil/64-setlow")
	h16, l16 := zzvf.Int16(), zzvf.Int16()
	k32 := Composite32(h16, l16)
	zzvf.Assert(GetHigh32(k32) == h16, "bitutil/32-high")
	zzvf.Assert(GetLow32(k32) == l16, "bitutil/32-low")
	y := zzvf.Int32()
	zzvf.Assert(Composite32(GetHigh32(y), GetLow32(y)) == y, "bitutil/32-recompose")
	h8, l8 := zzvf.Byte(), zzvf.Byte()
	k16 := Composite16(h8, l8)
	zzvf.Assert(GetHigh16(k16) == h8, "bitutil/16-high")
	zzvf.Assert(GetLow16(k16) == l8, "bitutil/16-low")
	z := zzvf.Int16()
	zzvf.Assert(Composite16(GetHigh16(z), GetLow16(z)) == z, "bitutil/16-recompose")
	zzvf.Reach("bitutil")
}
