//vf:dir util/hash
package hash

import "github.com/whatap/golib/zzvf"

// bitwise CRC-32 (IEEE, reflected polynomial 0xEDB88320): one byte from state c
func zzCrcStep(c uint32, b byte) uint32 {
	c ^= uint32(b)
	for k := 0; k < 8; k++ {
		lsb := c & 1
		c >>= 1
		c ^= 0xEDB88320 & (0 - lsb)
	}
	return c
}

func zzCrc32(p []byte) uint32 {
	c := uint32(0xffffffff)
	for _, b := range p {
		c = zzCrcStep(c, b)
	}
	return c ^ 0xffffffff
}

// the stated 64-bit variant: same recurrence on a 64-bit register, the table entry
// sign-extended from 32 bits
func zzCrc64Variant(p []byte) uint64 {
	c := uint64(0xffffffffffffffff)
	for _, b := range p {
		t := zzCrcStep(uint32(uint8(c)^b), 0) // table[idx] = 8 rounds from idx
		_ = t
		e := zzTableEntry(uint8(c) ^ b)
		c = c>>8 ^ uint64(int64(int32(e)))
	}
	return c ^ 0xffffffffffffffff
}

// table[i] by definition: 8 bitwise rounds starting from i
func zzTableEntry(i uint8) uint32 {
	c := uint32(i)
	for k := 0; k < 8; k++ {
		lsb := c & 1
		c >>= 1
		c ^= 0xEDB88320 & (0 - lsb)
	}
	return c
}

// the 256 concrete table entries produced by the real initialiser equal the CRC table
func ZZ_C15_Table() {
	ok := true
	for i := 0; i < 256; i++ {
		if uint32(table[i]) != zzTableEntry(uint8(i)) || table[i]>>32 != 0 {
			ok = false
		}
	}
	zzvf.Assert(ok, "crc/table-content")
	zzvf.Assert(len(table) == 256, "crc/table-size")
	zzvf.Reach("table")
}

// base cases: every byte string of length 0, 1 (2 in thorough) against the bitwise definition
//vf: qtimeout=60s
func ZZ_C15_CrcBase() {
	n := zzvf.Choose(2)
	if zzvf.Thorough() {
		n = zzvf.Choose(3)
	}
	p := zzvf.Bytes(n)
	h := Hash(p)
	zzvf.Observe("h", h)
	zzvf.Assert(uint32(h) == zzCrc32(p), "crc32/base")
	zzvf.Assert(HashStr(string(p)) == h, "crc32/str-equals-bytes")
	h64 := Hash64(p)
	zzvf.Observe("h64", h64)
	if n <= 1 {
		// (the 64-bit base case over 2 symbolic bytes is undecided by all back ends at 30 s:
		// lengths >= 2 are covered by the inductive step below)
		zzvf.Assert(uint64(h64) == zzCrc64Variant(p), "crc64variant/base")
	}
	zzvf.Assert(Hash64Str(string(p)) == h64, "crc64variant/str-equals-bytes")
	zzvf.Reach("crcbase")
}

// inductive step of the real loop: from an ARBITRARY register state one real iteration
// equals 8 rounds of the bitwise definition (then the real epilogue)
func ZZ_C15_CrcStep() {
	b := zzvf.Byte()
	c0 := uint32(zzvf.HavocU64("github.com/whatap/golib/util/hash.Hash", "crc"))
	h := Hash([]byte{b})
	zzvf.Assert(uint32(h) == zzCrcStep(c0, b)^0xffffffff, "crc32/inductive-step")
	zzvf.Reach("crcstep")
}

func ZZ_C15_Crc64Step() {
	b := zzvf.Byte()
	c0 := zzvf.HavocU64("github.com/whatap/golib/util/hash.Hash64", "crc")
	h := Hash64([]byte{b})
	want := c0>>8 ^ uint64(int64(int32(zzTableEntry(uint8(c0)^b))))
	zzvf.Assert(uint64(h) == want^0xffffffffffffffff, "crc64variant/inductive-step")
	zzvf.Reach("crc64step")
}

// the two v2 implementations agree: nil/empty, short strings, and one relational step
// from the same arbitrary state
func ZZ_C15_V2Agree() {
	n := zzvf.Choose(4) // 0,1,2 bytes; 3 = nil
	var p []byte
	if n < 3 {
		p = zzvf.Bytes(n)
	}
	a, b := Hash64v2(p), Hash64V2(p)
	zzvf.Observe("a", a)
	zzvf.Assert(a == b, "hash64v2/agree-short")
	zzvf.Assert(Hash64StrV2(string(p)) == b, "hash64v2/str-equals-bytes")
	if n > 0 && n < 3 {
		zzvf.Assert(GetLongHash(string(p)) == a, "hash64v2/getlonghash")
	}
	zzvf.Reach("v2agree")
}

func ZZ_C15_V2Step() {
	b := zzvf.Byte()
	c0 := zzvf.HavocU64("github.com/whatap/golib/util/hash.Hash64v2", "crc")
	c1 := zzvf.HavocU64("github.com/whatap/golib/util/hash.Hash64V2", "crc")
	zzvf.Assume(c0 == c1)
	zzvf.Assert(Hash64v2([]byte{b}) == Hash64V2([]byte{b}), "hash64v2/agree-inductive-step")
	zzvf.Reach("v2step")
}
