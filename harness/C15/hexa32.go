//vf:dir util/hexa32
package hexa32

import "github.com/whatap/golib/zzvf"

// decoding an encoding returns the number, for ALL int64 (one path per digit count)
//vf: qtimeout=60s
func ZZ_C15_Hexa32() {
	n := zzvf.Int64()
	s := ToString32(n)
	zzvf.Observe("s", s)
	back := ToLong32(s)
	zzvf.Observe("back", back)
	zzvf.Assert(back == n, "hexa32/left-inverse")
	// documented prefix forms: 0..9 plain digit, other non-negative 'x', negative 'z'
	if n < 0 {
		zzvf.Assert(s[0] == 'z', "hexa32/prefix-negative")
	} else if n < 10 {
		zzvf.Assert(zzvf.And(len(s) == 1, s[0] == byte('0'+n)), "hexa32/prefix-digit")
	} else {
		zzvf.Assert(s[0] == 'x', "hexa32/prefix-positive")
	}
	zzvf.Assert(len(s) <= 14, "hexa32/length")
	zzvf.Reach("hexa32")
}
