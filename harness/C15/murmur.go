//vf:dir util/hll
package hll

import "github.com/whatap/golib/zzvf"

// reference: stream-lib MurmurHash.hashLong (Java int arithmetic == uint32 wraparound)
func zzRefHashLong(data uint64) uint32 {
	const m = uint32(0x5bd1e995)
	const r = 24
	h := uint32(0)
	k := uint32(data) * m
	k ^= k >> r
	h ^= k * m
	k = uint32(data>>32) * m
	k ^= k >> r
	h *= m
	h ^= k * m
	h ^= h >> 13
	h *= m
	h ^= h >> 15
	return h
}

// reference: stream-lib MurmurHash.hash(byte[], int, int) — the Java source this file
// ports (Java ints wrap like uint32; Java bytes are SIGNED: "(int) data[i] << 16"
// sign-extends, "data[i] & 0xff" does not)
func zzRefMurmur2(data []byte, seed uint32) uint32 {
	const m = uint32(0x5bd1e995)
	n := len(data)
	h := seed ^ uint32(n)
	len4 := n >> 2
	for i := 0; i < len4; i++ {
		i4 := i << 2
		k := uint32(int32(int8(data[i4+3])))
		k = k << 8
		k = k | uint32(data[i4+2])
		k = k << 8
		k = k | uint32(data[i4+1])
		k = k << 8
		k = k | uint32(data[i4+0])
		k *= m
		k ^= k >> 24
		k *= m
		h *= m
		h ^= k
	}
	left := n - len4<<2
	if left != 0 {
		if left >= 3 {
			h ^= uint32(int32(int8(data[n-3]))) << 16
		}
		if left >= 2 {
			h ^= uint32(int32(int8(data[n-2]))) << 8
		}
		if left >= 1 {
			h ^= uint32(int32(int8(data[n-1])))
		}
		h *= m
	}
	h ^= h >> 13
	h *= m
	h ^= h >> 15
	return h
}

// does any of the (n mod 4) tail bytes have its top bit set?
func zzHighTail(data []byte) bool {
	n := len(data)
	hi := false
	for i := n - n%4; i < n; i++ {
		hi = zzvf.Or(hi, data[i] >= 0x80)
	}
	return hi
}

// reference: MurmurHash64A
func zzRefMurmur64A(data []byte, seed uint32) uint64 {
	const m = uint64(0xc6a4a7935bd1e995)
	const r = 47
	n := len(data)
	h := uint64(seed) ^ (uint64(n) * m)
	i := 0
	for ; n-i >= 8; i += 8 {
		k := uint64(0)
		for j := 7; j >= 0; j-- {
			k = k<<8 | uint64(data[i+j])
		}
		k *= m
		k ^= k >> r
		k *= m
		h ^= k
		h *= m
	}
	if n-i > 0 {
		for j := n - i - 1; j >= 0; j-- {
			h ^= uint64(data[i+j]) << (8 * uint(j))
		}
		h *= m
	}
	h ^= h >> r
	h *= m
	h ^= h >> r
	return h
}

//vf: qtimeout=60s
func ZZ_C15_MurmurLong() {
	d := zzvf.Uint64()
	zzvf.Observe("h", MurmurHashLong(d))
	zzvf.Assert(MurmurHashLong(d) == zzRefHashLong(d), "murmur/hashlong")
	o := zzvf.Uint32()
	zzvf.Assert(MurmurHash(o) == zzRefHashLong(uint64(o)), "murmur/hash-uint32")
	zzvf.Reach("murmurlong")
}

// byte variants for every length 0..8 (9..16 thorough), contents and seed symbolic
//vf: qtimeout=60s
func ZZ_C15_MurmurBytes() {
	n := zzvf.Choose(9)
	if zzvf.Thorough() {
		n = zzvf.Choose(17)
	}
	p := zzvf.Bytes(n)
	seed := zzvf.Uint32()
	zzvf.Observe("h32", MurmurHashByte(p))
	hi := zzHighTail(p)
	eq := MurmurHashByteSeed(p, seed) == zzRefMurmur2(p, seed)
	zzvf.Assert(zzvf.Implies(zzvf.Not(hi), eq), "murmur/bytes32/tail-bytes-below-0x80")
	zzvf.Assert(zzvf.Implies(hi, eq), "murmur/bytes32/tail-byte-0x80-or-above")
	zzvf.Assert(zzvf.Implies(zzvf.Not(hi), MurmurHashByte(p) == zzRefMurmur2(p, 0xe17a1465)), "murmur/bytes32-default-seed/tail-bytes-below-0x80")
	zzvf.Assert(murmurHashLong(p, int32(n), seed) == zzRefMurmur64A(p, seed), "murmur/bytes64")
	zzvf.Assert(MurmurHashLongByte(p, int32(n)) == zzRefMurmur64A(p, 0xe17a1465), "murmur/bytes64-default-seed")
	zzvf.Reach("murmurbytes")
}
