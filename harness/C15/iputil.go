//vf:dir util/iputil
package iputil

import "github.com/whatap/golib/zzvf"

// all 2^32 addresses: text <-> bytes <-> int are mutual inverses
//vf: paths=100000
func ZZ_C15_IPv4() {
	b := zzvf.Bytes(4)
	s := ToString(b)
	zzvf.Observe("s", s)
	back := ToBytes(s)
	zzvf.Assert(zzvf.Same(back, b), "iputil/text-bytes-inverse")
	i := ToInt(b)
	zzvf.Assert(zzvf.Same(ToBytesFrInt(i), b), "iputil/int-bytes-inverse")
	zzvf.Assert(ToStringFrInt(i) == s, "iputil/int-text")
	zzvf.Reach("ipv4")
}

func ZZ_C15_IPv4Int() {
	i := zzvf.Int32()
	zzvf.Assert(ToInt(ToBytesFrInt(i)) == i, "iputil/bytes-int-inverse")
	zzvf.Reach("ipv4int")
}
