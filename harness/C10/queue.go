//vf:dir util/queue
//vf:race
//vf:import util/queue sync github.com/whatap/golib/zzvf/zsync native
//vf:import util/list sync github.com/whatap/golib/zzvf/zsync native
package queue

import (
	"strings"

	"github.com/whatap/golib/zzvf"
)

// the lock event log (ghost log under the executor; natively written by package zsync)
func zz10EventCount() int {
	s := zzvf.Events()
	if s == "" {
		return 0
	}
	return len(strings.Split(s, ";"))
}

// zz10Sections: number of top-level lock acquisitions since event index `from`
func zz10Sections(from int) int {
	s := zzvf.Events()
	if s == "" {
		return 0
	}
	ev := strings.Split(s, ";")
	depth, n := 0, 0
	for _, e := range ev[from:] {
		switch {
		case strings.HasPrefix(e, "lock "), strings.HasPrefix(e, "rlock "):
			if depth == 0 {
				n++
			}
			depth++
		case strings.HasPrefix(e, "unlock "), strings.HasPrefix(e, "runlock "):
			depth--
		}
	}
	return n
}

var zzQOps10 = []string{"put", "putforce", "get", "getnowait", "clear", "size", "setcapacity", "getcapacity"}

func zzQOp(q *RequestQueue, op int) func() {
	switch op {
	case 0:
		return func() { q.Put(int64(7)) }
	case 1:
		return func() { q.PutForce(int64(8)) }
	case 2:
		return func() { q.Get() } // only chosen when both operations find an element (see below)
	case 3:
		return func() { q.GetNoWait() }
	case 4:
		return func() { q.Clear() }
	case 5:
		return func() { q.Size() }
	case 6:
		return func() { q.SetCapacity(5) }
	}
	return func() { q.GetCapacity() }
}

// lock discipline of the request queue: every pair of public operations on one shared
// instance either touches disjoint state or is ordered by the queue's lock; no operation
// re-acquires a lock it holds
func ZZ_C10_RequestQueue() {
	n := zzvf.Choose(3)
	// pre-state with room (capacity 8) or FULL (capacity = content) with the failure / overflow
	// callbacks set: a refused put and an evicting forced put run the callbacks inside the operation
	full := zzvf.Choose(2) == 1
	mk := func() *RequestQueue {
		q := NewRequestQueue(8)
		for i := 0; i < n; i++ {
			q.Put(int64(i))
		}
		q.Put(int64(100))
		q.Put(int64(101)) // two elements at least: a blocking Get in either operation returns
		if full {
			q.SetCapacity(n + 2)
			q.Failed = func(interface{}) {}
			q.Overflowed = func(interface{}) {}
		}
		return q
	}
	a, b := zzvf.Choose(len(zzQOps10)), zzvf.Choose(len(zzQOps10))
	if b < a {
		return // unordered pairs
	}
	if (a == 2 || b == 2) && (a == 3 || a == 4 || b == 3 || b == 4 || a == b) {
		return // the other operation could empty the queue and leave Get blocked natively
	}
	g := mk()
	e0 := zz10EventCount()
	zzvf.Guard("deadlock/RequestQueue/"+zzQOps10[a], zzQOp(g, a))
	// one atomic step = one critical section of the queue's lock (the list's lock nests inside)
	zzvf.Assert(zz10Sections(e0) <= 1, "atomic/RequestQueue/"+zzQOps10[a]+"/one-critical-section")
	zzvf.RacePairFresh("race/RequestQueue/"+zzQOps10[a]+"|"+zzQOps10[b], func() (func(), func()) {
		q := mk()
		return zzQOp(q, a), zzQOp(q, b)
	})
	zzvf.Reach("RequestQueue")
}

// ---- RequestDoubleQueue (same pattern) ----

// the first zzDQPair operations are the point operations + size (enqueue, dequeue, clear, size) and
// are paired by RacePair; every public method runs under the self-deadlock watchdog
var zzDQOps10 = []string{"put1", "put2", "putforce1", "putforce2", "get", "getnowait", "clear", "size", "size1", "size2",
	"setcapacity", "getcapacity1", "getcapacity2", "gettimeout", "tostring1", "tostring2"}

const zzDQPair = 13

func zzDQOp(q *RequestDoubleQueue, op string) func() {
	switch op {
	case "put1":
		return func() { q.Put1(int64(7)) }
	case "put2":
		return func() { q.Put2(int64(8)) }
	case "putforce1":
		return func() { q.PutForce1(int64(9)) }
	case "putforce2":
		return func() { q.PutForce2(int64(10)) }
	case "get":
		return func() { q.Get() } // only chosen when both operations find an element (see below)
	case "getnowait":
		return func() { q.GetNoWait() }
	case "clear":
		return func() { q.Clear() }
	case "size":
		return func() { q.Size() }
	case "size1":
		return func() { q.Size1() }
	case "size2":
		return func() { q.Size2() }
	case "setcapacity":
		return func() { q.SetCapacity(5, 6) }
	case "getcapacity1":
		return func() { q.GetCapacity1() }
	case "getcapacity2":
		return func() { q.GetCapacity2() }
	case "gettimeout":
		return func() { q.GetTimeout(3) } // the queue is not empty: returns at once
	case "tostring1":
		return func() { q.ToString1() }
	case "tostring2":
		return func() { q.ToString2() }
	}
	panic("zzDQOp: " + op)
}

// zzDQPre: capacities 4 / 4 (PutForce then evicts), n+2 elements in the first and n in the second
// queue: two elements at least, so that a blocking Get in either operation returns
func zzDQPre(n int) *RequestDoubleQueue {
	q := NewRequestDoubleQueue(4, 4)
	// callbacks set: a refused put / an evicting forced put runs them inside the operation
	q.failed1, q.failed2 = func(interface{}) {}, func(interface{}) {}
	q.overflowed1, q.overflowed2 = func(interface{}) {}, func(interface{}) {}
	for i := 0; i < n; i++ {
		q.Put1(int64(i))
		q.Put2(int64(50 + i))
	}
	q.Put1(int64(100))
	q.Put1(int64(101))
	return q
}

// lock discipline of the double request queue: every pair of its point operations on one shared
// instance either touches disjoint state or is ordered by a common lock; no public method
// re-acquires a lock it holds
func ZZ_C10_RequestDoubleQueue() {
	n := zzvf.Choose(3)
	a := zzvf.Choose(len(zzDQOps10))
	opA := zzDQOps10[a]
	g := zzDQPre(n)
	e0 := zz10EventCount()
	zzvf.Guard("deadlock/RequestDoubleQueue/"+opA, zzDQOp(g, opA))
	if a < zzDQPair {
		zzvf.Assert(zz10Sections(e0) <= 1, "atomic/RequestDoubleQueue/"+opA+"/one-critical-section")
	}
	if a < zzDQPair {
		opB := zzDQOps10[a+zzvf.Choose(zzDQPair-a)]
		if (opA == "get" || opB == "get") && (opA == opB || opA == "getnowait" || opA == "clear" || opB == "getnowait" || opB == "clear") {
			zzvf.Reach("RequestDoubleQueue")
			return // the other operation could empty the queue and leave Get blocked natively
		}
		zzvf.RacePairFresh("race/RequestDoubleQueue/"+opA+"|"+opB, func() (func(), func()) {
			q := zzDQPre(n)
			return zzDQOp(q, opA), zzDQOp(q, opB)
		})
	}
	zzvf.Reach("RequestDoubleQueue")
}
