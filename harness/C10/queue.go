//vf:dir util/queue
//vf:race
package queue

import "github.com/whatap/golib/zzvf"

var zzQOps10 = []string{"put", "putforce", "get", "getnowait", "clear", "size", "setcapacity", "getcapacity"}

func zzQOp(q *RequestQueue, op int) func() {
	switch op {
	case 0:
		return func() { q.Put(int64(7)) }
	case 1:
		return func() { q.PutForce(int64(8)) }
	case 2:
		return func() { q.Get() } // only chosen when both operations find an element (see below)
	case 3:
		return func() { q.GetNoWait() }
	case 4:
		return func() { q.Clear() }
	case 5:
		return func() { q.Size() }
	case 6:
		return func() { q.SetCapacity(5) }
	}
	return func() { q.GetCapacity() }
}

// lock discipline of the request queue: every pair of public operations on one shared
// instance either touches disjoint state or is ordered by the queue's lock; no operation
// re-acquires a lock it holds
func ZZ_C10_RequestQueue() {
	q := NewRequestQueue(8)
	for i, n := 0, zzvf.Choose(3); i < n; i++ {
		q.Put(int64(i))
	}
	q.Put(int64(100))
	q.Put(int64(101)) // two elements at least: a blocking Get in either operation returns
	a, b := zzvf.Choose(len(zzQOps10)), zzvf.Choose(len(zzQOps10))
	if b < a {
		return // unordered pairs
	}
	if (a == 2 || b == 2) && (a == 3 || a == 4 || b == 3 || b == 4 || a == b) {
		return // the other operation could empty the queue and leave Get blocked natively
	}
	zzvf.Guard("deadlock/RequestQueue/"+zzQOps10[a], zzQOp(q, a))
	zzvf.RacePair("race/RequestQueue/"+zzQOps10[a]+"|"+zzQOps10[b], zzQOp(q, a), zzQOp(q, b))
	zzvf.Reach("RequestQueue")
}
