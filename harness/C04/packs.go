//vf:dir lang/pack
package pack

// C04 — strict prefixes of valid PACK encodings are rejected: every pack type the factory
// knows, members filled by zzvf.Fill (small classes; containers as the constructor leaves
// them), both header forms, written with WritePack, cut at EVERY byte offset, read with
// ReadPack: decoding must fail (a recoverable panic), never return an object.

import (
	"github.com/whatap/golib/io"
	"github.com/whatap/golib/zzvf"
)

var zz4PackTypes = []int16{PACK_PARAMETER, PACK_COUNTER_1, PACK_PROFILE, PACK_ACTIVESTACK_1, PACK_TEXT, PACK_ERROR_SNAP_1, PACK_REALTIME_USER,
	PACK_STAT_SERVICE, PACK_STAT_GENERAL, PACK_STAT_GENERAL_1, PACK_STAT_SQL, PACK_STAT_HTTPC, PACK_STAT_ERROR, PACK_STAT_REMOTE_IP, PACK_STAT_USER_AGENT,
	PACK_EVENT, PACK_HITMAP_1, PACK_EXTENSION, TAG_COUNT, TAG_LOG, PACK_COMPOSITE, PACK_LOGSINK, PACK_ZIP, PACK_LOGSINK_ZIP, PACK_SERVERINFO}

var zz4PackNames = []string{"ParamPack", "CounterPack1", "ProfilePack", "ActiveStackPack", "TextPack", "ErrorSnapPack1", "RealtimeUserPack",
	"StatServicePack", "StatGeneralPack", "StatGeneralPack1", "StatSqlPack", "StatHttpcPack", "StatErrorPack", "StatRemoteIpPack", "StatUserAgentPack",
	"EventPack", "HitMapPack1", "ExtensionPack", "TagCountPack", "TagLogPack", "CompositePack", "LogSinkPack", "ZipPack", "LogSinkZipPack", "ServerInfoPack"}

//vf: paths=200000 deadline=8m
func ZZ_C04_PackTruncation() {
	k := zzvf.Choose(len(zz4PackTypes))
	p := CreatePack(zz4PackTypes[k])
	if p == nil {
		zzvf.Assert(false, "pack-truncation/"+zz4PackNames[k]+"/factory-knows-the-type")
		return
	}
	var built bool
	pv := zzvf.PanicValue(func() {
		zzvf.Fill(p, -1, zzvf.Choose(2))
		built = true
	})
	if pv != "" || !built {
		return
	}
	out := io.NewDataOutputX()
	wp := zzvf.PanicValue(func() { WritePack(out, p) })
	if wp != "" {
		zzvf.Reach("pack-truncation/" + zz4PackNames[k])
		return // (a filled pack the writer refuses is C03's subject)
	}
	b := out.ToByteArray()
	cut := zzvf.Choose(len(b))
	failed := zzvf.Panics(func() { ReadPack(io.NewDataInputX(b[:cut])) })
	zzvf.Assert(failed, "pack-truncation/"+zz4PackNames[k]+"/prefix-is-rejected")
	zzvf.Reach("pack-truncation/" + zz4PackNames[k])
}
