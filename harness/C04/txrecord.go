//vf:dir lang/service
package service

// C04 — strict prefixes of a valid transaction RECORD encoding are rejected: fields filled
// by zzvf.Fill (small classes), the optional multi-trace / caller sections present or
// absent, cut at EVERY byte offset.

import (
	"github.com/whatap/golib/io"
	"github.com/whatap/golib/zzvf"
)

//vf: paths=100000
func ZZ_C04_TxRecordTruncation() {
	t := NewTxRecord()
	zzvf.Fill(t, -1, zzvf.Choose(2))
	sec := zzvf.Choose(4)
	if sec&1 == 0 {
		t.Mtid = 0
	}
	if sec&2 == 0 {
		t.McallerPcode = 0
	}
	out := io.NewDataOutputX()
	t.Write(out)
	b := out.ToByteArray()
	cut := zzvf.Choose(len(b))
	q := NewTxRecord()
	failed := zzvf.Panics(func() { q.Read(io.NewDataInputX(b[:cut])) })
	zzvf.Assert(failed, "txrecord-truncation/prefix-is-rejected")
	zzvf.Reach("txrecord-truncation")
}
