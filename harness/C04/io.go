//vf:dir io
package io

import "github.com/whatap/golib/zzvf"

// fabrication lemma at the root of every decoder: for ARBITRARY buffer content of length
// L and an arbitrary requested size, ReadBytes either panics or returns exactly the next
// sz bytes of the input — never bytes that were not there — and allocates no more than
// the input can justify
//vf: fan=64
func ZZ_C04_ReadBytes() {
	L := zzvf.Choose(6)
	buf := zzvf.Bytes(L)
	pre := zzvf.Choose(2) // bytes already consumed
	if pre > L {
		pre = L
	}
	in := NewDataInputX(buf)
	if pre > 0 {
		in.ReadBytes(int32(pre))
	}
	zzvf.AllocBudget(L, 1, 1<<20)
	sz := zzvf.Int32()
	var got []byte
	p := zzvf.Panics(func() { got = in.ReadBytes(sz) })
	avail := L - pre
	if !p {
		zzvf.Assert(zzvf.And(sz >= 0, int(sz) <= avail), "readbytes/returns-only-when-enough-input")
		ok := len(got) == int(sz)
		for i := range got {
			if pre+i < L {
				ok = zzvf.And(ok, got[i] == buf[pre+i])
			} else {
				ok = false
			}
		}
		zzvf.Assert(ok, "readbytes/returns-exactly-the-next-bytes")
	} else {
		zzvf.Assert(zzvf.Or(sz < 0, int(sz) > avail), "readbytes/panics-only-when-short")
	}
	zzvf.Reach("readbytes")
}

// typed reads on a buffer that is too short must fail, not fabricate zero bytes
func ZZ_C04_ShortReads() {
	names := []string{"short", "int3", "int", "long5", "long", "float", "double", "ushort", "uint"}
	need := []int{2, 3, 4, 5, 8, 4, 8, 2, 4}
	k := zzvf.Choose(len(names))
	have := zzvf.Choose(need[k]) // strictly fewer bytes than needed
	in := NewDataInputX(zzvf.Bytes(have))
	p := zzvf.Panics(func() {
		switch k {
		case 0:
			in.ReadShort()
		case 1:
			in.ReadInt3()
		case 2:
			in.ReadInt()
		case 3:
			in.ReadLong5()
		case 4:
			in.ReadLong()
		case 5:
			in.ReadFloat()
		case 6:
			in.ReadDouble()
		case 7:
			in.ReadUShort()
		case 8:
			in.ReadUnsignedInt()
		}
	})
	zzvf.Assert(p, "shortread/"+names[k]+"/fails-on-truncated-input")
	zzvf.Reach("shortreads")
}

// length-prefixed reads with a hostile length field: terminate, fail or return real
// bytes, bounded allocation
//vf: fan=64
func ZZ_C04_HostileLengths() {
	L := 2 + zzvf.Choose(5)
	buf := zzvf.Bytes(L)
	in := NewDataInputX(buf)
	zzvf.AllocBudget(L, 8, 1<<20) // O(input) + 1 MiB slack: 16-bit count fields stay within it
	names := []string{"blob", "text", "intbytes", "shortbytes", "shortarray", "intarray", "longarray", "textarray", "decimalarray", "decimalarrayint", "textshort", "floatarray", "doublearray"}
	k := zzvf.Choose(len(names))
	n := -1
	p := zzvf.Panics(func() {
		switch k {
		case 0:
			n = len(in.ReadBlob())
		case 1:
			n = len(in.ReadText())
		case 2:
			n = len(in.ReadIntBytes())
		case 3:
			n = len(in.ReadShortBytes())
		case 4:
			n = 2 * len(in.ReadShortArray())
		case 5:
			n = 4 * len(in.ReadIntArray())
		case 6:
			n = 8 * len(in.ReadLongArray())
		case 7:
			n = len(in.ReadTextArray())
		case 8:
			n = len(in.ReadDecimalArray())
		case 9:
			n = len(in.ReadDecimalArrayInt())
		case 10:
			n = len(in.ReadTextShortLength())
		case 11:
			n = 4 * len(in.ReadFloatArray())
		case 12:
			n = 8 * len(in.ReadDoubleArray())
		}
	})
	if !p {
		// whatever was returned was backed by input bytes
		zzvf.Assert(n <= L, "hostile/"+names[k]+"/result-not-larger-than-input")
		zzvf.Assert(in.Available() >= 0, "hostile/"+names[k]+"/never-consumes-past-the-end")
	}
	zzvf.Reach("hostile/" + names[k])
}
