//vf:dir lang/value
//vf:use valuegen.go
package value

import (
	"github.com/whatap/golib/io"
	"github.com/whatap/golib/zzvf"
)

var zzKindN = []string{"null", "bool", "decimal", "int", "long", "float", "double", "doublesummary", "longsummary", "text", "texthash", "blob", "ip4",
	"intarray", "floatarray", "textarray", "longarray", "emptylist", "list", "map", "intmap"}

// for every valid encoding of a value and EVERY truncation point, decoding the strict
// prefix reports failure instead of returning an object
//vf: paths=400000
func ZZ_C04_ValueTruncation() {
	zzElemKinds = []int{2, 9, 3, 11}
	k := zzvf.Choose(zzNAll)
	v, _ := zzGenKind(k, 1, 2)
	out := io.NewDataOutputX()
	WriteValue(out, v)
	b := out.ToByteArray()
	cut := zzvf.Choose(len(b)) // 0 .. len-1 bytes kept
	p := zzvf.Panics(func() { ReadValue(io.NewDataInputX(b[:cut])) })
	zzvf.Assert(p, "value-truncation/"+zzKindN[k]+"/prefix-is-rejected")
	zzvf.Reach("value-truncation/" + zzKindN[k])
}

// arbitrary corrupted input: decoding terminates (every path ends within the step
// bound), fails or returns; allocations stay within O(input) + 1 MiB
//vf: paths=400000 fan=128 steps=400000 visits=200
func ZZ_C04_ValueHostile() {
	L := 1 + zzvf.Choose(6)
	if zzvf.Thorough() {
		L = 1 + zzvf.Choose(7) // (8 and 9 bytes: not finished in 40 min — outside the claim)
	}
	buf := zzvf.Bytes(L)
	zzvf.AllocBudget(L, 16, 1<<20)
	in := io.NewDataInputX(buf)
	var v Value
	p := zzvf.Panics(func() { v = ReadValue(in) })
	if !p {
		zzvf.Assert(v != nil, "value-hostile/returns-a-value-or-fails")
		zzvf.Assert(in.Available() >= 0, "value-hostile/never-consumes-past-the-end")
	}
	zzvf.Reach("value-hostile")
}
