//vf:dir lang/value
//vf:use valuegen.go
package value

import (
	"github.com/whatap/golib/io"
	"github.com/whatap/golib/zzvf"
)

var zzKindN = []string{"null", "bool", "decimal", "int", "long", "float", "double", "doublesummary", "longsummary", "text", "texthash", "blob", "ip4",
	"intarray", "floatarray", "textarray", "longarray", "emptylist", "list", "map", "intmap"}

// for every valid encoding of a value and EVERY truncation point, decoding the strict
// prefix reports failure instead of returning an object
//vf: paths=400000
func ZZ_C04_ValueTruncation() {
	zzElemKinds = []int{2, 9, 3, 11}
	k := zzvf.Choose(zzNAll)
	v, _ := zzGenKind(k, 1, 2)
	out := io.NewDataOutputX()
	WriteValue(out, v)
	b := out.ToByteArray()
	cut := zzvf.Choose(len(b)) // 0 .. len-1 bytes kept
	p := zzvf.Panics(func() { ReadValue(io.NewDataInputX(b[:cut])) })
	zzvf.Assert(p, "value-truncation/"+zzKindN[k]+"/prefix-is-rejected")
	zzvf.Reach("value-truncation/" + zzKindN[k])
}

// arbitrary corrupted input: decoding terminates (every path ends within the step
// bound), fails or returns; allocations stay within O(input) + 1 MiB
//vf: paths=400000 fan=128 steps=400000 visits=200
func ZZ_C04_ValueHostile() {
	L := 1 + zzvf.Choose(6)
	if zzvf.Thorough() {
		L = 1 + zzvf.Choose(7) // (8 and 9 bytes: not finished in 40 min — outside the claim)
	}
	buf := zzvf.Bytes(L)
	zzvf.AllocBudget(L, 16, 1<<20)
	in := io.NewDataInputX(buf)
	var v Value
	p := zzvf.Panics(func() { v = ReadValue(in) })
	if !p {
		zzvf.Assert(v != nil, "value-hostile/returns-a-value-or-fails")
		zzvf.Assert(in.Available() >= 0, "value-hostile/never-consumes-past-the-end")
	}
	zzvf.Reach("value-hostile")
}

// the 4-byte-length form of blobs and texts (more than 65535 bytes): a truncated encoding,
// or a length field larger than what follows, is rejected — never answered with a shorter
// object. 65540 bytes (zeros, first and last symbolic); cuts right after the header, in
// the middle, one byte short; and the full encoding with an inflated length field.
//vf: paths=200 steps=60000000 visits=3000000
func ZZ_C04_LargeBlobTruncation() {
	n := 65540
	payload := make([]byte, n)
	payload[0], payload[n-1] = zzvf.Byte(), zzvf.Byte()
	var v Value
	text := zzvf.Choose(2) == 1
	if text {
		for i := range payload {
			payload[i] = 'a'
		}
		v = NewTextValue(string(payload))
	} else {
		v = NewBlobValue(payload)
	}
	out := io.NewDataOutputX()
	WriteValue(out, v)
	b := out.ToByteArray()
	zzvf.Assert(len(b) == 1+5+n && b[1] == 254, "large-blob/uses-the-4-byte-length-form")
	kind := "blob"
	if text {
		kind = "text"
	}
	switch c := zzvf.Choose(5); c {
	case 4: // complete bytes, length field says one more
		b2 := append([]byte{}, b...)
		b2[5]++
		p := zzvf.Panics(func() { ReadValue(io.NewDataInputX(b2)) })
		zzvf.Assert(p, "large-blob/"+kind+"/inflated-length-is-rejected")
	default:
		cut := []int{6, 7, 30000, len(b) - 1}[c]
		p := zzvf.Panics(func() { ReadValue(io.NewDataInputX(b[:cut])) })
		zzvf.Assert(p, "large-blob/"+kind+"/prefix-is-rejected")
	}
	zzvf.Reach("large-blob-truncation")
}
