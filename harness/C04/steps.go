//vf:dir lang/step
package step

// C04 — strict prefixes of valid STEP encodings are rejected: every registered step type,
// fields filled by zzvf.Fill (small classes, strings of 0..2 bytes; HttpcStepX at versions
// 1 and 2 and a symbolic one), written with WriteStep, cut at EVERY byte offset, read with
// ReadStep: decoding must fail (a recoverable panic), never return an object.

import (
	"github.com/whatap/golib/io"
	"github.com/whatap/golib/zzvf"
)

var zz4StepNames = []string{"MethodStepX", "SqlStepX", "ResultSetStep", "SocketStep", "HttpcStepX", "HttpcStepX-v1", "ActiveStackStep", "MessageStep", "SecureMsgStep", "DBCStep"}

func zz4Step(k int) Step {
	switch k {
	case 0:
		return NewMethodStepX()
	case 1:
		return NewSqlStepX()
	case 2:
		return NewResultSetStep()
	case 3:
		return NewSocketStep()
	case 4:
		return NewHttpcStepX()
	case 5:
		return NewHttpcStepXVersion(1)
	case 6:
		return NewActiveStackStep()
	case 7:
		return NewMessageStep()
	case 8:
		return NewSecureMsgStep()
	}
	return NewDBCStep()
}

//vf: paths=100000
func ZZ_C04_StepTruncation() {
	k := zzvf.Choose(len(zz4StepNames))
	p := zz4Step(k)
	ver := int32(-1)
	if h, ok := p.(*HttpcStepX); ok {
		ver = int32(h.Version)
	}
	zzvf.Fill(p, -1, zzvf.Choose(2))
	if h, ok := p.(*HttpcStepX); ok {
		h.Version = byte(ver) // (Fill made it symbolic; the two wire versions are separate cases)
	}
	out := io.NewDataOutputX()
	WriteStep(out, p)
	b := out.ToByteArray()
	cut := zzvf.Choose(len(b))
	var q Step
	failed := zzvf.Panics(func() { q = ReadStep(io.NewDataInputX(b[:cut])) })
	zzvf.Assert(failed, "step-truncation/"+zz4StepNames[k]+"/prefix-is-rejected")
	_ = q
	zzvf.Reach("step-truncation/" + zz4StepNames[k])
}
