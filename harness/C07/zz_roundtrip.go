//vf:dir lang/pack/udp
package udp

// C07 (a) — version agreement: one harness per UDP pack type (parallel jobs).
// Bounds: strings 0..2 bytes (focus) / 1 byte, numbers full range (focus) / 1..100,
// decimal-text fields |v| <= 10^4 (quick) / 10^5 (thorough) for the focus one, distinct
// small constants for the others; protocol version any int32.

import (
	"github.com/whatap/golib/io"
	"github.com/whatap/golib/util/stringutil"
	"github.com/whatap/golib/zzvf"
)

func zzMkTxStart() UdpPack         { return NewUdpTxStartPack() }
func zzMkTxStartEnd() UdpPack      { return NewUdpTxStartEndPack() }
func zzMkTxEnd() UdpPack           { return NewUdpTxEndPack() }
func zzMkTxSql() UdpPack           { return NewUdpTxSqlPack() }
func zzMkTxSqlParam() UdpPack      { return NewUdpTxSqlParamPack() }
func zzMkTxHttpc() UdpPack         { return NewUdpTxHttpcPack() }
func zzMkTxError() UdpPack         { return NewUdpTxErrorPack() }
func zzMkTxMessage() UdpPack       { return NewUdpTxMessagePack() }
func zzMkTxSecureMessage() UdpPack { return NewUdpTxSecureMessagePack() }
func zzMkTxMethod() UdpPack        { return NewUdpTxMethodPack() }
func zzMkTxDbc() UdpPack           { return NewUdpTxDbcPack() }
func zzMkRelay() UdpPack           { return NewUdpRelayPack() }
func zzMkActiveStack1() UdpPack    { return NewUdpActiveStackPack1() }
func zzMkActiveStack() UdpPack     { return NewUdpActiveStackPack() }
func zzMkTxParam() UdpPack         { return NewUdpTxParamPack() }
func zzMkActiveStats() UdpPack     { return NewUdpActiveStatsPack() }
func zzMkDBConPool() UdpPack       { return NewUdpDBConPoolPack() }
func zzMkConfig() UdpPack          { return NewUdpConfigPack() }
func zzMkTxResultSet() UdpPack     { return NewUdpTxResultSetPack() }

func zzDecTxEnd(u UdpPack) []interface{} {
	p := u.(*UdpTxEndPack)
	return []interface{}{&p.Mtid, &p.Mdepth, &p.McallerTxid, &p.McallerPcode, &p.Status, &p.McallerStepId,
		&p.PeakMem, &p.ElapsedUserCPUTime, &p.ElapsedSystemCPUTime, &p.EFuncCount, &p.ProfEFuncCount, &p.IFuncCount, &p.ProfIFuncCount}
}
func zzDecTxStartEnd(u UdpPack) []interface{} {
	p := u.(*UdpTxStartEndPack)
	return []interface{}{&p.Mtid, &p.Mdepth, &p.Mcaller, &p.McallerTxid, &p.McallerPcode, &p.Status, &p.McallerStepId,
		&p.PeakMem, &p.ElapsedUserCPUTime, &p.ElapsedSystemCPUTime, &p.EFuncCount, &p.ProfEFuncCount, &p.IFuncCount, &p.ProfIFuncCount}
}
func zzDecTxHttpc(u UdpPack) []interface{}     { return []interface{}{&u.(*UdpTxHttpcPack).StepId} }
func zzDecTxResultSet(u UdpPack) []interface{} { return []interface{}{&u.(*UdpTxResultSetPack).Fetch} }

// TxSql.Fetch travels as decimal text at the Python versions (since the /repo fix)
func zzDecTxSql(u UdpPack) []interface{} { return []interface{}{&u.(*UdpTxSqlPack).Fetch} }

//vf: paths=20000 t.paths=400000
func ZZ_C07_TxStart() { zzRoundTrip("TxStart", zzMkTxStart, nil, nil, nil) }

//vf: paths=60000 t.paths=600000 t.deadline=40m
func ZZ_C07_TxStartEnd() { zzRoundTrip("TxStartEnd", zzMkTxStartEnd, zzDecTxStartEnd, nil, nil) }

//vf: paths=60000 t.paths=600000 t.deadline=40m
func ZZ_C07_TxEnd() { zzRoundTrip("TxEnd", zzMkTxEnd, zzDecTxEnd, nil, nil) }

//vf: paths=20000 t.paths=400000
func ZZ_C07_TxSql() { zzRoundTrip("TxSql", zzMkTxSql, zzDecTxSql, nil, nil) }

//vf: paths=20000 t.paths=400000
func ZZ_C07_TxSqlParam() { zzRoundTrip("TxSqlParam", zzMkTxSqlParam, nil, nil, nil) }

//vf: paths=20000 t.paths=400000
func ZZ_C07_TxHttpc() { zzRoundTrip("TxHttpc", zzMkTxHttpc, zzDecTxHttpc, nil, nil) }

//vf: paths=20000 t.paths=400000
func ZZ_C07_TxError() { zzRoundTrip("TxError", zzMkTxError, nil, nil, nil) }

//vf: paths=20000 t.paths=400000
func ZZ_C07_TxMessage() { zzRoundTrip("TxMessage", zzMkTxMessage, nil, nil, nil) }

//vf: paths=20000 t.paths=400000
func ZZ_C07_TxSecureMessage() {
	zzRoundTrip("TxSecureMessage", zzMkTxSecureMessage, nil, nil, nil)
}

//vf: paths=20000 t.paths=400000
func ZZ_C07_TxMethod() { zzRoundTrip("TxMethod", zzMkTxMethod, nil, nil, nil) }

//vf: paths=20000 t.paths=400000
func ZZ_C07_TxDbc() { zzRoundTrip("TxDbc", zzMkTxDbc, nil, nil, nil) }

// Relay: the payload length is not on the wire; the receiver takes it from the datagram
// header and stores it in Len before Read (caller-side state on both ends).
//vf: paths=20000 t.paths=400000
func ZZ_C07_Relay() {
	zzRoundTrip("Relay", zzMkRelay, nil,
		func(u UdpPack) { p := u.(*UdpRelayPack); p.Len = int32(len(p.Data)) },
		func(u, v UdpPack) { v.(*UdpRelayPack).Len = int32(len(u.(*UdpRelayPack).Data)) })
}

//vf: paths=20000 t.paths=400000
func ZZ_C07_ActiveStack1() { zzRoundTrip("ActiveStack1", zzMkActiveStack1, nil, nil, nil) }

//vf: paths=20000 t.paths=400000
func ZZ_C07_ActiveStack() { zzRoundTrip("ActiveStack", zzMkActiveStack, nil, nil, nil) }

//vf: paths=20000 t.paths=400000
func ZZ_C07_TxParam() { zzRoundTrip("TxParam", zzMkTxParam, nil, nil, nil) }

//vf: paths=20000 t.paths=400000
func ZZ_C07_DBConPool() { zzRoundTrip("DBConPool", zzMkDBConPool, nil, nil, nil) }

//vf: paths=20000 t.paths=400000
func ZZ_C07_Config() { zzRoundTrip("Config", zzMkConfig, nil, nil, nil) }

//vf: paths=20000 t.paths=400000
func ZZ_C07_TxResultSet() { zzRoundTrip("TxResultSet", zzMkTxResultSet, zzDecTxResultSet, nil, nil) }

// Text fields at the ends of the 16-bit length range (the length travels as a short).
//vf: paths=2000
func ZZ_C07_TxMethod_LongText() {
	name := "TxMethod/longtext"
	p := NewUdpTxMethodPack()
	zzvf.Fill(p, -1, 1)
	lens := []int{32767, 32768, 65535}
	p.Stack = zzvf.String(lens[zzvf.Choose(len(lens))])
	ver := zzvf.Int32()
	p.Ver = ver
	b := ToBytesPack(p)
	q := NewUdpTxMethodPack()
	q.Ver = ver
	in := io.NewDataInputX(b)
	if zzvf.Panics(func() { q.Read(in) }) {
		zzvf.Assert(false, name+"/read-does-not-panic")
		zzvf.Reach(name)
		return
	}
	zzvf.Assert(in.Available() == 0, name+"/consumed-exactly")
	zzvf.Assert(q.Stack == p.Stack, name+"/field/Stack")
	zzvf.Assert(q.Method == p.Method, name+"/field/Method")
	zzvf.Assert(zzvf.Same(ToBytesPack(q), b), name+"/reencode-identical")
	zzvf.Reach(name)
}

// ActiveStats: the writer derives Data (decimal text, comma separated) from ActiveStats;
// Read restores Data only and Process() rebuilds ActiveStats from it when it has exactly
// the 5 entries of the protocol. So for this type: Read restores the Data the writer
// produced, consumes exactly, and Read+Process restores ActiveStats. ActiveStats is nil
// or has the 5 entries of the protocol (other lengths are dropped by Process by design).
// One entry ranges over all int16 values per run, the others over 1..9.
//vf: paths=20000 t.paths=400000
func ZZ_C07_ActiveStats() {
	name := "ActiveStats"
	p := NewUdpActiveStatsPack()
	sfocus := zzvf.Choose(7) - 1 // -1: none, 0..4: entry, 5: nil slice
	zzvf.Fill(p, -1, 1)
	if sfocus == 5 {
		p.ActiveStats = nil
	} else {
		p.ActiveStats = make([]int16, 5)
		ptrs := []interface{}{&p.ActiveStats[0], &p.ActiveStats[1], &p.ActiveStats[2], &p.ActiveStats[3], &p.ActiveStats[4]}
		zzDecimals(ptrs, sfocus)
	}
	ver := zzvf.Int32()
	p.Ver = ver
	b := ToBytesPack(p)
	q := NewUdpActiveStatsPack()
	q.Ver = ver
	in := io.NewDataInputX(b)
	if zzvf.Panics(func() { q.Read(in) }) {
		zzvf.Assert(false, name+"/read-does-not-panic")
		zzvf.Reach(name)
		return
	}
	zzvf.Assert(in.Available() == 0, name+"/consumed-exactly")
	zzvf.Assert(q.Data == p.Data, name+"/field/Data")
	if zzvf.Panics(func() { q.Process() }) {
		zzvf.Assert(false, name+"/process-does-not-panic")
		zzvf.Reach(name)
		return
	}
	zzvf.Assert(zzvf.Same(q.ActiveStats, p.ActiveStats), name+"/field/ActiveStats-after-process")
	b2 := ToBytesPack(q)
	zzvf.Assert(zzvf.Same(b2, b), name+"/reencode-identical")
	zzvf.Reach(name)
}

// Transaction-start length caps: ONE field is longer than its documented cap by 1..2
// bytes; the reader must restore exactly stringutil.Truncate(field, cap) for it and the
// other fields unchanged. (Caps: Host/Uri/UAgent/Ref/WClientId 2048, Ipaddr/HttpMethod 256.)
//vf: paths=20000 t.paths=400000
func ZZ_C07_TxStart_Caps() {
	name := "TxStart/caps"
	p := NewUdpTxStartPack()
	zzvf.Fill(p, -1, 1)
	fields := []*string{&p.Host, &p.Uri, &p.Ipaddr, &p.UAgent, &p.Ref, &p.WClientId, &p.HttpMethod}
	caps := []int{HTTP_HOST_MAX_SIZE, HTTP_URI_MAX_SIZE, HTTP_IP_MAX_SIZE, HTTP_UA_MAX_SIZE, HTTP_REF_MAX_SIZE, HTTP_URI_MAX_SIZE, HTTP_METHOD_MAX_SIZE}
	labels := []string{"Host", "Uri", "Ipaddr", "UAgent", "Ref", "WClientId", "HttpMethod"}
	w := zzvf.Choose(len(fields))
	*fields[w] = zzvf.String(caps[w] + 1 + zzvf.Choose(2))
	var want [7]string
	for i := range fields {
		want[i] = *fields[i]
		if len(want[i]) > caps[i] { // independent statement of the documented cap
			want[i] = want[i][:caps[i]]
		}
	}
	_ = stringutil.Truncate
	ver := zzvf.Int32()
	p.Ver = ver
	b := ToBytesPack(p)
	q := NewUdpTxStartPack()
	q.Ver = ver
	in := io.NewDataInputX(b)
	if zzvf.Panics(func() { q.Read(in) }) {
		zzvf.Assert(false, name+"/read-does-not-panic")
		zzvf.Reach(name)
		return
	}
	zzvf.Assert(in.Available() == 0, name+"/consumed-exactly")
	got := []string{q.Host, q.Uri, q.Ipaddr, q.UAgent, q.Ref, q.WClientId, q.HttpMethod}
	for i := range got {
		if zzvf.DependsOn(b, *fields[i]) { // the writer put the field on the wire at this version
			zzvf.Assert(got[i] == want[i], name+"/field/"+labels[i])
		}
	}
	b2 := ToBytesPack(q)
	zzvf.Assert(zzvf.Same(b2, b), name+"/reencode-identical")
	zzvf.Reach(name)
}

// ---- long texts: "all field values within the 16-bit length range" ----
// Every plain string field of every pack type in turn gets a 40000-byte text (above every 32 KiB
// constant of the package, below 2^16; first and last byte symbolic); the version is symbolic.
// A field the writer puts on the wire at that version must come back whole. The transaction-start
// packs are left out: their documented caps are the subject of the start-field harnesses.
func zzRoundTripLong(name string, mk func() UdpPack) {
	p := mk()
	n := zzvf.FillCount(p)
	zzvf.Fill(p, zzvf.Choose(n), 3)
	if !zzvf.FillLong() {
		zzvf.Reach("long/not-a-text-field")
		return
	}
	ver := zzvf.Int32()
	p.SetVersion(ver)
	name = name + "/" + zzFamily(ver) + "/long-text"
	b := ToBytesPack(p)
	q := mk()
	q.SetVersion(ver)
	in := io.NewDataInputX(b)
	if zzvf.Panics(func() { q.Read(in) }) {
		zzvf.Assert(false, name+"/read-does-not-panic")
		zzvf.Reach("long")
		return
	}
	zzvf.Assert(in.Available() == 0, name+"/consumed-exactly")
	zzvf.AssertCarried(b, p, q, name)
	zzvf.Reach("long")
}

//vf: paths=20000
func ZZ_C07_LongText() {
	mks := []func() UdpPack{zzMkTxSql, zzMkTxSqlParam, zzMkTxHttpc, zzMkTxError, zzMkTxMessage, zzMkTxSecureMessage, zzMkTxMethod,
		zzMkTxDbc, zzMkRelay, zzMkActiveStack1, zzMkActiveStack, zzMkTxParam, zzMkDBConPool, zzMkConfig, zzMkTxResultSet}
	// TxEnd is left out: its many text fields that are parsed as numbers make 40000-iteration parse loops
	// per field and path (the harness did not finish in 3 minutes): outside the claim
	names := []string{"TxSql", "TxSqlParam", "TxHttpc", "TxError", "TxMessage", "TxSecureMessage", "TxMethod",
		"TxDbc", "Relay", "ActiveStack1", "ActiveStack", "TxParam", "DBConPool", "Config", "TxResultSet"}
	// ActiveStats is left out (its only text, Data, is derived from the int16 array by Write: ZZ_C07_ActiveStats)
	k := zzvf.Choose(len(mks))
	zzRoundTripLong(names[k], mks[k])
}
