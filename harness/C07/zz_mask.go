//vf:dir lang/pack/udp
package udp

// C07 (c) — password masking by Process() of the SQL / SQL+param / DB-connection packs
// at the versions of the Go and PHP families (see zzMask).

func zzMaskTok() int { return 3 }

//vf: paths=60000 t.paths=400000 t.deadline=40m
func ZZ_C07_Mask_TxSql() {
	zzMask("TxSql", zzMkTxSql,
		func(u UdpPack, s string) { u.(*UdpTxSqlPack).Dbc = s },
		func(u UdpPack) string { return u.(*UdpTxSqlPack).Dbc }, zzMaskTok())
}

//vf: paths=60000 t.paths=400000 t.deadline=40m
func ZZ_C07_Mask_TxSqlParam() {
	zzMask("TxSqlParam", zzMkTxSqlParam,
		func(u UdpPack, s string) { u.(*UdpTxSqlParamPack).Dbc = s },
		func(u UdpPack) string { return u.(*UdpTxSqlParamPack).Dbc }, zzMaskTok())
}

//vf: paths=60000 t.paths=400000 t.deadline=40m
func ZZ_C07_Mask_TxDbc() {
	zzMask("TxDbc", zzMkTxDbc,
		func(u UdpPack, s string) { u.(*UdpTxDbcPack).Dbc = s },
		func(u UdpPack) string { return u.(*UdpTxDbcPack).Dbc }, zzMaskTok())
}
