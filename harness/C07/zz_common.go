//vf:dir lang/pack/udp
package udp

// C07 — UDP tracer packs: shared harness helpers.
//
// (a) zzRoundTrip: version agreement of Write/Read for one pack type, protocol version
//     fully symbolic (every int32), focus rotation over the fields.
// (b) zzPool: acquire / fill / release / re-acquire histories of the sync.Pool behind
//     CreatePack / ClosePack (pool modelled LIFO).
// (c) zzMask: password masking of Process() for the families that send raw connection
//     strings.

import (
	"github.com/whatap/golib/io"
	"github.com/whatap/golib/zzvf"
)

// zzDecBound: magnitude bound of the focus decimal field (64-bit div/mod by 10 is the
// expensive part of the solver queries): 10^4 quick, 10^5 thorough (10^6: solver unknown).
func zzDecBound() int64 {
	if zzvf.Thorough() {
		return 100000
	}
	return 10000
}

// zzDecimals overwrites the fields that travel as decimal TEXT (fmt %d on write,
// strconv.ParseInt on read). Each symbolic decimal text forks on sign and digit count,
// and its digits are 64-bit div/mod terms (expensive queries), so at most ONE of them
// (index dfocus) is symbolic per run; the others hold distinct small concrete values
// (index+1). The driver rotates dfocus over all of them.
func zzDecimals(ptrs []interface{}, dfocus int) {
	for i, x := range ptrs {
		switch f := x.(type) {
		case *int64:
			if i != dfocus {
				*f = int64(i + 1)
				continue
			}
			v := zzvf.Int64()
			zzvf.Assume(zzvf.And(v >= -zzDecBound(), v <= zzDecBound()))
			*f = v
		case *int32:
			if i != dfocus {
				*f = int32(i + 1)
				continue
			}
			v := zzvf.Int32()
			zzvf.Assume(zzvf.And(int64(v) >= -zzDecBound(), int64(v) <= zzDecBound()))
			*f = v
		case *int16:
			if i != dfocus {
				*f = int16(i + 1)
				continue
			}
			v := zzvf.Int16()
			zzvf.Assume(zzvf.And(int64(v) >= -zzDecBound(), int64(v) <= zzDecBound()))
			*f = v
		}
	}
}

// zzFamily names the agent family of a version number exactly as every Write/Read/Process
// of the package partitions them (same comparisons, so no additional paths).
func zzFamily(ver int32) string {
	if ver > 50000 {
		return "go"
	} else if ver > 40000 {
		return "batch"
	} else if ver > 30000 {
		return "dotnet"
	} else if ver > 20000 {
		return "python"
	}
	return "php"
}

// zzRoundTrip: p := mk(), populated (Fill + decimal fields + extra), written at a fully
// symbolic version; a fresh pack with the same version reads the bytes with the real
// reader (no Process()). Obligations: the reader does not panic, consumes exactly the
// bytes written, restores every field the writer put on the wire at that version
// (AssertCarried), and re-encoding the result at the same version is byte-identical.
//   dec(p)      pointers to the decimal-text fields of p (may be nil)
//   extra(p)    populates what Fill does not, or normalises caller-side state
//   prep(p, q)  reader-side state a caller supplies out of band (may be nil)
func zzRoundTrip(name string, mk func() UdpPack, dec func(UdpPack) []interface{}, extra func(UdpPack), prep func(p, q UdpPack)) {
	p := mk()
	n := zzvf.FillCount(p)
	var d []interface{}
	if dec != nil {
		d = dec(p)
	}
	k := zzvf.Choose(n+1+len(d)) - 1
	focus, dfocus := k, -1
	if k >= n {
		focus, dfocus = -1, k-n
	}
	zzvf.Fill(p, focus, 1)
	zzDecimals(d, dfocus)
	if extra != nil {
		extra(p)
	}
	ver := zzvf.Int32() // EVERY version number
	p.SetVersion(ver)
	name = name + "/" + zzFamily(ver) // finding labels per agent family

	b := ToBytesPack(p)

	q := mk()
	q.SetVersion(ver)
	if prep != nil {
		prep(p, q)
	}
	in := io.NewDataInputX(b)
	if zzvf.Panics(func() { q.Read(in) }) {
		zzvf.Assert(false, name+"/read-does-not-panic")
		zzvf.Reach("roundtrip")
		return
	}
	zzvf.Assert(in.Available() == 0, name+"/consumed-exactly")
	zzvf.AssertCarried(b, p, q, name)
	b2 := ToBytesPack(q)
	zzvf.Assert(zzvf.Same(b2, b), name+"/reencode-identical")
	zzvf.Reach("roundtrip")
}

// zzPool: histories acquire^k, fill^k, release^k, acquire^k for k = 1, 2 on the pool of
// pack type t (LIFO: the re-acquired objects are the released ones). A re-acquired pack
// must carry no field value from its previous use:
//   <name>/pool/no-residue    every field except Ver / Index / Parent / Flush equals
//                             that of a fresh New<Type>() (zero values, empty map)
//   <name>/pool/index-parent  Index and Parent hold one of the two reset constants
//                             (0 of the constructor, -1 of Clear) — not the previous value
//   <name>/pool/flush         Flush after re-acquire does not depend on the Flush of the
//                             previous use (checked with both previous values)
//   <name>/pool/version       Ver is the one given to CreatePack
// skip = extra field names left to a dedicated obligation of the caller (checked by chk).
func zzPool(name string, t uint8, mk func() UdpPack, extra func(UdpPack), chk func(p2 UdpPack, name string), skip ...string) {
	k := 1 + zzvf.Choose(2)
	var held [2]UdpPack
	for i := 0; i < k; i++ {
		p := CreatePack(t, zzvf.Int32())
		if p == nil {
			zzvf.Assert(false, name+"/pool/create-returns-pack")
			zzvf.Reach(name + "/pool")
			return
		}
		held[i] = p
	}
	prevFlush := zzvf.Choose(2) == 1
	for i := 0; i < k; i++ {
		zzvf.Fill(held[i], -1, 1) // every slot: numbers 1..100, strings 1 byte, slices 1 element
		held[i].SetFlush(prevFlush)
		if extra != nil {
			extra(held[i])
		}
	}
	for i := 0; i < k; i++ {
		ClosePack(held[i])
	}
	except := append([]string{"Ver", "Index", "Parent", "Flush"}, skip...)
	for i := 0; i < k; i++ {
		ver2 := zzvf.Int32()
		p2 := CreatePack(t, ver2)
		zzvf.Assert(p2.GetVersion() == ver2, name+"/pool/version")
		zzvf.Assert(zzvf.Same(p2, mk(), except...), name+"/pool/no-residue")
		ix, pa := zzIndexParent(p2)
		zzvf.Assert(zzvf.And(zzvf.Or(ix == 0, ix == -1), zzvf.Or(pa == 0, pa == -1)), name+"/pool/index-parent")
		if chk != nil {
			chk(p2, name)
		}
		// Flush: release once more with the opposite previous value; the value seen after
		// re-acquire must be the same both times.
		f1 := p2.IsFlush()
		p2.SetFlush(!prevFlush)
		ClosePack(p2)
		p3 := CreatePack(t, ver2)
		zzvf.Assert(p3.IsFlush() == f1, name+"/pool/flush")
		held[i] = p3
	}
	zzvf.Reach(name + "/pool")
}

func zzIndexParent(p UdpPack) (int32, int32) {
	switch x := p.(type) {
	case *UdpTxStartPack:
		return x.Index, x.Parent
	case *UdpTxStartEndPack:
		return x.Index, x.Parent
	case *UdpTxEndPack:
		return x.Index, x.Parent
	case *UdpTxSqlPack:
		return x.Index, x.Parent
	case *UdpTxSqlParamPack:
		return x.Index, x.Parent
	case *UdpTxHttpcPack:
		return x.Index, x.Parent
	case *UdpTxErrorPack:
		return x.Index, x.Parent
	case *UdpTxMessagePack:
		return x.Index, x.Parent
	case *UdpTxSecureMessagePack:
		return x.Index, x.Parent
	case *UdpTxMethodPack:
		return x.Index, x.Parent
	case *UdpTxDbcPack:
		return x.Index, x.Parent
	case *UdpRelayPack:
		return x.Index, x.Parent
	case *UdpActiveStackPack1:
		return x.Index, x.Parent
	case *UdpActiveStackPack:
		return x.Index, x.Parent
	case *UdpTxParamPack:
		return x.Index, x.Parent
	case *UdpActiveStatsPack:
		return x.Index, x.Parent
	case *UdpDBConPoolPack:
		return x.Index, x.Parent
	case *UdpConfigPack:
		return x.Index, x.Parent
	case *UdpTxResultSetPack:
		return x.Index, x.Parent
	}
	return 0, 0
}

// ---------- (c) password masking ----------

// zzOccurs: does needle occur in hay? Both have concrete lengths; the comparison is one
// boolean term (no path forks).
func zzOccurs(needle, hay string) bool {
	r := false
	for i := 0; i+len(needle) <= len(hay); i++ {
		m := true
		for j := 0; j < len(needle); j++ {
			m = zzvf.And(m, hay[i+j] == needle[j])
		}
		r = zzvf.Or(r, m)
	}
	return r
}

// zzMask: a connection string of 1..maxTok key=value tokens (keys from password / user /
// host, values of 1..3 plain symbolic bytes) joined by " " or ";" is put into Dbc of a
// pack of a raw-connection-string family (Go: Ver > 50000, PHP: the else branch of
// Process, Ver <= 20000; Ver symbolic). After Process() the value of a token whose key
// is exactly "password" must not occur in Dbc. So that the substring test is meaningful
// the password values are assumed not to occur in the rest of the connection string
// (keys, separators, other tokens' values, the mask) to begin with.
//
// Value lengths: at most one token (rotated over all positions) is longer than the base
// length (by 1 or 2 bytes, up to 3); base length 1 in the quick tier, 1 or 2 in the
// thorough tier.
func zzMask(name string, mk func() UdpPack, set func(UdpPack, string), get func(UdpPack) string, maxTok int) {
	keys := [3]string{"password", "user", "host"}
	nt := 1 + zzvf.Choose(maxTok)
	// one separator PER GAP, chosen independently (mixed styles are connection strings
	// "built from key=value tokens separated by spaces or semicolons" too)
	sepKinds := []string{" ", ";"}
	if zzvf.Thorough() {
		sepKinds = []string{" ", ";", "; "}
	}
	var seps [3]string
	for i := 1; i < nt; i++ {
		seps[i] = sepKinds[zzvf.Choose(len(sepKinds))]
	}
	var isPw [3]bool
	var vals [3]string
	npw := 0
	base := 1
	if zzvf.Thorough() {
		base = 1 + zzvf.Choose(2)
	}
	long := zzvf.Choose(nt+1) - 1
	for i := 0; i < nt; i++ {
		ki := zzvf.Choose(3)
		isPw[i] = ki == 0
		if isPw[i] {
			npw++
		}
		n := base
		if long == i {
			n = base + 1 + zzvf.Choose(3-base)
		}
		vals[i] = zzvf.String(n)
		for j := 0; j < n; j++ {
			c := vals[i][j]
			zzvf.Assume(zzvf.Or(zzvf.And(c >= 'a', c <= 'z'), zzvf.And(c >= '0', c <= '9')))
		}
		vals[i] = keys[ki] + "=" + vals[i]
	}
	if npw == 0 { // nothing to mask: shape not of interest
		zzvf.Reach(name + "/mask")
		return
	}
	dbc, rest := "", ""
	for i := 0; i < nt; i++ {
		if i > 0 {
			dbc += seps[i]
			rest += seps[i]
		}
		dbc += vals[i]
		if isPw[i] {
			rest += "password=#"
		} else {
			rest += vals[i]
		}
	}
	for i := 0; i < nt; i++ {
		if isPw[i] {
			zzvf.Assume(zzvf.Not(zzOccurs(vals[i][len("password="):], rest)))
		}
	}
	ver := zzvf.Int32()
	zzvf.Assume(zzvf.Or(ver > 50000, ver <= 20000))
	p := mk()
	p.SetVersion(ver)
	set(p, dbc)
	p.Process()
	out := get(p)
	for i := 0; i < nt; i++ {
		if isPw[i] {
			zzvf.Assert(zzvf.Not(zzOccurs(vals[i][len("password="):], out)), name+"/mask/password-value-absent")
		}
	}
	zzvf.Reach(name + "/mask")
}
