//vf:dir lang/pack/udp
package udp

// C07 (b) — pool residue: one harness per pack type that CreatePack serves (see zzPool).
// Fill leaves maps and the urlutil.URL pointers alone: populated here by hand.

import (
	"github.com/whatap/golib/util/urlutil"
	"github.com/whatap/golib/zzvf"
)

func zzURL() *urlutil.URL { return &urlutil.URL{Url: "h/x", Host: "h", Path: "/x"} }

//vf: paths=2000
func ZZ_C07_Pool_TxStart() {
	zzPool("TxStart", TX_START, zzMkTxStart, func(u UdpPack) {
		p := u.(*UdpTxStartPack)
		p.ServiceURL, p.RefererURL = zzURL(), zzURL()
	}, nil)
}

//vf: paths=2000
func ZZ_C07_Pool_TxStartEnd() {
	zzPool("TxStartEnd", TX_START_END, zzMkTxStartEnd, func(u UdpPack) {
		p := u.(*UdpTxStartEndPack)
		p.ServiceURL, p.RefererURL = zzURL(), zzURL()
	}, nil)
}

//vf: paths=2000
func ZZ_C07_Pool_TxEnd() {
	zzPool("TxEnd", TX_END, zzMkTxEnd, func(u UdpPack) { u.(*UdpTxEndPack).ServiceURL = zzURL() }, nil)
}

//vf: paths=2000
func ZZ_C07_Pool_TxSql() { zzPool("TxSql", TX_SQL, zzMkTxSql, nil, nil) }

//vf: paths=2000
func ZZ_C07_Pool_TxSqlParam() { zzPool("TxSqlParam", TX_SQL_PARAM, zzMkTxSqlParam, nil, nil) }

//vf: paths=2000
func ZZ_C07_Pool_TxHttpc() {
	zzPool("TxHttpc", TX_HTTPC, zzMkTxHttpc, func(u UdpPack) { u.(*UdpTxHttpcPack).HttpcURL = zzURL() }, nil)
}

//vf: paths=2000
func ZZ_C07_Pool_TxError() { zzPool("TxError", TX_ERROR, zzMkTxError, nil, nil) }

//vf: paths=2000
func ZZ_C07_Pool_TxMessage() { zzPool("TxMessage", TX_MSG, zzMkTxMessage, nil, nil) }

//vf: paths=2000
func ZZ_C07_Pool_TxSecureMessage() {
	zzPool("TxSecureMessage", TX_SECURE_MSG, zzMkTxSecureMessage, nil, nil)
}

//vf: paths=2000
func ZZ_C07_Pool_TxMethod() { zzPool("TxMethod", TX_METHOD, zzMkTxMethod, nil, nil) }

//vf: paths=2000
func ZZ_C07_Pool_TxDbc() { zzPool("TxDbc", TX_DB_CONN, zzMkTxDbc, nil, nil) }

//vf: paths=2000
func ZZ_C07_Pool_Relay() {
	zzPool("Relay", RELAY_PACK, zzMkRelay, nil, func(u UdpPack, name string) {
		zzvf.Assert(len(u.(*UdpRelayPack).Data) == 0, name+"/pool/field/Data")
	}, "Data")
}

//vf: paths=2000
func ZZ_C07_Pool_ActiveStack1() { zzPool("ActiveStack1", ACTIVE_STACK_1, zzMkActiveStack1, nil, nil) }

//vf: paths=2000
func ZZ_C07_Pool_ActiveStack() { zzPool("ActiveStack", ACTIVE_STACK, zzMkActiveStack, nil, nil) }

//vf: paths=2000
func ZZ_C07_Pool_TxParam() { zzPool("TxParam", TX_PARAM, zzMkTxParam, nil, nil) }

//vf: paths=2000
func ZZ_C07_Pool_ActiveStats() { zzPool("ActiveStats", ACTIVE_STATS, zzMkActiveStats, nil, nil) }

//vf: paths=2000
func ZZ_C07_Pool_DBConPool() { zzPool("DBConPool", DBCONN_POOL, zzMkDBConPool, nil, nil) }

//vf: paths=2000
func ZZ_C07_Pool_Config() {
	zzPool("Config", CONFIG_INFO, zzMkConfig, func(u UdpPack) {
		p := u.(*UdpConfigPack)
		p.MapData["k"] = zzvf.String(1)
	}, func(u UdpPack, name string) {
		zzvf.Assert(len(u.(*UdpConfigPack).MapData) == 0, name+"/pool/field/MapData")
	}, "MapData")
}

// Factory: CreatePack serves every pack type of the protocol (precondition of reading,
// through ReadPack / ToPack, what ToBytesPack wrote). TX_RESULT_SET (15) is a type of the
// protocol with its own Write/Read (UdpTxResultSetPack).
//vf: paths=2000
func ZZ_C07_Factory() {
	types := []uint8{TX_START, TX_START_END, TX_END, TX_SQL, TX_SQL_PARAM, TX_HTTPC, TX_ERROR, TX_MSG, TX_SECURE_MSG, TX_METHOD,
		TX_DB_CONN, RELAY_PACK, ACTIVE_STACK_1, ACTIVE_STACK, TX_PARAM, ACTIVE_STATS, DBCONN_POOL, CONFIG_INFO, TX_RESULT_SET}
	names := []string{"TxStart", "TxStartEnd", "TxEnd", "TxSql", "TxSqlParam", "TxHttpc", "TxError", "TxMessage", "TxSecureMessage", "TxMethod",
		"TxDbc", "Relay", "ActiveStack1", "ActiveStack", "TxParam", "ActiveStats", "DBConPool", "Config", "TxResultSet"}
	i := zzvf.Choose(len(types))
	ver := zzvf.Int32()
	p := CreatePack(types[i], ver)
	ok := p != nil
	if ok {
		ok = zzvf.And(p.GetPackType() == types[i], p.GetVersion() == ver)
	}
	zzvf.Assert(ok, "Factory/"+names[i]+"/create-returns-pack-of-type")
	zzvf.Reach("Factory")
}
