//vf:dir io
package io

// C05 (a) — DataOutputX.WriteHeader / WriteOneWayHeader alone: whatever was written before
// (0..3 symbolic bytes, or a longer run) is wrapped as
//
//	source byte, version byte, 8-byte project code, 8-byte license hash, 4-byte length, payload
//
// for ALL source/version bytes, project codes and hashes.

import "github.com/whatap/golib/zzvf"

func zz5ioBE(v uint64, n int) []byte {
	b := make([]byte, n)
	for i := 0; i < n; i++ {
		b[i] = byte(v >> uint(8*(n-1-i)))
	}
	return b
}

func zz5ioHeader(oneway bool, what string) {
	n := []int{0, 1, 3, 300}[zzvf.Choose(4)]
	payload := zzvf.Bytes(n)
	src, ver, pcode, lh := zzvf.Byte(), zzvf.Byte(), zzvf.Int64(), zzvf.Int64()
	out := NewDataOutputX()
	out.WriteBytes(payload)
	if oneway {
		out.WriteOneWayHeader(src, ver, pcode, lh)
	} else {
		out.WriteHeader(src, ver, pcode, lh)
	}
	got := out.ToByteArray()
	zzvf.Assert(len(got) == 22+n, what+"/bytes/total-length")
	if len(got) == 22+n {
		zzvf.Assert(got[0] == src, what+"/bytes/source")
		zzvf.Assert(got[1] == ver, what+"/bytes/version")
		zzvf.Assert(zzvf.Same(got[2:10], zz5ioBE(uint64(pcode), 8)), what+"/bytes/project-code")
		zzvf.Assert(zzvf.Same(got[10:18], zz5ioBE(uint64(lh), 8)), what+"/bytes/license-hash")
		zzvf.Assert(zzvf.Same(got[18:22], zz5ioBE(uint64(n), 4)), what+"/bytes/length")
		zzvf.Assert(zzvf.Same(got[22:], payload), what+"/bytes/payload")
	}
	zzvf.Reach(what)
}

//vf: paths=2000
func ZZ_C05_WriteHeader() { zz5ioHeader(false, "WriteHeader") }

//vf: paths=2000
func ZZ_C05_WriteOneWayHeader() { zz5ioHeader(true, "WriteOneWayHeader") }
