//vf:dir lang/pack
package pack

// C05 — wire conformance: reference primitives and the comparison machinery shared by the
// per-pack harnesses of this directory.
//
// Everything named zz5Ref* is the INDEPENDENT reference encoder: it is written from the
// layout (field order, widths, presence bytes, type codes as literal numbers) and uses only
// the primitives below. It never calls a pack's Write, DataOutputX or the value writers.
// (hash.Hash64 is called on the reference's own bytes where the layout says "hash of the
// encoded tags": the hash function's conformance is C15's business.)

import (
	"math"

	"github.com/whatap/golib/lang/value"
	"github.com/whatap/golib/zzvf"
)

// ---------------------------------------------------------------- reference primitives

// big-endian two's complement of the low n bytes of v
func zz5BE(v uint64, n int) []byte {
	b := make([]byte, n)
	for i := 0; i < n; i++ {
		b[i] = byte(v >> uint(8*(n-1-i)))
	}
	return b
}

func zz5I16(v int16) []byte   { return zz5BE(uint64(v), 2) }
func zz5I32(v int32) []byte   { return zz5BE(uint64(v), 4) }
func zz5I64(v int64) []byte   { return zz5BE(uint64(v), 8) }
func zz5F32(v float32) []byte { return zz5BE(uint64(math.Float32bits(v)), 4) }
func zz5F64(v float64) []byte { return zz5BE(math.Float64bits(v), 8) }

// decimal: length byte 0/1/2/3/4/5/8 followed by the shortest big-endian form
func zz5Dec(v int64) []byte {
	switch {
	case v == 0:
		return []byte{0}
	case v >= -128 && v <= 127:
		return append([]byte{1}, zz5BE(uint64(v), 1)...)
	case v >= -32768 && v <= 32767:
		return append([]byte{2}, zz5BE(uint64(v), 2)...)
	case v >= -8388608 && v <= 8388607:
		return append([]byte{3}, zz5BE(uint64(v), 3)...)
	case v >= -2147483648 && v <= 2147483647:
		return append([]byte{4}, zz5BE(uint64(v), 4)...)
	case v >= -549755813888 && v <= 549755813887:
		return append([]byte{5}, zz5BE(uint64(v), 5)...)
	}
	return append([]byte{8}, zz5BE(uint64(v), 8)...)
}

// blob: 1-byte length up to 253, 255 + 2-byte length up to 65535, 254 + 4-byte length
func zz5Blob(p []byte) []byte {
	n := len(p)
	switch {
	case n == 0:
		return []byte{0}
	case n <= 253:
		return append([]byte{byte(n)}, p...)
	case n <= 65535:
		return append(append([]byte{255}, zz5BE(uint64(n), 2)...), p...)
	}
	return append(append([]byte{254}, zz5BE(uint64(n), 4)...), p...)
}

// text: the blob of its bytes (the empty text is the single byte 0)
func zz5Text(s string) []byte { return zz5Blob([]byte(s)) }

func zz5Bool(b bool) []byte {
	if b {
		return []byte{1}
	}
	return []byte{0}
}

func zz5Cat(parts ...[]byte) []byte {
	var r []byte
	for _, p := range parts {
		r = append(r, p...)
	}
	return r
}

// common header: kind|node == 0 -> decimal(pcode), int32 oid, int64 time;
// otherwise marker 9, decimal(pcode), int32 oid, int32 kind, int32 node, int64 time
func zz5RefHeader(pcode int64, oid, okind, onode int32, time int64) []byte {
	if okind == 0 && onode == 0 {
		return zz5Cat(zz5Dec(pcode), zz5I32(oid), zz5I64(time))
	}
	return zz5Cat([]byte{9}, zz5Dec(pcode), zz5I32(oid), zz5I32(okind), zz5I32(onode), zz5I64(time))
}

// ---------------------------------------------------------------- sections and comparison

// zz5Sec: a named run of reference bytes; one obligation label per section
type zz5Sec struct {
	name string
	b    []byte
}

type zz5Secs []zz5Sec

func (s *zz5Secs) add(name string, parts ...[]byte) {
	*s = append(*s, zz5Sec{name, zz5Cat(parts...)})
}

func (s zz5Secs) bytes() []byte {
	var r []byte
	for _, x := range s {
		r = append(r, x.b...)
	}
	return r
}

// zz5Compare: got equals the concatenation of the sections, section by section. A section
// the writer emits with another width shifts everything behind it; the first failing label
// names the culprit.
func zz5Compare(pack string, got []byte, secs zz5Secs) {
	total := 0
	for _, s := range secs {
		total += len(s.b)
	}
	zzvf.Assert(len(got) == total, pack+"/bytes/total-length")
	off := 0
	for _, s := range secs {
		end := off + len(s.b)
		if end <= len(got) {
			zzvf.Assert(zzvf.Same(got[off:end], s.b), pack+"/bytes/"+s.name)
		} else {
			zzvf.Assert(false, pack+"/bytes/"+s.name)
		}
		off = end
	}
}

// ---------------------------------------------------------------- focus rotation

// zz5Hdr: the header fields of a pack in one of the two header forms; the header form is a
// driver choice, the fields themselves were populated by Fill (Pcode is slot 0).
func zz5HeaderForm(p Pack) {
	if zzvf.Choose(2) == 0 {
		p.SetOKIND(0)
		p.SetONODE(0)
	}
}

// zz5Focus: Fill slot that ranges over all its values in this run (-1: none). While a Fill
// slot is in focus every hook collection has ONE entry and hook decimals stay in 1..100;
// in the run without Fill focus the hook rotates its own decimal slots (zz5HFocus) or
// enumerates the collection sizes (zz5HFocus == -1).
var zz5Focus, zz5HSlot, zz5HFocus int

// zz5Fill: populate p by type with focus rotation; returns nothing, sets zz5Focus.
func zz5Fill(p interface{}, rotate bool) {
	zz5Focus = -1
	if rotate {
		zz5Focus = zzvf.Choose(zzvf.FillCount(p)+1) - 1
	}
	zzvf.Fill(p, zz5Focus, zzvf.Choose(2))
}

// zz5HookBegin(k): k = number of decimal-coded slots the hook creates at maximal sizes
func zz5HookBegin(k int) {
	zz5HSlot, zz5HFocus = 0, -1
	if zz5Focus == -1 && k > 0 {
		zz5HFocus = zzvf.Choose(k+1) - 1
	}
}

func zz5Size(max int) int {
	if zz5Focus >= 0 {
		return 1
	}
	if zz5HFocus >= 0 {
		return max
	}
	return zzvf.Choose(max + 1)
}

func zz5HI64() int64 {
	me := zz5HSlot
	zz5HSlot++
	v := zzvf.Int64()
	if me != zz5HFocus {
		zzvf.Assume(zzvf.And(v >= 1, v <= 100))
	}
	return v
}

func zz5HI32() int32 {
	me := zz5HSlot
	zz5HSlot++
	v := zzvf.Int32()
	if me != zz5HFocus {
		zzvf.Assume(zzvf.And(v >= 1, v <= 100))
	}
	return v
}

func zz5SmallI64() int64 {
	v := zzvf.Int64()
	zzvf.Assume(zzvf.And(v >= 1, v <= 100))
	return v
}

// ---------------------------------------------------------------- tagged values

var zz5SKeys = []string{"p", "y"} // share a bucket of the 101-slot tables (CRC-32 mod 101)
var zz5IKeys = []int32{5, 106}    // likewise

// zz5Val: a tagged value of kind k with symbolic payload and its reference encoding
// (type code as a literal number, then the payload):
//
//	0 decimal (20, decimal)   1 text (50, text)   2 float (30, 4 bytes IEEE)
//	3 double (40, 8 bytes IEEE)   4 boolean (10, 1 byte)   5 null (0)
//
// Decimal payloads stay in the small class unless wide: the width classes are C01/C02's.
func zz5Val(k int, wide bool) (value.Value, []byte) {
	switch k % 6 {
	case 0:
		v := zzvf.Int64()
		if !wide {
			zzvf.Assume(zzvf.And(v >= 1, v <= 100))
		}
		return value.NewDecimalValue(v), zz5Cat([]byte{20}, zz5Dec(v))
	case 1:
		s := zzvf.String(1)
		return value.NewTextValue(s), zz5Cat([]byte{50}, zz5Text(s))
	case 2:
		f := zzvf.Float32()
		return value.NewFloatValue(f), zz5Cat([]byte{30}, zz5F32(f))
	case 3:
		d := zzvf.Float64()
		return value.NewDoubleValue(d), zz5Cat([]byte{40}, zz5F64(d))
	case 4:
		b := zzvf.Bool()
		return value.NewBoolValue(b), zz5Cat([]byte{10}, zz5Bool(b))
	}
	return value.NewNullValue(), []byte{0}
}

// zz5Map: a string-keyed map value with n entries (kinds k0, k0+1, ...) and the reference
// encoding of the TAGGED map: type code 80, decimal count, per entry key text + tagged value
// in insertion order.
func zz5Map(n int, k0 int) (*value.MapValue, []byte) {
	m := value.NewMapValue()
	r := zz5Cat([]byte{80}, zz5Dec(int64(n)))
	for i := 0; i < n; i++ {
		v, vr := zz5Val(k0+i, false)
		m.Put(zz5SKeys[i], v)
		r = zz5Cat(r, zz5Text(zz5SKeys[i]), vr)
	}
	return m, r
}

// zz5IntMap: int-keyed map value; tagged reference encoding: type code 81, decimal count,
// per entry 4-byte key + tagged value.
func zz5IntMap(n int, k0 int) (*value.IntMapValue, []byte) {
	m := value.NewIntMapValue()
	r := zz5Cat([]byte{81}, zz5Dec(int64(n)))
	for i := 0; i < n; i++ {
		v, vr := zz5Val(k0+i, false)
		m.Put(zz5IKeys[i], v)
		r = zz5Cat(r, zz5I32(zz5IKeys[i]), vr)
	}
	return m, r
}

// zz5HashedTags: tags for the path on which the pack hashes its encoded tags, and the
// reference encoding of the tagged map. The writer classifies the hash by decimal length,
// i.e. branches on a CRC of the tag bytes: one tag whose text is ONE symbolic byte is within
// the solver's reach (probe: 1.6 s); two tags / wider symbolic payloads are not (probe: 36
// paths undecided after 3 min), so the two-tag form has concrete contents.
func zz5HashedTags(n int) (*value.MapValue, []byte) {
	m := value.NewMapValue()
	r := zz5Cat([]byte{80}, zz5Dec(int64(n)))
	if n == 1 {
		s := zzvf.String(1)
		m.PutString("p", s)
		return m, zz5Cat(r, zz5Text("p"), []byte{50}, zz5Text(s))
	}
	if n > 0 {
		m.PutString("p", "v")
		r = zz5Cat(r, zz5Text("p"), []byte{50}, zz5Text("v"))
	}
	if n > 1 {
		m.PutLong("y", 77)
		r = zz5Cat(r, zz5Text("y"), []byte{20}, zz5Dec(77))
	}
	return m, r
}
