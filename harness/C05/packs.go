//vf:dir lang/pack
package pack

// C05 — wire conformance of the common header and of the text, parameter, tag-count,
// log-sink, event, zip and hit-map packs (the counter pack is in counter.go, the frame in
// frame.go). Per pack: populate with symbolic field values (zzvf.Fill with focus rotation +
// a hook for what Fill leaves alone), build the reference bytes FROM THE LAYOUT with the
// primitives of ref.go, and compare ToBytesPack(p) with them section by section
// (label "<Pack>/bytes/<section>").
//
// Bounds: collections 0..2 entries, map keys concrete ("p","y"), texts 0..2 symbolic bytes
// (one at a time by focus rotation), one decimal-coded field at a time over its whole range
// (the others in 1..100), both header forms.

import (
	"github.com/whatap/golib/io"
	"github.com/whatap/golib/lang/value"
	"github.com/whatap/golib/util/hash"
	"github.com/whatap/golib/zzvf"
)

// zz5Check: type (2 bytes) + common header + body sections == ToBytesPack(p).
// The reference header is taken from the field values BEFORE the writer runs.
func zz5Check(name string, typ int16, p Pack, a *AbstractPack, body zz5Secs) {
	var secs zz5Secs
	secs.add("pack-type", zz5I16(typ))
	secs.add("header", zz5RefHeader(a.Pcode, a.Oid, a.Okind, a.Onode, a.Time))
	secs = append(secs, body...)
	got := ToBytesPack(p)
	zz5Compare(name, got, secs)
	zzvf.Reach(name)
}

// ---------------------------------------------------------------- (b) common header

// for ALL Pcode/Oid/Okind/Onode/Time (no bound): the short form iff kind|node == 0
//vf: paths=2000
func ZZ_C05_Header() {
	a := &AbstractPack{Pcode: zzvf.Int64(), Oid: zzvf.Int32(), Okind: zzvf.Int32(), Onode: zzvf.Int32(), Time: zzvf.Int64()}
	ref := zz5RefHeader(a.Pcode, a.Oid, a.Okind, a.Onode, a.Time)
	out := io.NewDataOutputX()
	a.Write(out)
	got := out.ToByteArray()
	zzvf.Assert(len(got) == len(ref), "Header/bytes/length")
	zzvf.Assert(zzvf.Same(got, ref), "Header/bytes/all")
	// the first byte tells the forms apart: 9 never is a decimal length byte
	short := zzvf.And(a.Okind == 0, a.Onode == 0)
	zzvf.Assert(zzvf.Implies(zzvf.Not(short), got[0] == 9), "Header/bytes/marker-9-when-kind-or-node")
	zzvf.Assert(zzvf.Implies(short, got[0] <= 8), "Header/bytes/no-marker-when-kind-and-node-zero")
	zzvf.Reach("Header")
}

// ---------------------------------------------------------------- TextPack

// layout: decimal(record count), per record: 1 byte div, int32 hash, text
//vf: paths=20000
func ZZ_C05_TextPack() {
	p := NewTextPack()
	zz5Fill(p, true) // one record with symbolic fields
	// the expected record list is kept by the harness (not read back from the pack): records added
	// through AddText and through the bulk AddTexts, to an empty and to a non-empty pack
	want := append([]TextRec{}, p.records...)
	if zz5Focus == -1 {
		mk := func() TextRec { return TextRec{Div: zzvf.Byte(), Hash: zzvf.Int32(), Text: zzvf.String(1)} }
		switch zzvf.Choose(6) {
		case 0:
			p.records = p.records[:0]
			want = nil
		case 2:
			r := mk()
			p.AddText(r)
			want = append(want, r)
		case 3: // batch of two appended to a non-empty pack
			r1, r2 := mk(), mk()
			p.AddTexts([]TextRec{r1, r2})
			want = append(want, r1, r2)
		case 4: // batch into an empty pack, then a second batch, then a single record
			r1, r2, r3 := mk(), mk(), mk()
			p.records = nil
			p.AddTexts([]TextRec{r1})
			p.AddTexts([]TextRec{r2})
			p.AddText(r3)
			want = []TextRec{r1, r2, r3}
		case 5: // empty batch
			p.AddTexts(nil)
			p.AddTexts([]TextRec{})
		}
	}
	zz5HeaderForm(p)
	var body zz5Secs
	body.add("record-count", zz5Dec(int64(len(want))))
	for i := range want {
		r := want[i]
		body.add("record", []byte{r.Div}, zz5I32(r.Hash), zz5Text(r.Text))
	}
	zz5Check("TextPack", 0x0700, p, &p.AbstractPack, body)
}

// ---------------------------------------------------------------- ParamPack

// layout: int32 id, decimal request, decimal response, decimal(entry count), per entry in
// insertion order: key text, tagged value
//vf: paths=20000
func ZZ_C05_ParamPack() {
	p := NewParamPack()
	zz5Fill(p, true)
	zz5HookBegin(0)
	n := zz5Size(2)
	k0 := 0
	if zz5Focus == -1 {
		k0 = zzvf.Choose(6)
	}
	var entries []byte
	for i := 0; i < n; i++ {
		v, vr := zz5Val(k0+i, false)
		p.Put(zz5SKeys[i], v)
		entries = zz5Cat(entries, zz5Text(zz5SKeys[i]), vr)
	}
	zz5HeaderForm(p)
	var body zz5Secs
	body.add("id", zz5I32(p.Id))
	body.add("request", zz5Dec(p.Request))
	body.add("response", zz5Dec(p.Response))
	body.add("entry-count", zz5Dec(int64(n)))
	body.add("entries", entries)
	zz5Check("ParamPack", 0x0100, p, &p.AbstractPack, body)
}

// ---------------------------------------------------------------- tag packs

// zz5Tags populates a tag map and returns the reference bytes of the tag-hash field and of
// the tagged tag map. Two regimes:
//   - the hash is given (non-zero, symbolic; or anything when there are no tags): it is
//     written as is; tag values symbolic;
//     (hashSlot = Fill slot of the hash member: header slots, Category, then the hash)
//   - the hash is 0 and there are tags: the pack hashes its encoded tags; the reference
//     hashes ITS encoding of the tags with the real hash.Hash64 (one tag with a symbolic
//     text byte, or two tags with concrete contents: see zz5HashedTags).
func zz5Tags(hashField *int64, hashSlot int) (tags *value.MapValue, hashRef, tagsRef []byte, n int) {
	n = zz5Size(2)
	if n > 0 && zz5Focus == -1 && zzvf.Choose(2) == 0 {
		*hashField = 0
		m, r := zz5HashedTags(n)
		return m, zz5Dec(hash.Hash64(r)), r, n
	}
	if n > 0 && zz5Focus == hashSlot {
		// the hash is this run's focus slot (whole range): exclude the value 0 that selects
		// the other regime. (Outside the focus Fill keeps it in 1..100.)
		zzvf.Assume(*hashField != 0)
	}
	m, r := zz5Map(n, 1+zzvf.Choose(2)) // text,float / float,double
	return m, zz5Dec(*hashField), r, n
}

// layout: byte 0 (version), text category, decimal tag hash, tagged map tags, tagged map data
//vf: paths=20000
func ZZ_C05_TagCountPack() {
	p := NewTagCountPack()
	zz5Fill(p, true)
	zz5HookBegin(0)
	tags, hashRef, tagsRef, _ := zz5Tags(&p.tagHash, zzvf.FillCount(&p.AbstractPack)+1)
	p.Tags = tags
	data, dataRef := zz5Map(zz5Size(2), 0) // decimal, text
	p.Data = data
	zz5HeaderForm(p)
	var body zz5Secs
	body.add("version", []byte{0})
	body.add("category", zz5Text(p.Category))
	body.add("tag-hash", hashRef)
	body.add("tags", tagsRef)
	body.add("data", dataRef)
	zz5Check("TagCountPack", 0x1601, p, &p.AbstractPack, body)
}

// layout: byte 0 (version), text category, decimal tag hash, tagged map tags, decimal line,
// text content, presence byte (1 iff there are fields) + tagged map fields
//vf: paths=40000
func ZZ_C05_LogSinkPack() {
	p := NewLogSinkPack()
	zz5Fill(p, true)
	zz5HookBegin(0)
	tags, hashRef, tagsRef, _ := zz5Tags(&p.TagHash, zzvf.FillCount(&p.AbstractPack)+1)
	p.Tags = tags
	var fieldsRef []byte
	switch n := zz5Size(3); n {
	case 3:
		p.Fields = nil
		fieldsRef = []byte{0}
	case 0:
		p.Fields, _ = zz5Map(0, 0) // empty map: absent on the wire
		fieldsRef = []byte{0}
	default:
		f, fr := zz5Map(n, 0)
		p.Fields = f
		fieldsRef = zz5Cat([]byte{1}, fr)
	}
	zz5HeaderForm(p)
	var body zz5Secs
	body.add("version", []byte{0})
	body.add("category", zz5Text(p.Category))
	body.add("tag-hash", hashRef)
	body.add("tags", tagsRef)
	body.add("line", zz5Dec(p.Line))
	body.add("content", zz5Text(p.Content))
	body.add("fields", fieldsRef)
	zz5Check("LogSinkPack", 0x170a, p, &p.AbstractPack, body)
}

// ---------------------------------------------------------------- EventPack

// zz5Itoa: decimal text of v (|v| <= 99999), written without strconv/fmt
func zz5Itoa(v int32) string {
	neg := v < 0
	u := v
	if neg {
		u = -v
	}
	var d []byte
	started := false
	for _, pw := range []int32{10000, 1000, 100, 10} {
		if started || u >= pw {
			d = append(d, byte('0'+(u/pw)%10))
			started = true
		}
	}
	d = append(d, byte('0'+u%10))
	if neg {
		return "-" + string(d)
	}
	return string(d)
}

// layout: 1 byte level, text title, text message, 1 byte attribute count, per attribute key
// text + value text: the user's attributes in insertion order, then "_uuid_" (only when the
// uuid is not empty), "_esca_" ("true"/"false"), "_status_" and "_otype_" (decimal text).
// Status/Otype: |v| <= 999 (thorough 9999): the digit model is a chain of divisions.
//vf: paths=40000
func ZZ_C05_EventPack() {
	p := NewEventPack()
	zz5Fill(p, true)
	lim := int32(999)
	if zzvf.Thorough() {
		lim = 9999
	}
	zzvf.Assume(zzvf.And(p.Status >= -lim, p.Status <= lim))
	zzvf.Assume(zzvf.And(p.Otype >= -lim, p.Otype <= lim))
	zz5HookBegin(0)
	n := zz5Size(2)
	var attrs []byte
	for i := 0; i < n; i++ {
		v := zzvf.String(1)
		p.Attr.Put(zz5SKeys[i], v)
		attrs = zz5Cat(attrs, zz5Text(zz5SKeys[i]), zz5Text(v))
	}
	zz5HeaderForm(p)
	cnt := n + 3
	var uuid []byte
	if p.Uuid != "" {
		cnt++
		uuid = zz5Cat(zz5Text("_uuid_"), zz5Text(p.Uuid))
	}
	esca := "false"
	if p.Escalation {
		esca = "true"
	}
	var body zz5Secs
	body.add("level", []byte{p.Level})
	body.add("title", zz5Text(p.Title))
	body.add("message", zz5Text(p.Message))
	body.add("attr-count", []byte{byte(cnt)})
	body.add("attr-user", attrs)
	body.add("attr-uuid", uuid)
	body.add("attr-escalation", zz5Text("_esca_"), zz5Text(esca))
	body.add("attr-status", zz5Text("_status_"), zz5Text(zz5Itoa(p.Status)))
	body.add("attr-otype", zz5Text("_otype_"), zz5Text(zz5Itoa(p.Otype)))
	zz5Check("EventPack", 0x1400, p, &p.AbstractPack, body)
}

// ---------------------------------------------------------------- ZipPack

// layout: 1 byte status, decimal(record count), blob records (uncompressed: gzip is outside)
//vf: paths=20000
func ZZ_C05_ZipPack() {
	p := NewZipPack()
	zz5Fill(p, true)
	if zz5Focus == -1 { // blob length classes
		// 65535 / 65536: all bytes symbolic in the thorough tier; in the quick tier zero bytes
		// with a symbolic last one (the length class is what matters)
		sizes := []int{1, 253, 254, 300, 65535, 65536}
		if k := sizes[zzvf.Choose(len(sizes))]; k > 1 {
			if k > 300 && !zzvf.Thorough() {
				b := make([]byte, k)
				b[k-1] = zzvf.Byte()
				p.Records = b
			} else {
				p.Records = zzvf.Bytes(k)
			}
		}
	}
	zz5HeaderForm(p)
	var body zz5Secs
	body.add("status", []byte{p.Status})
	body.add("record-count", zz5Dec(int64(p.RecordCount)))
	body.add("records", zz5Blob(p.Records))
	zz5Check("ZipPack", 0x170b, p, &p.AbstractPack, body)
}

// ---------------------------------------------------------------- HitMapPack1

// layout: byte 1 (version), 120 cells of 2-byte hit count + 2-byte error count (the low
// 16 bits of the counters), interleaved
//vf: paths=2000
func ZZ_C05_HitMapPack1() {
	p := NewHitMapPack1()
	f := zzvf.Choose(zzvf.FillCount(&p.AbstractPack)+1) - 1
	zzvf.Fill(&p.AbstractPack, f, 0)
	var cells []byte
	for i := 0; i < 120; i++ {
		h, e := zzvf.Int32(), zzvf.Int32()
		p.Hit[i], p.Error[i] = h, e
		cells = zz5Cat(cells, zz5BE(uint64(h), 2), zz5BE(uint64(e), 2))
	}
	zz5HeaderForm(p)
	var body zz5Secs
	body.add("version", []byte{1})
	body.add("cells", cells)
	zzvf.Assert(len(p.Hit) == 120 && len(p.Error) == 120, "HitMapPack1/constructor-120-cells")
	zz5Check("HitMapPack1", 0x1501, p, &p.AbstractPack, body)
}
