//vf:dir net/oneway
package oneway

// C05 (a) — the one-way TCP frame built by the real frame builder (OneWayTcpClient.makeData
// -> DataOutputX.WriteHeader) around a small pack:
//
//	byte 10 (source), byte 0 (version), 8-byte big-endian project code of the pack,
//	8-byte hash of the license text in effect, 4-byte big-endian length L,
//	L bytes = 2-byte pack type + pack body;  L == 2 + len(body)
//
// The license in effect is the per-send override when one is given and not empty, else the
// client's license. The reference calls the real hash.Hash64Str on ITS OWN string: identical
// inputs give identical terms (no CRC reasoning); a change of WHAT is hashed gives a
// counterexample. The pack body is the reference encoding of a text pack (see packs.go),
// repeated here with local primitives because this is another package.
//
// Bounds: licenses of 0..2 symbolic bytes (client and override), override absent / empty /
// 1 / 2 bytes; text pack with 0..1 records, text of 0..2 symbolic bytes; project code, object
// id, kind, node, time, div, hash over all their values.

import (
	"github.com/whatap/golib/lang/pack"
	wnet "github.com/whatap/golib/net"
	whash "github.com/whatap/golib/util/hash"
	"github.com/whatap/golib/zzvf"
)

func zz5fBE(v uint64, n int) []byte {
	b := make([]byte, n)
	for i := 0; i < n; i++ {
		b[i] = byte(v >> uint(8*(n-1-i)))
	}
	return b
}

func zz5fDec(v int64) []byte {
	switch {
	case v == 0:
		return []byte{0}
	case v >= -128 && v <= 127:
		return append([]byte{1}, zz5fBE(uint64(v), 1)...)
	case v >= -32768 && v <= 32767:
		return append([]byte{2}, zz5fBE(uint64(v), 2)...)
	case v >= -8388608 && v <= 8388607:
		return append([]byte{3}, zz5fBE(uint64(v), 3)...)
	case v >= -2147483648 && v <= 2147483647:
		return append([]byte{4}, zz5fBE(uint64(v), 4)...)
	case v >= -549755813888 && v <= 549755813887:
		return append([]byte{5}, zz5fBE(uint64(v), 5)...)
	}
	return append([]byte{8}, zz5fBE(uint64(v), 8)...)
}

func zz5fText(s string) []byte {
	if len(s) == 0 {
		return []byte{0}
	}
	return append([]byte{byte(len(s))}, []byte(s)...) // short texts only (<= 253 bytes)
}

func zz5fCat(parts ...[]byte) []byte {
	var r []byte
	for _, p := range parts {
		r = append(r, p...)
	}
	return r
}

// zz5fPack: a text pack with symbolic members and the reference encoding of its body
func zz5fPack() (pack.Pack, int64, []byte) {
	p := pack.NewTextPack()
	p.Pcode, p.Oid, p.Time = zzvf.Int64(), zzvf.Int32(), zzvf.Int64()
	var hdr []byte
	if zzvf.Choose(2) == 0 {
		hdr = zz5fCat(zz5fDec(p.Pcode), zz5fBE(uint64(p.Oid), 4), zz5fBE(uint64(p.Time), 8))
	} else {
		p.Okind, p.Onode = zzvf.Int32(), zzvf.Int32()
		zzvf.Assume(zzvf.Or(p.Okind != 0, p.Onode != 0))
		hdr = zz5fCat([]byte{9}, zz5fDec(p.Pcode), zz5fBE(uint64(p.Oid), 4), zz5fBE(uint64(p.Okind), 4), zz5fBE(uint64(p.Onode), 4), zz5fBE(uint64(p.Time), 8))
	}
	body := hdr
	if tl := zzvf.Choose(4); tl == 3 {
		body = zz5fCat(body, zz5fDec(0))
	} else {
		r := pack.TextRec{Div: zzvf.Byte(), Hash: zzvf.Int32(), Text: zzvf.String(tl)}
		p.AddText(r)
		body = zz5fCat(body, zz5fDec(1), []byte{r.Div}, zz5fBE(uint64(r.Hash), 4), zz5fText(r.Text))
	}
	return p, p.Pcode, body
}

//vf: paths=20000
func ZZ_C05_Frame() {
	lic := zzvf.String(zzvf.Choose(3))
	c := &OneWayTcpClient{License: lic, Pcode: zzvf.Int64(), Oid: zzvf.Int32()} // the client's own pcode is NOT what travels
	eff := lic
	var opts []wnet.TcpClientOption
	switch ov := zzvf.Choose(4); ov {
	case 0: // no per-send option
	case 1: // empty override = none
		opts = append(opts, wnet.WithLicense(""))
	default:
		o := zzvf.String(ov - 1)
		opts = append(opts, wnet.WithLicense(o))
		eff = o
	}
	if zzvf.Choose(2) == 0 { // unrelated options do not disturb the frame
		opts = append(opts, wnet.WithPriority(true), wnet.WithSecureFlag(zzvf.Byte()))
	}
	p, pcode, body := zz5fPack()

	got := c.makeData(&wnet.TcpSend{Pack: p, Opts: opts}).ToByteArray()

	payload := zz5fCat(zz5fBE(0x0700, 2), body)
	zzvf.Assert(len(got) == 22+len(payload), "Frame/bytes/total-length")
	if len(got) >= 22 {
		zzvf.Assert(got[0] == 10, "Frame/bytes/source-10")
		zzvf.Assert(got[1] == 0, "Frame/bytes/version-0")
		zzvf.Assert(zzvf.Same(got[2:10], zz5fBE(uint64(pcode), 8)), "Frame/bytes/project-code")
		zzvf.Assert(zzvf.Same(got[10:18], zz5fBE(uint64(whash.Hash64Str(eff)), 8)), "Frame/bytes/license-hash")
		zzvf.Assert(zzvf.Same(got[18:22], zz5fBE(uint64(len(payload)), 4)), "Frame/bytes/length")
		zzvf.Assert(zzvf.Same(got[18:22], zz5fBE(uint64(2+len(body)), 4)), "Frame/bytes/length-is-2-plus-body")
		zzvf.Assert(len(got)-22 == 2+len(body), "Frame/bytes/exactly-length-bytes-follow")
		if len(got) >= 24 {
			zzvf.Assert(zzvf.Same(got[22:24], zz5fBE(0x0700, 2)), "Frame/bytes/pack-type")
			zzvf.Assert(zzvf.Same(got[24:], body), "Frame/bytes/pack-body")
		}
	}
	zzvf.Reach("Frame")
}

// the same client after its default license was changed (exported field; ApplyConfig assigns
// it): each frame carries the hash of the license in effect when it is built
//vf: paths=2000
func ZZ_C05_FrameLicenseChange() {
	l1, l2 := zzvf.String(2), zzvf.String(zzvf.Choose(3))
	c := &OneWayTcpClient{License: l1}
	p, pcode, _ := zz5fPack()
	g1 := c.makeData(&wnet.TcpSend{Pack: p}).ToByteArray()
	c.License = l2
	g2 := c.makeData(&wnet.TcpSend{Pack: p}).ToByteArray()
	g3 := c.makeData(&wnet.TcpSend{Pack: p, Opts: []wnet.TcpClientOption{wnet.WithLicense("o")}}).ToByteArray()
	g4 := c.makeData(&wnet.TcpSend{Pack: p}).ToByteArray()
	if len(g1) >= 18 && len(g2) >= 18 && len(g3) >= 18 && len(g4) >= 18 {
		zzvf.Assert(zzvf.Same(g1[10:18], zz5fBE(uint64(whash.Hash64Str(l1)), 8)), "FrameLicenseChange/first-license")
		zzvf.Assert(zzvf.Same(g2[10:18], zz5fBE(uint64(whash.Hash64Str(l2)), 8)), "FrameLicenseChange/changed-license")
		zzvf.Assert(zzvf.Same(g3[10:18], zz5fBE(uint64(whash.Hash64Str("o")), 8)), "FrameLicenseChange/override")
		zzvf.Assert(zzvf.Same(g4[10:18], zz5fBE(uint64(whash.Hash64Str(l2)), 8)), "FrameLicenseChange/default-again-after-override")
		zzvf.Assert(zzvf.Same(g2[2:10], zz5fBE(uint64(pcode), 8)), "FrameLicenseChange/project-code")
	}
	zzvf.Reach("FrameLicenseChange")
}

// licenses with bytes >= 0x80 (concrete: the CRC is then computed by the interpreter, no
// solver): the frame carries the hash of the license's BYTES (reference: the byte-slice
// form of the hash over []byte(license))
//vf: paths=5000
func ZZ_C05_FrameNonAsciiLicense() {
	lics := []string{"ライセンス", "cl\xe9", "\xff\xfe", "plain"}
	lic := lics[zzvf.Choose(len(lics))]
	ov := lics[zzvf.Choose(len(lics))]
	c := &OneWayTcpClient{License: lic}
	p, _, _ := zz5fPack()
	g1 := c.makeData(&wnet.TcpSend{Pack: p}).ToByteArray()
	g2 := c.makeData(&wnet.TcpSend{Pack: p, Opts: []wnet.TcpClientOption{wnet.WithLicense(ov)}}).ToByteArray()
	if len(g1) >= 18 && len(g2) >= 18 {
		zzvf.Assert(zzvf.Same(g1[10:18], zz5fBE(uint64(whash.Hash64([]byte(lic))), 8)), "FrameNonAsciiLicense/client-license-bytes-hashed")
		zzvf.Assert(zzvf.Same(g2[10:18], zz5fBE(uint64(whash.Hash64([]byte(ov))), 8)), "FrameNonAsciiLicense/override-license-bytes-hashed")
	}
	zzvf.Reach("FrameNonAsciiLicense")
}
