//vf:dir lang/pack
package pack

// C05 — wire conformance of CounterPack1. Layout (derived once from the writer, encoded here
// with the reference primitives only): type 0x0201, common header, then ONE blob whose
// content is, in this order (dec = decimal, f32 = 4-byte IEEE float):
//
//	time-heap      dec Duration Cputime HeapTot HeapUse HeapPerm HeapPendingFinalization
//	gc             dec GcCount GcTime
//	service        dec ServiceCount ServiceError ServiceTime
//	sql            dec SqlCount SqlError SqlTime SqlFetchCount SqlFetchTime
//	httpc          dec HttpcCount HttpcError HttpcTime
//	active-svc     dec ActSvcCount; 1 byte n + n int16 (ActSvcSlice; nil = 0)
//	cpu            f32 Cpu CpuSys CpuUsr CpuWait CpuSteal CpuIrq CpuProc; dec CpuCores
//	mem-swap-disk  f32 Mem Swap Disk
//	thread         dec ThreadTotalStarted ThreadCount ThreadDaemon ThreadPeakCount
//	db-num         byte 0 | byte 1 + two tables (active, idle): dec n, n x (dec key, dec value)
//	               (present only when BOTH tables exist)
//	netstat        byte 0 | byte 1 + dec Est FinW CloW TimW
//	proc           dec ProcFd; f32 Tps; dec RespTime; int16 ApType
//	websocket      byte 0 | byte 1 + dec Count In Out
//	start-host     dec Starttime PackDropped HostIp MacHash
//	extra          byte 0 | byte 1 + tagged int-keyed map (81, dec n, n x (int32 key, tagged value))
//	pid-active-stat int32 Pid; 1 byte n + n int16 (ActiveStat)
//	threadpool     dec ThreadPoolActiveCount ThreadPoolQueueSize
//	txcaller-oid-meter    dec 0 | byte 9, dec n, n x (int32 key, dec Time Count Error Actx)
//	sql-meter             dec 0 | byte 9, dec n, n x (int32 key, dec Time Count Error Actx FetchCount FetchTime)
//	httpc-meter           dec 0 | byte 9, dec n, n x (int32 key, dec Time Count Error Actx)
//	txcaller-group-meter  dec 0 | byte 9, dec n, n x (dec pcode, dec okind, dec Time Count Error Actx)
//	okind-meter-deprecated dec 0
//	txcaller-unknown      byte 0 | byte 2 + dec Time Count Error Actx
//	container-key  dec ContainerKey
//	tx-times       f32 TxDbcTime TxSqlTime TxHttpcTime
//	apdex          dec ApdexSatisfied ApdexTolerated
//	arrival-rate   f32 ArrivalRate
//	gc-oldgen-version-heapmax  dec GcOldgenCount; 1 byte Version; dec HeapMax
//	procfdmax-metering-apdextotal  dec ProcFdMax; f32 Metering; dec ApdexTotal
//	txcaller-poid-meter   dec n (NO marker byte; nil = 0), n x (dec pcode, dec oid, dec Time Count Error Actx)
//	resp-percentiles      dec Resp90 Resp95 TimeSqrSum
//
// Harnesses: _Fixed (every scalar by focus rotation, netstat/websocket/unknown present as
// populated by Fill, tables absent), one per optional section (present in all its sizes /
// absent, the rest absent), _All (everything present at once).

import (
	"github.com/whatap/golib/lang"
	"github.com/whatap/golib/util/hmap"
	"github.com/whatap/golib/zzvf"
)

// zz5COpt: reference bytes of the table-valued sections, produced while the tables are
// populated (nil = section absent: the reference emits the absent form).
type zz5COpt struct {
	dbnum, dbnumAlt, extra, oid, sql, httpc, group, poid []byte
}

func zz5I16s(a []int16) []byte {
	r := []byte{byte(len(a))}
	for _, v := range a {
		r = append(r, zz5I16(v)...)
	}
	return r
}

func zz5RefMeter(m *TxMeter) []byte {
	return zz5Cat(zz5Dec(m.Time), zz5Dec(int64(m.Count)), zz5Dec(int64(m.Error)), zz5Dec(int64(m.Actx)))
}

func zz5Or0(b []byte) []byte {
	if b == nil {
		return []byte{0}
	}
	return b
}

// zz5RefCounterBody: the sections of the blob content
func zz5RefCounterBody(p *CounterPack1, o *zz5COpt) zz5Secs {
	d := func(v int64) []byte { return zz5Dec(v) }
	d32 := func(v int32) []byte { return zz5Dec(int64(v)) }
	var s zz5Secs
	s.add("time-heap", d32(p.Duration), d(p.Cputime), d(p.HeapTot), d(p.HeapUse), d(p.HeapPerm), d32(p.HeapPendingFinalization))
	s.add("gc", d32(p.GcCount), d(p.GcTime))
	s.add("service", d32(p.ServiceCount), d32(p.ServiceError), d(p.ServiceTime))
	s.add("sql", d32(p.SqlCount), d32(p.SqlError), d(p.SqlTime), d(p.SqlFetchCount), d(p.SqlFetchTime))
	s.add("httpc", d32(p.HttpcCount), d32(p.HttpcError), d(p.HttpcTime))
	s.add("active-svc", d32(p.ActSvcCount), zz5I16s(p.ActSvcSlice))
	s.add("cpu", zz5F32(p.Cpu), zz5F32(p.CpuSys), zz5F32(p.CpuUsr), zz5F32(p.CpuWait), zz5F32(p.CpuSteal), zz5F32(p.CpuIrq), zz5F32(p.CpuProc), d32(p.CpuCores))
	s.add("mem-swap-disk", zz5F32(p.Mem), zz5F32(p.Swap), zz5F32(p.Disk))
	s.add("thread", d(p.ThreadTotalStarted), d32(p.ThreadCount), d32(p.ThreadDaemon), d32(p.ThreadPeakCount))
	s.add("db-num", zz5Or0(o.dbnum))
	if n := p.Netstat; n != nil {
		s.add("netstat", []byte{1}, d32(n.Est), d32(n.FinW), d32(n.CloW), d32(n.TimW))
	} else {
		s.add("netstat", []byte{0})
	}
	s.add("proc", d32(p.ProcFd), zz5F32(p.Tps), d32(p.RespTime), zz5I16(p.ApType))
	if w := p.Websocket; w != nil {
		s.add("websocket", []byte{1}, d32(w.Count), d(w.In), d(w.Out))
	} else {
		s.add("websocket", []byte{0})
	}
	s.add("start-host", d(p.Starttime), d(p.PackDropped), d32(p.HostIp), d32(p.MacHash))
	s.add("extra", zz5Or0(o.extra))
	s.add("pid-active-stat", zz5I32(p.Pid), zz5I16s(p.ActiveStat))
	s.add("threadpool", d32(p.ThreadPoolActiveCount), d32(p.ThreadPoolQueueSize))
	s.add("txcaller-oid-meter", zz5Or0(o.oid))
	s.add("sql-meter", zz5Or0(o.sql))
	s.add("httpc-meter", zz5Or0(o.httpc))
	s.add("txcaller-group-meter", zz5Or0(o.group))
	s.add("okind-meter-deprecated", []byte{0})
	if u := p.TxcallerUnknown; u != nil {
		s.add("txcaller-unknown", []byte{2}, zz5RefMeter(u))
	} else {
		s.add("txcaller-unknown", []byte{0})
	}
	s.add("container-key", d32(p.ContainerKey))
	s.add("tx-times", zz5F32(p.TxDbcTime), zz5F32(p.TxSqlTime), zz5F32(p.TxHttpcTime))
	s.add("apdex", d32(p.ApdexSatisfied), d32(p.ApdexTolerated))
	s.add("arrival-rate", zz5F32(p.ArrivalRate))
	s.add("gc-oldgen-version-heapmax", d32(p.GcOldgenCount), []byte{p.Version}, d(p.HeapMax))
	s.add("procfdmax-metering-apdextotal", d32(p.ProcFdMax), zz5F32(p.Metering), d32(p.ApdexTotal))
	s.add("txcaller-poid-meter", zz5Or0(o.poid))
	s.add("resp-percentiles", d32(p.Resp90), d32(p.Resp95), d(p.TimeSqrSum))
	return s
}

// zz5CheckCounter: type + header + blob length header + content sections. The content is
// compared section by section at its offsets inside the blob.
func zz5CheckCounter(name string, p *CounterPack1, o *zz5COpt) {
	body := zz5RefCounterBody(p, o)
	n := 0
	for _, x := range body {
		n += len(x.b)
	}
	var lenHdr []byte // the blob's length header alone
	switch {
	case n <= 253: // (never 0: the fixed part alone is longer)
		lenHdr = []byte{byte(n)}
	case n <= 65535:
		lenHdr = zz5Cat([]byte{255}, zz5BE(uint64(n), 2))
	default:
		lenHdr = zz5Cat([]byte{254}, zz5BE(uint64(n), 4))
	}
	var all zz5Secs
	all.add("blob-length", lenHdr)
	all = append(all, body...)
	zz5Check(name, 0x0201, p, &p.AbstractPack, all)
}

// ---------------------------------------------------------------- population of the tables

var zz5PCodes = []int64{7, 1 << 40}
var zz5OKinds = []int32{3, -1}

func zz5Meter(m *TxMeter) {
	m.Time, m.Count, m.Error, m.Actx = zz5HI64(), zz5HI32(), zz5HI32(), zz5HI32()
}

// zz5Absent: drop what Fill allocated / leave every optional section absent
func zz5Absent(p *CounterPack1) {
	p.Netstat, p.Websocket, p.TxcallerUnknown = nil, nil, nil
}

// zz5CounterSection populates one optional section (the others stay as they are)
func zz5CounterSection(p *CounterPack1, o *zz5COpt, section string) {
	switch section {
	case "DbNum":
		// shapes: none / only active / only idle (both: absent on the wire) / both with 0..2 entries
		shape := zzvf.Choose(4)
		if zz5Focus >= 0 || zz5HFocus >= 0 {
			shape = 3
		}
		switch shape {
		case 1:
			p.DbNumActive = hmap.NewIntIntMap(7, 1)
			p.DbNumActive.Put(5, zz5SmallI32())
		case 2:
			p.DbNumIdle = hmap.NewIntIntMap(7, 1)
			p.DbNumIdle.Put(5, zz5SmallI32())
		case 3:
			n := zz5Size(2)
			p.DbNumActive = hmap.NewIntIntMap(7, 1)
			p.DbNumIdle = hmap.NewIntIntMap(7, 1)
			// the tables are plain hash tables: the layout does not fix the entry order, so
			// with two entries the reference accepts both orders (dbnum / dbnumAlt)
			var ea, ei [][]byte
			for i := 0; i < n; i++ {
				a, b := zz5HI32(), zz5HI32()
				p.DbNumActive.Put(zz5IKeys[i], a)
				p.DbNumIdle.Put(zz5IKeys[i], b)
				ea = append(ea, zz5Cat(zz5Dec(int64(zz5IKeys[i])), zz5Dec(int64(a))))
				ei = append(ei, zz5Cat(zz5Dec(int64(zz5IKeys[i])), zz5Dec(int64(b))))
			}
			cnt := zz5Dec(int64(n))
			o.dbnum = zz5Cat([]byte{1}, cnt, zz5Cat(ea...), cnt, zz5Cat(ei...))
			if n == 2 {
				o.dbnumAlt = zz5Cat([]byte{1}, cnt, ea[1], ea[0], cnt, ei[1], ei[0])
			}
		}
	case "Netstat":
		p.Netstat = &NETSTAT{Est: zz5HI32(), FinW: zz5HI32(), TimW: zz5HI32(), CloW: zz5HI32()}
	case "Websocket":
		p.Websocket = &WEBSOCKET{Count: zz5HI32(), In: zz5HI64(), Out: zz5HI64()}
	case "Extra":
		n := zz5Size(2)
		m, r := zz5IntMap(n, zzvf.Choose(3)*2) // decimal,text / float,double / bool,null
		p.Extra = m
		o.extra = zz5Cat([]byte{1}, r)
	case "Unknown":
		p.TxcallerUnknown = new(TxMeter)
		zz5Meter(p.TxcallerUnknown)
	case "OidMeter":
		n := zz5Size(2)
		p.TxcallerOidMeter = hmap.NewIntKeyLinkedMapDefault()
		o.oid = zz5Cat([]byte{9}, zz5Dec(int64(n)))
		for i := 0; i < n; i++ {
			m := new(TxMeter)
			zz5Meter(m)
			p.TxcallerOidMeter.Put(zz5IKeys[i], m)
			o.oid = zz5Cat(o.oid, zz5I32(zz5IKeys[i]), zz5RefMeter(m))
		}
	case "SqlMeter":
		n := zz5Size(2)
		p.SqlMeter = hmap.NewIntKeyLinkedMapDefault()
		o.sql = zz5Cat([]byte{9}, zz5Dec(int64(n)))
		for i := 0; i < n; i++ {
			m := new(SqlMeter)
			zz5Meter(&m.TxMeter)
			m.FetchCount, m.FetchTime = zz5HI64(), zz5HI64()
			p.SqlMeter.Put(zz5IKeys[i], m)
			o.sql = zz5Cat(o.sql, zz5I32(zz5IKeys[i]), zz5RefMeter(&m.TxMeter), zz5Dec(m.FetchCount), zz5Dec(m.FetchTime))
		}
	case "HttpcMeter":
		n := zz5Size(2)
		p.HttpcMeter = hmap.NewIntKeyLinkedMapDefault()
		o.httpc = zz5Cat([]byte{9}, zz5Dec(int64(n)))
		for i := 0; i < n; i++ {
			m := new(HttpcMeter)
			zz5Meter(&m.TxMeter)
			p.HttpcMeter.Put(zz5IKeys[i], m)
			o.httpc = zz5Cat(o.httpc, zz5I32(zz5IKeys[i]), zz5RefMeter(&m.TxMeter))
		}
	case "GroupMeter":
		n := zz5Size(2)
		p.TxcallerGroupMeter = hmap.NewLinkedMapDefault()
		o.group = zz5Cat([]byte{9}, zz5Dec(int64(n)))
		for i := 0; i < n; i++ {
			m := new(TxMeter)
			zz5Meter(m)
			p.TxcallerGroupMeter.Put(lang.NewPKIND(zz5PCodes[i], zz5OKinds[i]), m)
			o.group = zz5Cat(o.group, zz5Dec(zz5PCodes[i]), zz5Dec(int64(zz5OKinds[i])), zz5RefMeter(m))
		}
	case "POidMeter":
		n := zz5Size(2)
		p.TxcallerPOidMeter = hmap.NewLinkedMapDefault()
		o.poid = zz5Dec(int64(n))
		for i := 0; i < n; i++ {
			m := new(TxMeter)
			zz5Meter(m)
			p.TxcallerPOidMeter.Put(lang.NewPOID(zz5PCodes[i], zz5OKinds[i]), m)
			o.poid = zz5Cat(o.poid, zz5Dec(zz5PCodes[i]), zz5Dec(int64(zz5OKinds[i])), zz5RefMeter(m))
		}
	}
}

func zz5SmallI32() int32 {
	v := zzvf.Int32()
	zzvf.Assume(zzvf.And(v >= 1, v <= 100))
	return v
}

// zz5CounterOne: one optional section present (k = its decimal-coded slots at maximal
// size, rotated one at a time over their whole range), the others absent; the scalars in
// the small class (they rotate in _Fixed).
func zz5CounterOne(section string, k int) {
	p := NewCounterPack1()
	zz5Fill(p, false)
	zz5Absent(p)
	zz5HookBegin(k)
	o := &zz5COpt{}
	zz5CounterSection(p, o, section)
	zz5HeaderForm(p)
	name := "CounterPack1+" + section
	if o.dbnumAlt != nil {
		zz5CheckCounterAlt(name, p, o)
		return
	}
	zz5CheckCounter(name, p, o)
}

// zz5CheckCounterAlt: two admissible references (entry order of the db-num tables): the
// encoding must equal one of them as a whole; the sections outside db-num are additionally
// compared one by one against the first (both have the same lengths).
func zz5CheckCounterAlt(name string, p *CounterPack1, o *zz5COpt) {
	o2 := *o
	o2.dbnum = o.dbnumAlt
	s1, s2 := zz5RefCounterBody(p, o), zz5RefCounterBody(p, &o2)
	hdr := zz5Cat(zz5I16(0x0201), zz5RefHeader(p.Pcode, p.Oid, p.Okind, p.Onode, p.Time))
	b1, b2 := s1.bytes(), s2.bytes()
	r1 := zz5Cat(hdr, zz5Blob(b1))
	r2 := zz5Cat(hdr, zz5Blob(b2))
	got := ToBytesPack(p)
	zzvf.Assert(len(got) == len(r1), name+"/bytes/total-length")
	zzvf.Assert(zzvf.Or(zzvf.Same(got, r1), zzvf.Same(got, r2)), name+"/bytes/db-num-either-entry-order")
	zzvf.Reach(name)
}

// ---------------------------------------------------------------- harnesses

// every scalar member over its whole range, one at a time; both header forms; netstat,
// websocket and the unknown-caller meter present (populated by Fill, their members rotate
// too); tables absent
//vf: paths=40000
func ZZ_C05_CounterPack1_Fixed() {
	p := NewCounterPack1()
	zz5Fill(p, true)
	zz5HeaderForm(p)
	zz5CheckCounter("CounterPack1", p, &zz5COpt{})
}

// every optional section absent at once (all presence bytes 0)
//vf: paths=2000
func ZZ_C05_CounterPack1_AllAbsent() {
	p := NewCounterPack1()
	zz5Fill(p, false)
	zz5Absent(p)
	if zzvf.Choose(2) == 0 { // the short arrays absent as well
		p.ActSvcSlice, p.ActiveStat = nil, nil
	}
	zz5HeaderForm(p)
	zz5CheckCounter("CounterPack1+none", p, &zz5COpt{})
}

//vf: paths=20000
func ZZ_C05_CounterPack1_DbNum() { zz5CounterOne("DbNum", 4) }

//vf: paths=20000
func ZZ_C05_CounterPack1_Netstat() { zz5CounterOne("Netstat", 4) }

//vf: paths=20000
func ZZ_C05_CounterPack1_Websocket() { zz5CounterOne("Websocket", 3) }

//vf: paths=20000
func ZZ_C05_CounterPack1_Extra() { zz5CounterOne("Extra", 0) }

//vf: paths=20000
func ZZ_C05_CounterPack1_Unknown() { zz5CounterOne("Unknown", 4) }

//vf: paths=20000
func ZZ_C05_CounterPack1_OidMeter() { zz5CounterOne("OidMeter", 8) }

//vf: paths=20000
func ZZ_C05_CounterPack1_SqlMeter() { zz5CounterOne("SqlMeter", 12) }

//vf: paths=20000
func ZZ_C05_CounterPack1_HttpcMeter() { zz5CounterOne("HttpcMeter", 8) }

//vf: paths=20000
func ZZ_C05_CounterPack1_GroupMeter() { zz5CounterOne("GroupMeter", 8) }

//vf: paths=20000
func ZZ_C05_CounterPack1_POidMeter() { zz5CounterOne("POidMeter", 8) }

// everything present at once (one entry per table; all values in the small class)
//vf: paths=2000
func ZZ_C05_CounterPack1_All() {
	p := NewCounterPack1()
	zz5Fill(p, false)
	zz5Focus = 0 // sizes 1
	zz5HSlot, zz5HFocus = 0, -1
	o := &zz5COpt{}
	for _, s := range []string{"DbNum", "Extra", "OidMeter", "SqlMeter", "HttpcMeter", "GroupMeter", "POidMeter"} {
		zz5CounterSection(p, o, s)
	}
	zz5HeaderForm(p)
	zz5CheckCounter("CounterPack1+all", p, o)
}
