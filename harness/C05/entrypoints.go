//vf:dir lang/pack
package pack

// C05 — the listed packs populated through their PUBLIC mutators instead of by assigning members
// (the other harnesses assign members or use one mutator per pack): ParamPack.PutString / PutLong /
// SetMapValue, TagCountPack.PutTag and Put with every Go type it accepts, LogSinkPack.SetContent,
// HitMapPack1.Add. The expected body is written from the arguments passed, not read back from the
// pack, and compared section-wise with the writer's bytes.

import (
	"github.com/whatap/golib/lang/value"
	"github.com/whatap/golib/zzvf"
)

// vf: paths=4000
func ZZ_C05_EntryPoints() {
	switch zzvf.Choose(4) {
	case 0:
		p := NewParamPack()
		zzvf.Fill(p, -1, 1)
		s, n := zzvf.String(1), zzvf.Int64()
		zzvf.Assume(zzvf.And(n >= 1, n <= 100))
		f := zzvf.Float32()
		p.PutString("k1", s)
		p.PutLong("k2", n)
		mv := value.NewMapValue()
		mv.Put("k3", value.NewFloatValue(f))
		mv.PutString("k1", "z") // overwrites in place
		p.SetMapValue(mv)
		p.SetMapValue(nil)
		zz5HeaderForm(p)
		var body zz5Secs
		body.add("id", zz5I32(p.Id))
		body.add("request", zz5Dec(p.Request))
		body.add("response", zz5Dec(p.Response))
		body.add("entry-count", zz5Dec(3))
		body.add("entries", zz5Cat(zz5Text("k1"), []byte{50}, zz5Text("z"), zz5Text("k2"), []byte{20}, zz5Dec(n), zz5Text("k3"), []byte{30}, zz5F32(f)))
		zz5Check("EntryPoints/ParamPack", 0x0100, p, &p.AbstractPack, body)
	case 1:
		p := NewTagCountPack()
		zzvf.Fill(p, -1, 1) // tag hash non-zero (1..100): written as given
		p.Tags, p.Data = value.NewMapValue(), value.NewMapValue()
		s := zzvf.String(1)
		p.PutTag("t1", s)
		p.PutTag("t2", "")
		i32, i64, f32, f64 := zzvf.Int32(), zzvf.Int64(), zzvf.Float32(), zzvf.Float64()
		var data []byte
		n := 0
		add := func(k string, v interface{}, ref ...[]byte) {
			p.Put(k, v)
			data = zz5Cat(data, zz5Text(k), zz5Cat(ref...))
			n++
		}
		// one focus class at a time (symbolic decimals: one width class per path)
		switch zzvf.Choose(4) {
		case 0:
			add("a", int(i32), []byte{20}, zz5Dec(int64(i32)))
			add("b", i32, []byte{20}, zz5Dec(int64(i32)))
			add("c", int16(i32), []byte{20}, zz5Dec(int64(int16(i32))))
		case 1:
			add("a", i64, []byte{20}, zz5Dec(i64))
			add("b", uint32(i32), []byte{20}, zz5Dec(int64(uint32(i32))))
		case 2:
			add("a", uint64(i64), []byte{20}, zz5Dec(i64))
			add("b", uint(i64), []byte{20}, zz5Dec(i64))
		case 3:
			add("a", f32, []byte{30}, zz5F32(f32))
			add("b", f64, []byte{40}, zz5F64(f64))
			add("c", s, []byte{50}, zz5Text(s))
			add("d", value.NewBoolValue(true), []byte{10, 1})
			add("a", value.NewNullValue(), []byte{}) // overwrite: position kept (reference patched below)
			n--
			data = zz5Cat(zz5Text("a"), []byte{0}, zz5Text("b"), []byte{40}, zz5F64(f64), zz5Text("c"), []byte{50}, zz5Text(s), zz5Text("d"), []byte{10, 1})
		}
		zz5HeaderForm(p)
		var body zz5Secs
		body.add("version", []byte{0})
		body.add("category", zz5Text(p.Category))
		body.add("tag-hash", zz5Dec(p.tagHash))
		body.add("tags", zz5Cat([]byte{80}, zz5Dec(2), zz5Text("t1"), []byte{50}, zz5Text(s), zz5Text("t2"), []byte{50}, zz5Text("")))
		body.add("data", zz5Cat([]byte{80}, zz5Dec(int64(n)), data))
		zz5Check("EntryPoints/TagCountPack", 0x1601, p, &p.AbstractPack, body)
	case 2:
		// HitMapPack1.Add: exactly the cell of the response time is incremented (Hit always, Error iff
		// isError); the cell index is the pack's own public HitMapIndex (its table is C05 HitMapPack1's
		// subject), every other cell stays 0
		p := NewHitMapPack1()
		t1 := []int{0, 4999, 5000, 9999, 10000, 79999, 80000, 1 << 30}[zzvf.Choose(8)]
		t2 := []int{0, 250, 80000}[zzvf.Choose(3)]
		p.Add(t1, true)
		p.Add(t1, false)
		p.Add(t2, false)
		ok := true
		for i := range p.Hit {
			wh, we := int32(0), int32(0)
			if i == p.HitMapIndex(t1) {
				wh, we = wh+2, we+1
			}
			if i == p.HitMapIndex(t2) {
				wh++
			}
			ok = ok && p.Hit[i] == wh && p.Error[i] == we
		}
		zzvf.Assert(ok, "EntryPoints/HitMapPack1/add-increments-exactly-the-cell-of-the-time")
		zzvf.Assert(p.HitMapIndex(t1) >= 0 && p.HitMapIndex(t1) < len(p.Hit), "EntryPoints/HitMapPack1/index-in-range")
		zzvf.Reach("EntryPoints/HitMapPack1")
	case 3:
		p := NewLogSinkPack()
		zzvf.Fill(p, -1, 1)
		s := zzvf.String(zzvf.Choose(3))
		p.SetContent(s)
		zzvf.Assert(p.GetContent() == s, "EntryPoints/LogSinkPack/setcontent-getcontent")
		zzvf.Assert(p.Content == s, "EntryPoints/LogSinkPack/setcontent-sets-the-written-member")
		zzvf.Reach("EntryPoints/LogSinkPack")
	}
}
