//vf:dir config/conffile
//vf:stub github.com/whatap/golib/util/dateutil.SystemNow ClockVar
//vf:stub (*github.com/whatap/golib/config/conffile.FileConfig).run Skip
//vf:go properties.lexer).run
//vf:import config/conffile os github.com/whatap/golib/zzvf/zos native
package conffile

// C18 — file configuration. Environment (DESIGN.md §8): ghost file system (natively the
// real one in a temporary directory; natively `os` is wrapped by zzvf/zos in this package
// so that crash points can be reproduced), clock = zzvf.Clock, the 3 s polling goroutine
// is not started (the harness calls reload() at the virtual times it chooses); the
// third-party properties parser is executed for real (its lexer goroutine runs as a
// cooperative coroutine).

import (
	"path/filepath"
	"strings"

	"github.com/whatap/golib/config"
	"github.com/whatap/golib/util/hash"
	"github.com/whatap/golib/zzvf"
)

type zzObs struct{ n int }

func (o *zzObs) ApplyConfig(c config.Config) { o.n++ }

const zzT0 = 1700000000000000000 // mtime of the first version (ns)

func zzConf(home string, obs *zzObs, opts ...FileConfigOption) *FileConfig {
	co := config.NewConfigObserver()
	if obs != nil {
		co.Add("zz", obs)
	}
	return newFileConfig(append([]FileConfigOption{WithHomePath(home), WithConfigObserver(co)}, opts...)...)
}

// zzFrom returns n symbolic bytes drawn from the alphabet (each byte ranges over the whole
// alphabet; the ranged index lets the executor fold character-class tests statically).
func zzFrom(alphabet string, n int) string {
	b := make([]byte, n)
	for i := range b {
		b[i] = alphabet[zzvf.IntRange(0, len(alphabet)-1)]
	}
	return string(b)
}

const zzPlainAlpha = "abcxyz0189-+._/"

// the steps the polling goroutine performs, at a virtual time >= 3 s after the last one
func zzPoll(c *FileConfig) {
	zzvf.Clock += 3000 + int64(zzvf.IntRange(0, 5000))
	c.reload()
}

func zzRefInt(s string, bits int) (int64, bool) {
	i := 0
	neg := false
	if len(s) > 0 && (s[0] == '-' || s[0] == '+') {
		neg = s[0] == '-'
		i = 1
	}
	if i == len(s) {
		return 0, false
	}
	var v int64
	for ; i < len(s); i++ {
		if s[i] < '0' || s[i] > '9' {
			return 0, false
		}
		v = v*10 + int64(s[i]-'0')
	}
	if neg {
		v = -v
	}
	return v, true // (<= 4 characters: always in range)
}

// Typed getters on well-formed and malformed values; absent keys; defaults symbolic.
// Integer candidates: every string of 1..3 characters over "0123456789-+ax".
//vf: paths=40000
func ZZ_C18_Getters() {
	home := zzvf.FsHome()
	defer zzvf.FsCleanup()
	zzvf.Clock = 1000000
	path := filepath.Join(home, "whatap.conf")
	iv := zzFrom("0123456789-+ax", 1+zzvf.Choose(3))
	sv := zzFrom(zzPlainAlpha, 2)
	bools := []string{"true", "false", "1", "0", "t", "F", "TRUE", "True", "yes", "tru", "2"}
	bi := zzvf.Choose(len(bools))
	floats := []string{"1.5", "-2", "1e2", "abc", "1.5x", "0x1p-2", "1_0", ".5"}
	fwant := []float32{1.5, -2, 100, -1, -1, 0.25, 10, 0.5} // ("1_0": underscores between digits are accepted by ParseFloat)
	fi := zzvf.Choose(len(floats))
	zzvf.FsWrite(path, []byte("zzs="+sv+"\nzzi="+iv+"\nzzb="+bools[bi]+"\nzzf="+floats[fi]+"\n"), zzT0)
	c := zzConf(home, nil)
	di, dl := zzvf.Int32(), zzvf.Int64()
	zzvf.Assert(c.GetValue("zzs") == sv, "getters/string-value-visible")
	zzvf.Assert(c.GetValueDef("zzs", "d") == sv, "getters/string-value-visible-def")
	want, ok := zzRefInt(iv, 32)
	if ok {
		zzvf.Assert(c.GetInt("zzi", int(di)) == int32(want), "getters/int-wellformed")
		zzvf.Assert(c.GetLong("zzi", dl) == want, "getters/long-wellformed")
	} else {
		zzvf.Assert(c.GetInt("zzi", int(di)) == di, "getters/int-malformed-gives-default")
		zzvf.Assert(c.GetLong("zzi", dl) == dl, "getters/long-malformed-gives-default")
	}
	zzvf.Assert(c.GetInt("zzabsent", int(di)) == di, "getters/int-absent-gives-default")
	zzvf.Assert(c.GetLong("zzabsent", dl) == dl, "getters/long-absent-gives-default")
	db := zzvf.Bool()
	switch {
	case bi == 0 || bi == 2 || bi == 4 || bi == 6 || bi == 7:
		zzvf.Assert(c.GetBoolean("zzb", db) == true, "getters/bool-true-forms")
	case bi == 1 || bi == 3 || bi == 5:
		zzvf.Assert(c.GetBoolean("zzb", db) == false, "getters/bool-false-forms")
	default:
		zzvf.Assert(c.GetBoolean("zzb", db) == db, "getters/bool-malformed-gives-default")
	}
	zzvf.Assert(c.GetBoolean("zzabsent", db) == db, "getters/bool-absent-gives-default")
	zzvf.Assert(c.GetFloat("zzf", -1) == fwant[fi], "getters/float/"+floats[fi])
	zzvf.Assert(c.GetFloat("zzabsent", 7.5) == 7.5, "getters/float-absent-gives-default")
	zzvf.Observe("int", int64(c.GetInt("zzi", 7)))
	zzvf.Reach("getters")
}

// Integers at the edges of the 32- and 64-bit ranges: in range = the value, outside =
// malformed for that getter = the default.
//vf: paths=200
func ZZ_C18_GettersEdges() {
	home := zzvf.FsHome()
	defer zzvf.FsCleanup()
	zzvf.Clock = 1000000
	path := filepath.Join(home, "whatap.conf")
	// integers at the edges of the 32- and 64-bit ranges
	bigs := []string{"2147483647", "2147483648", "-2147483648", "-2147483649", "4294967297", "9223372036854775807", "9223372036854775808", "-9223372036854775808", "-9223372036854775809"}
	big32 := []int64{2147483647, 0, -2147483648, 0, 0, 0, 0, 0, 0}
	ok32 := []bool{true, false, true, false, false, false, false, false, false}
	big64 := []int64{2147483647, 2147483648, -2147483648, -2147483649, 4294967297, 9223372036854775807, 0, -9223372036854775808, 0}
	ok64 := []bool{true, true, true, true, true, true, false, true, false}
	gi := zzvf.Choose(len(bigs))
	zzvf.FsWrite(path, []byte("zzbig="+bigs[gi]+"\n"), zzT0)
	c := zzConf(home, nil)
	di, dl := zzvf.Int32(), zzvf.Int64()
	if ok32[gi] {
		zzvf.Assert(c.GetInt("zzbig", int(di)) == int32(big32[gi]), "getters/int-at-the-edge-of-32-bits")
	} else {
		zzvf.Assert(c.GetInt("zzbig", int(di)) == di, "getters/int-outside-32-bits-gives-default")
	}
	if ok64[gi] {
		zzvf.Assert(c.GetLong("zzbig", dl) == big64[gi], "getters/long-at-the-edge-of-64-bits")
	} else {
		zzvf.Assert(c.GetLong("zzbig", dl) == dl, "getters/long-outside-64-bits-gives-default")
	}
	zzvf.Observe("int", int64(c.GetInt("zzbig", 7)))
	zzvf.Reach("getters-edges")
}

func zzSameI32(a, b []int32) bool {
	if len(a) != len(b) {
		return false
	}
	ok := true
	for i := range a {
		ok = zzvf.And(ok, a[i] == b[i])
	}
	return ok
}

// Set / array getters.
//vf: paths=2000
func ZZ_C18_SetGetters() {
	home := zzvf.FsHome()
	defer zzvf.FsCleanup()
	zzvf.Clock = 1000000
	path := filepath.Join(home, "whatap.conf")
	zzvf.FsWrite(path, []byte("zzset=1, 22,x,-3\nzzarr=a, b ,c\n"), zzT0)
	c := zzConf(home, nil)
	zzvf.Assert(zzSameI32(c.GetIntSet("zzset", "", ","), []int32{1, 22, -3}), "setgetters/int-set-has-the-wellformed-members")
	zzvf.Assert(zzSameI32(c.GetIntSet("zzabsent", "4,5", ","), []int32{4, 5}), "setgetters/int-set-absent-gives-default")
	arr := c.GetStringArray("zzarr", "", ",")
	zzvf.Assert(len(arr) == 3 && arr[0] == "a" && arr[1] == "b" && arr[2] == "c", "setgetters/string-array-trimmed-tokens")
	zzvf.Assert(len(c.GetStringArray("zzabsent", "", ",")) == 0, "setgetters/string-array-absent-empty")
	hs := c.GetStringHashSet("zzarr", "", ",")
	zzvf.Assert(zzSameI32(hs, []int32{hash.HashStr("a"), hash.HashStr("b"), hash.HashStr("c")}), "setgetters/string-hash-set")
	zzvf.Observe("n", len(c.GetIntSet("zzset", "", ",")))
	zzvf.Reach("setgetters")
}

// The object tracks the file: after an external edit and the following poll cycles every
// key=value of the file is visible and observers have been notified once per change.
// Edits: same nanosecond-different second, same second (different nanoseconds), later;
// file removed and re-created; values symbolic.
//vf: paths=20000
func ZZ_C18_Reload() {
	home := zzvf.FsHome()
	defer zzvf.FsCleanup()
	zzvf.Clock = 1000000
	path := filepath.Join(home, "whatap.conf")
	a, b := zzFrom(zzPlainAlpha, 2), zzFrom(zzPlainAlpha, 2)
	zzvf.FsWrite(path, []byte("zzk1="+a+"\nzzk2=keep\n"), zzT0)
	obs := &zzObs{}
	c := zzConf(home, obs)
	zzvf.Assert(c.GetValue("zzk1") == a, "reload/first-load-visible")
	zzvf.Assert(obs.n == 1, "reload/observer-notified-on-first-load")
	zzPoll(c)
	zzvf.Assert(obs.n == 1, "reload/no-notification-without-change")
	kind := zzvf.Choose(5)
	var dt int64
	switch kind {
	case 4:
		// the file system's clock did not advance between the two writes (timestamps are taken from the
		// kernel's coarse clock: two writes within one tick, a few milliseconds, get the SAME mtime)
		dt = 0
	case 0:
		dt = 1 + int64(zzvf.IntRange(0, 999999998)) // same second, later nanosecond
	case 1:
		dt = 1000000000 // next second
	case 2:
		dt = []int64{2000000000, 86400000000000, 1}[zzvf.Choose(3)] + 1000000000
	case 3:
		dt = -[]int64{1, 1000000000, 86400000000000}[zzvf.Choose(3)] // restored from a backup: older time
	}
	zzvf.FsWrite(path, []byte("zzk1="+b+"\nzzk3=new\n"), zzT0+dt)
	zzPoll(c)
	zzPoll(c) // "once the file stops changing": further cycles do not matter
	zzvf.Assert(c.GetValue("zzk1") == b, "reload/edited-value-visible/"+[]string{"same-second", "next-second", "later", "older-mtime", "same-timestamp"}[kind])
	zzvf.Assert(c.GetValue("zzk3") == "new", "reload/added-key-visible/"+[]string{"same-second", "next-second", "later", "older-mtime", "same-timestamp"}[kind])
	obsLabel := "reload/observer-notified-once-per-change"
	if kind == 4 {
		obsLabel += "/same-timestamp"
	}
	zzvf.Assert(zzvf.Implies(a != b, obs.n == 2), obsLabel)
	zzvf.Observe("n", obs.n)
	zzvf.Reach("reload")
}

// A key whose value is emptied in the file must read as empty (default).
//vf: paths=200
func ZZ_C18_EmptiedValue() {
	home := zzvf.FsHome()
	defer zzvf.FsCleanup()
	zzvf.Clock = 1000000
	path := filepath.Join(home, "whatap.conf")
	zzvf.FsWrite(path, []byte("zzk1=old\n"), zzT0)
	c := zzConf(home, nil)
	zzvf.FsWrite(path, []byte("zzk1=\nzzk2=x\n"), zzT0+5000000000)
	zzPoll(c)
	zzvf.Assert(c.GetValue("zzk2") == "x", "emptied/other-key-visible")
	zzvf.Assert(c.GetValueDef("zzk1", "dflt") == "dflt", "emptied/emptied-value-reads-as-default")
	zzvf.Reach("emptied")
}

const zzFile0 = "# head comment\nzzk1=one\n\n! bang = x=y\nzzk2 = two\n#tail=1\n"

func zzLines(s string) []string { return strings.Split(s, "\n") }

// SetValues merges into the file: other keys keep their values, comment lines and line
// order survive, written values read back unchanged. Key: existing or new; value: 2
// symbolic plain bytes or one of a pool of values with special characters.
//vf: paths=20000
func ZZ_C18_SetValues() {
	home := zzvf.FsHome()
	defer zzvf.FsCleanup()
	zzvf.Clock = 1000000
	path := filepath.Join(home, "whatap.conf")
	zzvf.FsWrite(path, []byte(zzFile0), zzT0)
	c := zzConf(home, nil)
	key := []string{"zzk1", "zzk9"}[zzvf.Choose(2)]
	pool := []string{"", "a b", "a=b", "a:b", "a#b", "#x", "a\\b", "a\\\\b", "ü", "tr ", " ld", "a\nb", "${zzk2}", "!x"}
	pi := zzvf.Choose(len(pool))
	var val, cls string
	if pi == 0 {
		val, cls = zzFrom(zzPlainAlpha, 2), "plain"
	} else {
		val, cls = pool[pi], []string{"", "inner-space", "equals", "colon", "hash-inside", "hash-first", "backslash", "two-backslashes", "non-ascii", "trailing-space", "leading-space", "newline", "reference-syntax", "bang-first"}[pi]
	}
	kv := map[string]string{key: val}
	pv := zzvf.PanicValue(func() { c.SetValues(&kv) })
	zzvf.Assert(pv == "", "setvalues/no-panic/"+cls)
	if pv != "" {
		return
	}
	raw, _ := zzvf.FsRead(path)
	got := zzLines(string(raw))
	// comment / blank lines survive verbatim, in order, and key lines stay where they were
	want := zzLines(zzFile0)
	okc := len(got) >= len(want)-1
	if okc {
		for i, w := range want {
			if w == "" && i == len(want)-1 {
				continue
			}
			if strings.HasPrefix(w, "zzk") {
				okc = zzvf.And(okc, strings.HasPrefix(got[i], w[:4]))
			} else {
				okc = zzvf.And(okc, got[i] == w)
			}
		}
	}
	zzvf.Assert(okc, "setvalues/comments-and-line-order-survive/"+cls)
	// read back through a fresh configuration object
	zzvf.Clock += 10000
	var c2 *FileConfig
	pv = zzvf.PanicValue(func() { c2 = zzConf(home, nil) })
	zzvf.Assert(pv == "", "setvalues/file-still-loadable/"+cls)
	if pv != "" || c2 == nil {
		return
	}
	if cls != "reference-syntax" {
		// (a value of the form ${key} IS the properties syntax for a reference: the parser
		// expands it on reading by design; only "file still loadable" is claimed for it)
		zzvf.Assert(c2.getValueRaw(key) == val, "setvalues/written-value-reads-back-unchanged/"+cls)
	}
	other := "zzk2"
	zzvf.Assert(c2.GetValue(other) == "two", "setvalues/other-key-keeps-value/"+cls)
	if key != "zzk1" {
		zzvf.Assert(c2.GetValue("zzk1") == "one", "setvalues/other-key-keeps-value-2/"+cls)
	}
	zzvf.Observe("lines", len(got))
	zzvf.Reach("setvalues")
}

// The same for a file that spells some keys with the other separators of the properties syntax
// (':' or a blank instead of '='): a value written for such a key reads back, the others stay.
//vf: paths=2000
func ZZ_C18_SetValuesOtherSeparators() {
	home := zzvf.FsHome()
	defer zzvf.FsCleanup()
	zzvf.Clock = 1000000
	path := filepath.Join(home, "whatap.conf")
	zzvf.FsWrite(path, []byte("# c\nzzk1: one\nzzk2 two\nzzk3=three\n"), zzT0)
	c := zzConf(home, nil)
	zzvf.Assert(zzvf.And(c.GetValue("zzk1") == "one", c.GetValue("zzk2") == "two"), "setvalues-separators/loaded")
	ki := zzvf.Choose(3)
	key := []string{"zzk1", "zzk2", "zzk3"}[ki]
	val := zzFrom(zzPlainAlpha, 2)
	kv := map[string]string{key: val}
	pv := zzvf.PanicValue(func() { c.SetValues(&kv) })
	zzvf.Assert(pv == "", "setvalues-separators/no-panic")
	if pv != "" {
		return
	}
	zzvf.Clock += 10000
	c2 := zzConf(home, nil)
	zzvf.Assert(c2.getValueRaw(key) == val, "setvalues-separators/written-value-reads-back-unchanged")
	for i, k := range []string{"zzk1", "zzk2", "zzk3"} {
		if i != ki {
			zzvf.Assert(c2.GetValue(k) == []string{"one", "two", "three"}[i], "setvalues-separators/other-keys-keep-their-values")
		}
	}
	raw, _ := zzvf.FsRead(path)
	zzvf.Assert(strings.HasPrefix(string(raw), "# c\n"), "setvalues-separators/comment-survives")
	zzvf.Reach("setvalues-separators")
}

// A write-back is a change of the file like any other: after SetValues and the next poll the written
// value is visible through the getters and the registered observers have been notified of it.
//vf: paths=2000
func ZZ_C18_SetValuesNotifies() {
	home := zzvf.FsHome()
	defer zzvf.FsCleanup()
	zzvf.Clock = 1000000
	path := filepath.Join(home, "whatap.conf")
	zzvf.FsWrite(path, []byte(zzFile0), zzT0)
	obs := &zzObs{}
	c := zzConf(home, obs)
	zzPoll(c)
	n0 := obs.n
	key := []string{"zzk1", "zzk9"}[zzvf.Choose(2)]
	val := zzFrom(zzPlainAlpha, 2)
	zzvf.Assume(val != "on") // zzk1=one: a different value in every case
	kv := map[string]string{key: val}
	c.SetValues(&kv)
	zzvf.Clock += 2000
	zzPoll(c)
	zzvf.Assert(c.GetValue(key) == val, "setvalues-notifies/written-value-visible-after-the-next-poll")
	zzvf.Assert(obs.n > n0, "setvalues-notifies/observers-notified-of-the-write-back")
	zzvf.Reach("setvalues-notifies")
}

// (untrimmed value as stored)
func (this *FileConfig) getValueRaw(key string) string { return this.m[key] }

// Prefix / suffix / excluded keys of SetValues.
//vf: paths=2000
func ZZ_C18_SetValuesOptions() {
	home := zzvf.FsHome()
	defer zzvf.FsCleanup()
	zzvf.Clock = 1000000
	path := filepath.Join(home, "whatap.conf")
	zzvf.FsWrite(path, []byte("whatap.zzk1=one\nzzex=keep\n"), zzT0)
	c := zzConf(home, nil, WithPrefix("whatap."), WithExcludeKeys([]string{"zzex"}))
	v := zzFrom(zzPlainAlpha, 2)
	key := []string{"zzk1", "whatap.zzk1", "zzex"}[zzvf.Choose(3)]
	kv := map[string]string{key: v}
	c.SetValues(&kv)
	zzvf.Clock += 10000
	c2 := zzConf(home, nil)
	if key == "zzex" {
		zzvf.Assert(c2.GetValue("zzex") == "keep", "setvalues-options/excluded-key-not-written")
	} else {
		zzvf.Assert(c2.GetValue("whatap.zzk1") == v, "setvalues-options/prefixed-key-written-once")
		zzvf.Assert(c2.GetValue("zzex") == "keep", "setvalues-options/other-key-kept")
		zzvf.Assert(c2.GetValue("whatap.whatap.zzk1") == "", "setvalues-options/prefix-not-doubled")
	}
	zzvf.Reach("setvalues-options")
}

// The suffix option (and prefix + suffix together): a key is completed with the affix it lacks and
// is never given an affix twice, whether the caller passes the bare key, the key carrying one affix or
// the complete key; the existing line is updated in place and no second line appears.
//vf: paths=2000
func ZZ_C18_SetValuesSuffix() {
	home := zzvf.FsHome()
	defer zzvf.FsCleanup()
	zzvf.Clock = 1000000
	path := filepath.Join(home, "whatap.conf")
	both := zzvf.Choose(2) == 1
	full := "zzk1_dev"
	opts := []FileConfigOption{WithSuffix("_dev")}
	keys := []string{"zzk1", "zzk1_dev"}
	if both {
		full = "whatap.zzk1_dev"
		opts = append(opts, WithPrefix("whatap."))
		keys = []string{"zzk1", "zzk1_dev", "whatap.zzk1", "whatap.zzk1_dev"}
	}
	zzvf.FsWrite(path, []byte(full+"=one\nzzother=keep\n"), zzT0)
	c := zzConf(home, nil, opts...)
	v := zzFrom(zzPlainAlpha, 2)
	kv := map[string]string{keys[zzvf.Choose(len(keys))]: v}
	c.SetValues(&kv)
	zzvf.Clock += 10000
	c2 := zzConf(home, nil)
	zzvf.Assert(c2.GetValue(full) == v, "setvalues-suffix/complete-key-holds-the-written-value")
	zzvf.Assert(c2.GetValue("zzother") == "keep", "setvalues-suffix/other-key-kept")
	raw, _ := zzvf.FsRead(path)
	zzvf.Assert(string(raw) == full+"="+v+"\nzzother=keep\n", "setvalues-suffix/file-is-the-old-file-with-the-one-line-updated")
	zzvf.Reach("setvalues-suffix")
}

// Key shapes: every key the properties syntax and the write-back's notion of a managed key ("starts
// with a word character": letter, DIGIT or underscore) allow -- first character from each class, dots
// and dashes inside -- is updated in place when present and appended when absent, and reads back.
//vf: paths=4000
func ZZ_C18_SetValuesKeyShapes() {
	home := zzvf.FsHome()
	defer zzvf.FsCleanup()
	zzvf.Clock = 1000000
	path := filepath.Join(home, "whatap.conf")
	keys := []string{"zzk", "Zzk", "_zzk", "4zzk", "404_page", "2fa.enabled", "zz-k.9", "z"}
	key := keys[zzvf.Choose(len(keys))]
	present := zzvf.Choose(2) == 1
	file := "# head\nzzother=keep\n"
	if present {
		file = "# head\n" + key + "=one\nzzother=keep\n"
	}
	zzvf.FsWrite(path, []byte(file), zzT0)
	c := zzConf(home, nil)
	v := zzFrom(zzPlainAlpha, 2)
	kv := map[string]string{key: v}
	c.SetValues(&kv)
	zzvf.Clock += 10000
	c2 := zzConf(home, nil)
	cls := "letter-first"
	if key[0] >= '0' && key[0] <= '9' {
		cls = "digit-first"
	} else if key[0] == '_' {
		cls = "underscore-first"
	}
	if present {
		cls += "/present"
	} else {
		cls += "/absent"
	}
	zzvf.Assert(c2.GetValue(key) == v, "setvalues-keyshapes/written-value-reads-back/"+cls)
	zzvf.Assert(c2.GetValue("zzother") == "keep", "setvalues-keyshapes/other-key-kept/"+cls)
	raw, _ := zzvf.FsRead(path)
	want := "# head\nzzother=keep\n" + key + "=" + v + "\n"
	if present {
		want = "# head\n" + key + "=" + v + "\nzzother=keep\n"
	}
	zzvf.Assert(string(raw) == want, "setvalues-keyshapes/file-content/"+cls)
	zzvf.Reach("setvalues-keyshapes")
}

// At no instant during a write-back does the file hold anything but the old or the new
// complete content: the process stops after the k-th mutating file operation of
// SetValues (a stopping write may be partial: 0, 3 or all bytes).
//vf: paths=2000
func ZZ_C18_WriteBackAtomic() {
	home := zzvf.FsHome()
	defer zzvf.FsCleanup()
	zzvf.Clock = 1000000
	path := filepath.Join(home, "whatap.conf")
	zzvf.FsWrite(path, []byte(zzFile0), zzT0)
	c := zzConf(home, nil)
	v := zzFrom(zzPlainAlpha, 2)
	kv := map[string]string{"zzk1": v}
	// leftovers of earlier interrupted write-backs must not leak into this one
	if zzvf.Choose(2) == 1 {
		junk := []byte("zzjunk=1\n# a long stale tail ................................................................................................\n")
		zzvf.FsWrite(path+".tmp", junk, zzT0)
		zzvf.FsWrite(path+".tmp1", junk, zzT0)
		zzvf.FsWrite(path+".tmp2", junk, zzT0)
	}
	k := 1 + zzvf.Choose(6)
	prefix := []int{-1, 0, 3}[zzvf.Choose(3)]
	zzvf.FsCrashAfter(k, prefix)
	crashed := zzvf.Crashed(func() { c.SetValues(&kv) })
	zzvf.FsCrashAfter(0, -1)
	raw, ok := zzvf.FsRead(path)
	zzvf.Assert(ok, "writeback/file-exists-at-every-instant")
	newc := strings.Replace(strings.Replace(zzFile0, "zzk1=one", "zzk1="+v, 1), "zzk2 = two", "zzk2=two", 1)
	if ok {
		s := string(raw)
		zzvf.Assert(zzvf.Or(s == zzFile0, s == newc), "writeback/file-is-old-or-new-complete-content")
		if !crashed {
			zzvf.Assert(s == newc, "writeback/completed-write-leaves-new-content")
		}
	}
	zzvf.Observe("crashed", crashed)
	zzvf.Reach("writeback")
}
