//vf:dir config/conffile
//vf:import config/conffile sync github.com/whatap/golib/zzvf/zsync native
//vf:stub github.com/whatap/golib/util/dateutil.SystemNow ClockVar
//vf:stub (*github.com/whatap/golib/config/conffile.FileConfig).run Skip
//vf:go properties.lexer).run
package conffile

// C18 — "getters running concurrently with a reload neither crash nor observe torn state": besides
// the lock discipline (race.go) the merge of a reloaded file into the map is ONE critical section of
// the map's write lock — with a write lock per entry every access is still locked (no data race), but
// a reader taking a whole-map view (String, GetKeys, two getters) between two entries sees a mix of
// the old and the new file. Trace obligation over the lock event log (ghost log under the executor,
// written by package zsync natively): a reload that applies an edit of THREE keys write-locks the
// map's lock at most once.

import (
	"path/filepath"
	"strings"

	"github.com/whatap/golib/zzvf"
)

func zz18WriteSections(from int) int {
	s := zzvf.Events()
	if s == "" {
		return 0
	}
	n := 0
	for _, e := range strings.Split(s, ";")[from:] {
		if strings.HasPrefix(e, "lock ") {
			n++
		}
	}
	return n
}

func zz18EventCount() int {
	s := zzvf.Events()
	if s == "" {
		return 0
	}
	return len(strings.Split(s, ";"))
}

//vf: paths=2000
func ZZ_C18_ReloadAtomic() {
	home := zzvf.FsHome()
	defer zzvf.FsCleanup()
	zzvf.Clock = 1000000
	path := filepath.Join(home, "whatap.conf")
	zzvf.FsWrite(path, []byte("zzk1=1\nzzk2=a\nzzk3=x\n"), zzT0)
	c := zzConf(home, nil)
	var edit string
	switch zzvf.Choose(3) {
	case 0:
		edit = "zzk1=2\nzzk2=b\nzzk3=y\n" // three values changed
	case 1:
		edit = "zzk1=1\nzzk2=a\nzzk3=x\nzzk4=n\nzzk5=m\n" // two keys added
	case 2:
		edit = "zzk1=2\nzzk4=n\n" // one changed, one added, two removed from the file
	}
	zzvf.FsWrite(path, []byte(edit), zzT0+5000000000)
	zzvf.Clock += 5000
	e0 := zz18EventCount()
	c.reload()
	zzvf.Assert(zz18WriteSections(e0) <= 1, "reload-atomic/merge-is-one-critical-section-of-the-map-lock")
	zzvf.Assert(zz18WriteSections(e0) >= 1, "reload-atomic/merge-takes-the-write-lock")
	zzvf.Reach("reload-atomic")
}
