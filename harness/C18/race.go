//vf:dir config/conffile
//vf:race
//vf:stub github.com/whatap/golib/util/dateutil.SystemNow ClockVar
//vf:stub (*github.com/whatap/golib/config/conffile.FileConfig).run Skip
//vf:go properties.lexer).run
package conffile

// C18 — getters running concurrently with a reload neither crash nor observe torn state:
// lock discipline. Every getter is paired with a reload that applies an edit (and with
// one that resets to defaults because the file vanished); the executor records the
// accesses of both sides with the locks held; a common cell (a Go map counts as one cell)
// with a write and no common lock is a data race — for a map, a crash ("concurrent map
// read and map write"). Natively the pair runs on two goroutines under the race detector.

import (
	"path/filepath"

	"github.com/whatap/golib/zzvf"
)

//vf: paths=2000
func ZZ_C18_GettersVsReload() {
	home := zzvf.FsHome()
	defer zzvf.FsCleanup()
	zzvf.Clock = 1000000
	path := filepath.Join(home, "whatap.conf")
	zzvf.FsWrite(path, []byte("zzk1=1\nzzk2=a,b\n"), zzT0)
	c := zzConf(home, nil)
	names := []string{"GetValue", "GetValueDef", "GetInt", "GetLong", "GetBoolean", "GetFloat", "GetIntSet", "GetStringArray", "GetStringHashSet", "GetKeys", "String"}
	gi := zzvf.Choose(len(names))
	get := func() {
		switch gi {
		case 0:
			c.GetValue("zzk1")
		case 1:
			c.GetValueDef("zzk1", "d")
		case 2:
			c.GetInt("zzk1", 0)
		case 3:
			c.GetLong("zzk1", 0)
		case 4:
			c.GetBoolean("zzk1", false)
		case 5:
			c.GetFloat("zzk1", 0)
		case 6:
			c.GetIntSet("zzk2", "", ",")
		case 7:
			c.GetStringArray("zzk2", "", ",")
		case 8:
			c.GetStringHashSet("zzk2", "", ",")
		case 9:
			c.GetKeys()
		case 10:
			_ = c.String()
		}
	}
	vanish := zzvf.Choose(2) == 1
	if vanish {
		zzvf.FsRemoveFile(path)
	} else {
		zzvf.FsWrite(path, []byte("zzk1=2\nzzk3=c\n"), zzT0+5000000000)
	}
	zzvf.Clock += 5000
	kind := "reload-applies-edit"
	if vanish {
		kind = "reload-resets-to-defaults"
	}
	zzvf.RacePair("race/FileConfig/"+names[gi]+"|"+kind, get, func() { c.reload() })
	zzvf.Reach("getters-vs-reload")
}
