//vf:dir config/conffile
//vf:go FileConfig).run
package conffile

// C18 — the real polling loop (*FileConfig).run, not the harness's emulation of it: the
// goroutine started by the constructor runs as a cooperative coroutine (natively: the real
// goroutine and real 3 s sleeps); the harness edits the file and waits, on a channel fed
// by an observer, for the notification of the reload. Clock: exact virtual clock.

import (
	"context"
	"path/filepath"

	"github.com/whatap/golib/config"
	"github.com/whatap/golib/zzvf"
)

type zzChanObs struct{ ch chan int }

func (o *zzChanObs) ApplyConfig(c config.Config) { o.ch <- 1 }

//vf: paths=200 nostub=FileConfig).run
func ZZ_C18_PollingLoop() {
	home := zzvf.FsHome()
	defer zzvf.FsCleanup()
	zzvf.ClockExact(1700000000000)
	path := filepath.Join(home, "whatap.conf")
	a, b := zzFrom(zzPlainAlpha, 2), zzFrom(zzPlainAlpha, 2)
	zzvf.FsWrite(path, []byte("zzk1="+a+"\n"), zzT0)
	obs := &zzChanObs{ch: make(chan int, 8)}
	co := config.NewConfigObserver()
	co.Add("zz", obs)
	ctx, cancel := context.WithCancel(context.Background())
	c := newFileConfig(WithHomePath(home), WithConfigObserver(co), WithContext(ctx, cancel))
	<-obs.ch // first load
	zzvf.Assert(c.GetValue("zzk1") == a, "polling/first-load-visible")
	zzvf.FsWrite(path, []byte("zzk1="+b+"\nzzk2=new\n"), zzT0+7000000000)
	<-obs.ch // the loop notices the edit on one of its next cycles and notifies
	zzvf.Assert(c.GetValue("zzk1") == b, "polling/edit-visible-after-notification")
	zzvf.Assert(c.GetValue("zzk2") == "new", "polling/added-key-visible-after-notification")
	cancel()
	zzvf.Reach("polling-loop")
}
