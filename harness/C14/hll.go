//vf:dir util/hll
package hll

import "github.com/whatap/golib/zzvf"

// ---- reference definitions (from the algorithm, independent of the code under test) ----

// number of leading zeros of a 32-bit word, loop-free in the solver (select chain)
func zzNlz32(x uint32) int {
	n := 32
	for i := 0; i < 32; i++ {
		n = zzvf.IteInt(x&(uint32(1)<<uint(i)) != 0, 31-i, n)
	}
	return n
}

// rank of a hashed value at precision p as in stream-lib (Java precedence:
// numberOfLeadingZeros((h << p) | ((1 << (p-1)) + 1)) + 1)
func zzRank(h uint32, p uint32) uint32 {
	return uint32(zzNlz32((h<<p)|((uint32(1)<<(p-1))+1))) + 1
}

// an ARBITRARY valid register state: every 5-bit register free, the two unused top bits
// of each 32-bit word zero (6 registers of 5 bits per word)
func zzState(p uint32) *HyperLogLog {
	n := getSizeForCount(1 << p)
	words := make([]uint32, n)
	for i := range words {
		w := zzvf.Uint32()
		zzvf.Assume(w>>30 == 0)
		words[i] = w
	}
	return NewHyperLogLog(p, NewRegisterSetInit(1<<p, words))
}

func zzCopy(h *HyperLogLog) *HyperLogLog {
	w := make([]uint32, len(h.registerSet.M))
	copy(w, h.registerSet.M)
	return NewHyperLogLog(h.log2m, NewRegisterSetInit(h.registerSet.Count, w))
}

func zzRegs(h *HyperLogLog) []uint32 {
	r := make([]uint32, h.registerSet.Count)
	for i := range r {
		r[i] = h.registerSet.Get(i)
	}
	return r
}

// zzPrecSmall: the multi-offer harnesses fork 16 ways per offer (8 leading-zero classes x
// changed/unchanged); quick tier: precision 4 and 5 only
func zzPrecSmall() uint32 {
	// both tiers: 4 and 5 (6 and 7: OrderAndDuplicates / MergeIsUnion / MergeNoAlias did not finish
	// inside their 40 / 8 minute budgets on a loaded machine, so they are stated as outside)
	return uint32(4 + zzvf.Choose(2))
}

func zzPrec() uint32 {
	if zzvf.Thorough() {
		// 4..8 (9 and 10: 512 / 1024 symbolic registers — loop bound and solver limits: outside)
		return uint32(4 + zzvf.Choose(5))
	}
	return uint32(4 + zzvf.Choose(4)) // 4..7
}

// register update lemma from an arbitrary state: the register selected by the leading p
// bits becomes max(old, rank); every other register unchanged; result = "changed"
//vf: qtimeout=30s
func ZZ_C14_UpdateLemma() {
	p := zzPrec()
	h := zzState(p)
	old := zzRegs(h)
	x := zzvf.Uint32()
	changed := h.offerHashed(x)
	j := x >> (32 - p)
	rank := zzRank(x, p)
	zzvf.Assert(j < uint32(1)<<p, "update/index-in-range")
	ok, ch := true, false
	now := zzRegs(h)
	for i := range old {
		sel := uint32(i) == j
		mx := old[i]
		if true {
			mx = uint32(zzvf.IteInt64(rank > old[i], int64(rank), int64(old[i])))
		}
		want := uint32(zzvf.IteInt64(sel, int64(mx), int64(old[i])))
		ok = zzvf.And(ok, now[i] == want)
		ch = zzvf.Or(ch, zzvf.And(sel, rank > old[i]))
	}
	zzvf.Assert(ok, "update/selected-register-is-max-others-unchanged")
	zzvf.Assert(changed == ch, "update/returns-changed")
	zzvf.Assert(zzvf.And(rank >= 1, rank <= 32-p+1), "update/rank-range")
	zzvf.Reach("updatelemma")
}

// Offer / OfferLong hash with the murmur functions and update with the hashed value
func ZZ_C14_OfferComposes() {
	p := zzPrecSmall()
	h := zzState(p)
	g := zzCopy(h)
	if zzvf.Choose(2) == 0 {
		o := zzvf.Uint32()
		r1 := h.Offer(o)
		r2 := g.offerHashed(MurmurHash(o))
		zzvf.Assert(zzvf.And(r1 == r2, zzvf.Same(h.registerSet.M, g.registerSet.M)), "offer/uint32-is-update-with-murmur")
	} else {
		o := zzvf.Uint64()
		r1 := h.OfferLong(o)
		r2 := g.offerHashed(MurmurHashLong(o))
		zzvf.Assert(zzvf.And(r1 == r2, zzvf.Same(h.registerSet.M, g.registerSet.M)), "offer/uint64-is-update-with-murmur")
	}
	zzvf.Reach("offercomposes")
}

// order and duplicates never matter: from an arbitrary state
//vf: qtimeout=30s deadline=8m t.deadline=40m
func ZZ_C14_OrderAndDuplicates() {
	p := zzPrecSmall()
	h := zzState(p)
	g := zzCopy(h)
	d := zzCopy(h)
	a, b := zzvf.Uint32(), zzvf.Uint32()
	h.offerHashed(a)
	h.offerHashed(b)
	g.offerHashed(b)
	g.offerHashed(a)
	zzvf.Assert(zzvf.Same(zzRegs(h), zzRegs(g)), "set/order-independent")
	d.offerHashed(a)
	once := zzRegs(d)
	second := d.offerHashed(a)
	zzvf.Assert(zzvf.Same(zzRegs(d), once), "set/duplicate-leaves-state")
	zzvf.Assert(!second, "set/duplicate-reports-unchanged")
	zzvf.Reach("orderdup")
}

// merge = register-wise maximum; commutative, associative, idempotent; inputs untouched
//vf: qtimeout=30s
func ZZ_C14_MergeAlgebra() {
	p := zzPrec()
	x, y, z := zzState(p), zzState(p), zzState(p)
	xr, yr, zr := zzRegs(x), zzRegs(y), zzRegs(z)
	m := x.Merge(y)
	mr := zzRegs(m)
	ok := true
	for i := range xr {
		ok = zzvf.And(ok, mr[i] == uint32(zzvf.IteInt64(xr[i] > yr[i], int64(xr[i]), int64(yr[i]))))
	}
	zzvf.Assert(ok, "merge/register-wise-max")
	zzvf.Assert(zzvf.And(zzvf.Same(zzRegs(x), xr), zzvf.Same(zzRegs(y), yr)), "merge/inputs-untouched")
	zzvf.Assert(zzvf.Same(zzRegs(y.Merge(x)), mr), "merge/commutative")
	zzvf.Assert(zzvf.Same(zzRegs(x.Merge(x)), xr), "merge/idempotent")
	zzvf.Assert(zzvf.Same(zzRegs(x.Merge(y).Merge(z)), zzRegs(x.Merge(y.Merge(z)))), "merge/associative")
	zzvf.Assert(zzvf.Same(zzRegs(x.Merge(y, z)), zzRegs(x.Merge(y).Merge(z))), "merge/variadic-equals-nested")
	_ = zr
	zzvf.Assert(m.log2m == p, "merge/precision-kept")
	zzvf.Reach("mergealgebra")
}

// the result of a merge never shares registers with an input — also for Merge() with no
// argument (a copy): later offers to the result leave the inputs as they were, and later
// offers to an input leave the result as it was
//vf: qtimeout=30s deadline=8m
func ZZ_C14_MergeNoAlias() {
	p := zzPrecSmall()
	x, y := zzState(p), zzState(p)
	xr, yr := zzRegs(x), zzRegs(y)
	var m *HyperLogLog
	if zzvf.Choose(2) == 0 {
		m = x.Merge()
		zzvf.Assert(zzvf.Same(zzRegs(m), xr), "merge/no-argument-is-a-copy")
	} else {
		m = x.Merge(y)
	}
	mr := zzRegs(m)
	m.offerHashed(zzvf.Uint32())
	zzvf.Assert(zzvf.And(zzvf.Same(zzRegs(x), xr), zzvf.Same(zzRegs(y), yr)), "merge/later-offers-to-the-result-leave-inputs-untouched")
	m2 := x.Merge()
	m2r := zzRegs(m2)
	x.offerHashed(zzvf.Uint32())
	zzvf.Assert(zzvf.Same(zzRegs(m2), m2r), "merge/later-offers-to-an-input-leave-the-result-untouched")
	_ = mr
	zzvf.Reach("mergenoalias")
}

// inductive form of "merge equals union": offering an item commutes with merging, from
// ARBITRARY states (with the merge algebra this gives merge(offer-all(A), offer-all(B)) ==
// offer-all(A u B) for sets of any size, by induction on |A| — stated, not mechanised)
//vf: qtimeout=30s deadline=8m t.deadline=40m
func ZZ_C14_OfferCommutesWithMerge() {
	p := zzPrecSmall()
	x, y := zzState(p), zzState(p)
	a := zzvf.Uint32()
	right := x.Merge(y)
	right.offerHashed(a)
	x.offerHashed(a)
	left := x.Merge(y)
	zzvf.Assert(zzvf.Same(zzRegs(left), zzRegs(right)), "merge/offer-commutes-with-merge")
	zzvf.Reach("offercommutes")
}

// bounded instance from the empty state: merging counters equals the counter that saw
// the union (|A|,|B| <= 1 quick, <= 2 thorough)
//vf: qtimeout=30s deadline=8m t.deadline=40m
func ZZ_C14_MergeIsUnion() {
	p := zzPrecSmall()
	na, nb := 1, zzvf.Choose(2)
	if zzvf.Thorough() {
		na, nb = zzvf.Choose(3), zzvf.Choose(3)
	}
	x, y, u := NewHyperLogLogInt(p), NewHyperLogLogInt(p), NewHyperLogLogInt(p)
	for i := 0; i < na; i++ {
		v := zzvf.Uint32()
		x.offerHashed(v)
		u.offerHashed(v)
	}
	for i := 0; i < nb; i++ {
		v := zzvf.Uint32()
		y.offerHashed(v)
		u.offerHashed(v)
	}
	zzvf.Assert(zzvf.Same(zzRegs(x.Merge(y)), zzRegs(u)), "merge/equals-union")
	x.AddAll(y)
	zzvf.Assert(zzvf.Same(zzRegs(x), zzRegs(u)), "addall/equals-union")
	zzvf.Reach("mergeunion")
}

// serialising then rebuilding preserves precision and every register (hence the
// estimate, a function of that state)
func ZZ_C14_Serialization() {
	p := zzPrec()
	h := zzState(p)
	b := h.GetBytes()
	g := BuildHyperLogLog(b)
	zzvf.Assert(g != nil, "serial/rebuilds")
	zzvf.Assert(g.log2m == h.log2m, "serial/precision")
	zzvf.Assert(zzvf.Same(g.registerSet.M, h.registerSet.M), "serial/register-words")
	zzvf.Assert(zzvf.And(g.registerSet.Count == h.registerSet.Count, g.registerSet.Size == h.registerSet.Size), "serial/shape")
	zzvf.Assert(g.alphaMM == h.alphaMM, "serial/estimator-constant")
	zzvf.Reach("serialization")
}

// RegisterSet.Set / Get are inverse on every position, other registers untouched
func ZZ_C14_RegisterSetGetSet() {
	p := zzPrec()
	h := zzState(p)
	old := zzRegs(h)
	pos := zzvf.Uint32()
	zzvf.Assume(pos < uint32(1)<<p)
	v := zzvf.Uint32()
	zzvf.Assume(v < 32)
	h.registerSet.Set(pos, v)
	now := zzRegs(h)
	ok := true
	for i := range old {
		ok = zzvf.And(ok, now[i] == uint32(zzvf.IteInt64(uint32(i) == pos, int64(v), int64(old[i]))))
	}
	zzvf.Assert(ok, "registerset/set-then-get")
	zzvf.Reach("getset")
}

// the estimate is a function of the register state only (no stale cache): on CONCRETE
// histories (float arithmetic is evaluated by the interpreter) a counter that was queried,
// then merged into / offered to, reports the same estimate as a counter rebuilt from the
// same items, and as the counter restored from its serialised form
//vf: paths=200 visits=5000
func ZZ_C14_EstimateFollowsRegisters() {
	p := []uint32{4, 10}[zzvf.Choose(2)]
	x, y, u := NewHyperLogLogInt(p), NewHyperLogLogInt(p), NewHyperLogLogInt(p)
	for i := uint32(0); i < 6; i++ {
		x.Offer(i * 7919)
		u.Offer(i * 7919)
	}
	for i := uint32(0); i < 9; i++ {
		y.Offer(1000003 + i*104729)
		u.Offer(1000003 + i*104729)
	}
	c0 := x.Cardinality()
	how := zzvf.Choose(3)
	switch how {
	case 0:
		x.AddAll(y)
	case 1:
		for i := uint32(0); i < 9; i++ {
			x.Offer(1000003 + i*104729)
		}
	case 2:
		x = x.Merge(y)
	}
	c1 := x.Cardinality()
	zzvf.Assert(zzvf.Same(zzRegs(x), zzRegs(u)), "estimate/registers-equal-the-rebuilt-counter")
	zzvf.Assert(c1 == u.Cardinality(), "estimate/queried-then-extended-counter-reports-like-the-rebuilt-one")
	r := BuildHyperLogLog(x.GetBytes())
	zzvf.Assert(r.Cardinality() == c1, "estimate/restored-counter-reports-the-same")
	zzvf.Observe("c0", c0)
	zzvf.Observe("c1", c1)
	zzvf.Reach("estimatefollows")
}
