//vf:dir io
//vf:go zzProduce
//vf:go zzEcho
package io

// Self-test of cooperative goroutines and channels (lexer/parser style producer-consumer).

import (
	"context"

	"github.com/whatap/golib/zzvf"
)

type zzItem struct {
	k int
	s string
}

func zzProduce(in string, out chan zzItem) {
	start := 0
	for i := 0; i < len(in); i++ {
		if in[i] == ',' {
			out <- zzItem{1, in[start:i]}
			start = i + 1
		}
	}
	out <- zzItem{1, in[start:]}
	out <- zzItem{0, ""}
	close(out)
}

func zzEcho(in chan int, out chan int) {
	for v := range in {
		out <- v * 2
	}
	close(out)
}

//vf: paths=200 witnesses=3
func ZZ_SELF_Coroutines() {
	s := zzvf.String(3)
	ch := make(chan zzItem)
	go zzProduce("a"+s+"b", ch)
	n := 0
	total := 0
	for it := range ch {
		if it.k == 0 {
			break
		}
		n++
		total += len(it.s)
	}
	zzvf.Observe("items", n)
	zzvf.Observe("total", total)
	zzvf.Assert(total+n-1 == 5, "coro/split-preserves-length")
	// buffered channel + echo goroutine (main sends, coroutine receives)
	in, out := make(chan int, 1), make(chan int)
	go zzEcho(in, out)
	x := zzvf.Int()
	in <- x
	in <- 7
	zzvf.Observe("echo1", <-out)
	zzvf.Observe("echo2", <-out)
	close(in)
	_, ok := <-out
	zzvf.Observe("closed", !ok)
	zzvf.Reach("coro")
}

//vf: paths=50 witnesses=2
func ZZ_SELF_ContextSelect() {
	ctx, cancel := context.WithCancel(context.Background())
	n := 0
	for i := 0; i < 3; i++ {
		select {
		case <-ctx.Done():
			n += 100
		default:
			n++
			if i == 1 {
				cancel()
			}
		}
	}
	zzvf.Observe("n", n)
	zzvf.Observe("err", ctx.Err() != nil)
	ch := make(chan int, 1)
	sent := 0
	for i := 0; i < 2; i++ {
		select {
		case ch <- i:
			sent++
		default:
		}
	}
	zzvf.Observe("sent", sent)
	zzvf.Observe("got", <-ch)
	zzvf.Reach("ctx")
}
