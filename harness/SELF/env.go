//vf:dir io
package io

// Self-test of the environment models: the ghost file system and the log.Logger model
// are exercised through the real os / ioutil / log API; natively the same calls hit the
// real operating system, and every Observe'd value must agree.

import (
	"io/ioutil"
	"log"
	"os"
	"path/filepath"

	"github.com/whatap/golib/zzvf"
)

func zzErrKind(err error) string {
	switch {
	case err == nil:
		return "nil"
	case os.IsNotExist(err):
		return "notexist"
	case os.IsExist(err):
		return "exist"
	}
	return "other"
}

//vf: paths=200 witnesses=3
func ZZ_SELF_EnvFS() {
	home := zzvf.FsHome()
	defer zzvf.FsCleanup()
	d := filepath.Join(home, "logs")
	_, err := os.Stat(d)
	zzvf.Observe("stat-missing", zzErrKind(err))
	zzvf.Observe("mkdir", zzErrKind(os.Mkdir(d, os.ModePerm)))
	zzvf.Observe("mkdir-again", zzErrKind(os.Mkdir(d, os.ModePerm)))
	zzvf.Observe("mkdir-noparent", zzErrKind(os.Mkdir(filepath.Join(home, "x", "y"), os.ModePerm)))
	p := filepath.Join(d, "b.log")
	_, err = os.OpenFile(p, os.O_WRONLY|os.O_APPEND, 0666)
	zzvf.Observe("open-missing", zzErrKind(err))
	f, err := os.OpenFile(p, os.O_CREATE|os.O_WRONLY|os.O_APPEND, 0666)
	zzvf.Observe("create", zzErrKind(err))
	msg := zzvf.String(3)
	n, err := f.Write([]byte("ab" + msg))
	zzvf.Observe("write-n", n)
	f.WriteString("cd\n")
	zzvf.Observe("name", f.Name() == p)
	// second handle, append
	g, _ := os.OpenFile(p, os.O_CREATE|os.O_WRONLY|os.O_APPEND, 0666)
	g.WriteString("ef")
	f.WriteString("gh")
	b, _ := ioutil.ReadFile(p)
	zzvf.Observe("content", string(b))
	// unlink while open: handle keeps working, name is gone
	zzvf.Observe("remove", zzErrKind(os.Remove(p)))
	_, err = f.WriteString("zz")
	zzvf.Observe("write-after-unlink", zzErrKind(err))
	zzvf.Observe("exists-after-unlink", zzvf.FsExists(p))
	zzvf.Observe("remove-again", zzErrKind(os.Remove(p)))
	zzvf.Observe("close", zzErrKind(f.Close()))
	zzvf.Observe("close-again", f.Close() != nil)
	_, err = f.Write([]byte("q"))
	zzvf.Observe("write-closed", err != nil)
	var nf *os.File
	zzvf.Observe("nil-close", nf.Close() != nil)
	// directory listing is sorted by name; sizes; IsDir
	zzvf.FsWrite(filepath.Join(d, "c.txt"), []byte("12345"), 1500000000000000000)
	zzvf.FsWrite(filepath.Join(d, "a.txt"), []byte("1"), 1500000001000000000)
	os.Mkdir(filepath.Join(d, "b"), os.ModePerm)
	fis, err := ioutil.ReadDir(d)
	zzvf.Observe("readdir-err", zzErrKind(err))
	for _, fi := range fis {
		zzvf.Observe("ent", fi.Name())
		zzvf.Observe("ent-dir", fi.IsDir())
		if !fi.IsDir() {
			zzvf.Observe("ent-size", fi.Size())
			zzvf.Observe("ent-mtime", fi.ModTime().Unix())
		}
	}
	_, err = ioutil.ReadDir(filepath.Join(home, "nope"))
	zzvf.Observe("readdir-missing", zzErrKind(err))
	zzvf.Observe("remove-nonempty", os.Remove(d) != nil)
	// ReadAt / Stat / Read on a read handle
	r, err := os.Open(filepath.Join(d, "c.txt"))
	zzvf.Observe("open", zzErrKind(err))
	st, _ := r.Stat()
	zzvf.Observe("fstat-size", st.Size())
	buf := make([]byte, 3)
	n, err = r.ReadAt(buf, 1)
	zzvf.Observe("readat", string(buf[:n]))
	zzvf.Observe("readat-err", err == nil)
	n, err = r.ReadAt(buf, 3)
	zzvf.Observe("readat-short", string(buf[:n]))
	zzvf.Observe("readat-short-err", err != nil)
	n, err = r.ReadAt(buf, 9)
	zzvf.Observe("readat-past-n", n)
	zzvf.Observe("readat-past-err", err != nil)
	_, err = r.Write([]byte("x"))
	zzvf.Observe("write-on-readonly", err != nil)
	n, _ = r.Read(buf)
	zzvf.Observe("read1", string(buf[:n]))
	n, _ = r.Read(buf)
	zzvf.Observe("read2", string(buf[:n]))
	n, err = r.Read(buf)
	zzvf.Observe("read3-n", n)
	zzvf.Observe("read3-eof", err != nil)
	r.Close()
	// truncate on open, rename, write-file
	t, _ := os.OpenFile(filepath.Join(d, "c.txt"), os.O_WRONLY|os.O_TRUNC, 0644)
	t.WriteString("new")
	t.Sync()
	t.Close()
	b, _ = os.ReadFile(filepath.Join(d, "c.txt"))
	zzvf.Observe("after-trunc", string(b))
	zzvf.Observe("rename", zzErrKind(os.Rename(filepath.Join(d, "c.txt"), filepath.Join(d, "a.txt"))))
	zzvf.Observe("list", len(zzvf.FsList(d)))
	b, _ = os.ReadFile(filepath.Join(d, "a.txt"))
	zzvf.Observe("after-rename", string(b))
	zzvf.Observe("rename-missing", zzErrKind(os.Rename(filepath.Join(d, "c.txt"), filepath.Join(d, "a.txt"))))
	// path traversal resolves the same way
	_, err = os.Stat(filepath.Join(d, "..", "logs", "a.txt"))
	zzvf.Observe("dotdot", zzErrKind(err))
	zzvf.Reach("env-fs")
}

//vf: paths=200 witnesses=2
func ZZ_SELF_EnvLog() {
	home := zzvf.FsHome()
	defer zzvf.FsCleanup()
	p := filepath.Join(home, "x.log")
	f, _ := os.OpenFile(p, os.O_CREATE|os.O_WRONLY|os.O_APPEND, 0666)
	l := log.New(os.Stdout, "", log.LstdFlags)
	l.SetOutput(f)
	l.SetFlags(log.Ldate | log.Ltime)
	s := zzvf.String(2)
	l.Println("")
	l.Println("[Warn] ", s+"\n")
	l.Printf("%s-%d", s, 7)
	l.Print("x", "y")
	b, _ := zzvf.FsRead(p)
	h := len(zzvf.GlogHeader)
	zzvf.Observe("len", len(b))
	if len(b) == 4*h+1+(8+2+2)+(2+3)+3 {
		zzvf.Observe("line1", string(b[h:h+1]))
		o := h + 1 + h
		zzvf.Observe("line2", string(b[o:o+12]))
		o += 12 + h
		zzvf.Observe("line3", string(b[o:o+5]))
		o += 5 + h
		zzvf.Observe("line4", string(b[o:]))
	}
	zzvf.Reach("env-log")
}

func zzCrashy(p string) {
	f, _ := os.OpenFile(p, os.O_WRONLY|os.O_TRUNC, 0644)
	defer f.Close()
	f.WriteString("hello")
	f.WriteString("world")
}
