//vf:dir io
package io

// Engine self-test: Go-semantics micro-cases executed symbolically; every Observe'd value
// is evaluated under a solver model and compared with the natively compiled run.

import (
	"bytes"
	"errors"
	"fmt"
	"sort"
	"strconv"
	"strings"

	"github.com/whatap/golib/zzvf"
)

type zzShape interface{ Area() int }
type zzSq struct{ s int }
type zzRect struct{ w, h int }

func (q zzSq) Area() int    { return q.s * q.s }
func (r *zzRect) Area() int { return r.w * r.h }

func zzDeferOrder() (s string) {
	defer func() { s += "a" }()
	defer func() {
		if r := recover(); r != nil {
			s += "r"
		}
	}()
	defer func() { s += "b" }()
	var m map[string]int
	m["x"] = 1
	return "never"
}

func zzDiv(a, b int32) (q int32, p bool) {
	defer func() {
		if recover() != nil {
			p = true
		}
	}()
	return a / b, false
}

type zzByLen []string

func (a zzByLen) Len() int           { return len(a) }
func (a zzByLen) Swap(i, j int)      { a[i], a[j] = a[j], a[i] }
func (a zzByLen) Less(i, j int) bool { return len(a[i]) < len(a[j]) }

//vf: witnesses=6
func ZZ_SELF_Arith() {
	a, b := zzvf.Int32(), zzvf.Int32()
	u := zzvf.Uint16()
	sh := zzvf.Uint8()
	zzvf.Observe("add", a+b)
	zzvf.Observe("mul", a*b)
	zzvf.Observe("shl", a<<sh)
	zzvf.Observe("shr", a>>sh)
	zzvf.Observe("ushr", uint32(a)>>sh)
	zzvf.Observe("andnot", a&^b)
	zzvf.Observe("conv8", int8(a))
	zzvf.Observe("conv64", int64(a))
	zzvf.Observe("convu64", uint64(uint32(a)))
	zzvf.Observe("u16", int32(u)+1)
	zzvf.Observe("bytesub", int(byte(a)-byte(b)))
	zzvf.Observe("neg", -a)
	zzvf.Observe("not", ^a)
	q, p := zzDiv(a, b)
	zzvf.Observe("div", q)
	zzvf.Observe("divp", p)
	if b != 0 {
		zzvf.Observe("rem", a%b)
		zzvf.Observe("udiv", uint32(a)/uint32(b))
	}
	zzvf.Observe("lt", a < b)
	zzvf.Observe("ult", uint32(a) < uint32(b))
	zzvf.Reach("arith")
}

//vf: witnesses=6
func ZZ_SELF_Float() {
	f, g := zzvf.Float32(), zzvf.Float64()
	zzvf.Assume(f == f)
	zzvf.Assume(g == g)
	zzvf.Observe("f64", float64(f))
	zzvf.Observe("lt", float64(f) < g)
	zzvf.Observe("eq", float64(f) == g)
	i := zzvf.Int32()
	zzvf.Observe("i2f", float64(i))
	zzvf.Observe("i2f32", float32(i))
	zzvf.Observe("neg", -g)
	if g > -1000000 && g < 1000000 {
		zzvf.Observe("f2i", int64(g))
		zzvf.Observe("sum", g+1.5)
	}
	zzvf.Reach("float")
}

//vf: witnesses=6
func ZZ_SELF_Concrete() {
	s := []int{1, 2, 3, 4}
	t := s[1:3]
	t = append(t, 9)
	zzvf.Observe("alias", s[3])
	t = append(t, 10, 11)
	t[0] = 7
	zzvf.Observe("noalias", s[1])
	zzvf.Observe("defer", zzDeferOrder())
	var sh zzShape = zzSq{3}
	zzvf.Observe("area1", sh.Area())
	sh = &zzRect{2, 5}
	zzvf.Observe("area2", sh.Area())
	switch x := sh.(type) {
	case zzSq:
		zzvf.Observe("ts", 1)
	case *zzRect:
		zzvf.Observe("ts", x.w)
	}
	_, ok := sh.(zzSq)
	zzvf.Observe("ok", ok)
	m := map[string]int{"a": 1}
	m["b"] = 2
	m["a"] += 5
	delete(m, "b")
	v, ok2 := m["b"]
	zzvf.Observe("m", m["a"]*10+v+len(m))
	zzvf.Observe("ok2", ok2)
	var bb bytes.Buffer
	bb.Write([]byte{1, 2})
	p := make([]byte, 4)
	n, err := bb.Read(p)
	zzvf.Observe("shortread", n)
	zzvf.Observe("errnil", err == nil)
	n, err = bb.Read(p)
	zzvf.Observe("eofn", n)
	zzvf.Observe("eof", err != nil)
	words := []string{"ccc", "a", "bb", "dddd", ""}
	sort.Sort(zzByLen(words))
	zzvf.Observe("sorted", strings.Join(words, ","))
	zzvf.Observe("itoa", strconv.Itoa(-12345))
	x, e := strconv.Atoi("678")
	zzvf.Observe("atoi", x)
	zzvf.Observe("atoie", e == nil)
	_, e = strconv.Atoi("6x8")
	zzvf.Observe("atoie2", e == nil)
	zzvf.Observe("split", len(strings.Split("a=b;c=d", ";")))
	zzvf.Observe("trim", strings.TrimSpace("  hi \n"))
	zzvf.Observe("lower", strings.ToLower("HeLLo"))
	zzvf.Observe("idx", strings.Index("hello world", "o w"))
	zzvf.Observe("hasp", strings.HasPrefix("hello", "he"))
	zzvf.Observe("sprintf", fmt.Sprintf("%d-%s-%02d", 5, "x", 7))
	er := errors.New("boom")
	zzvf.Observe("err", er.Error())
	zzvf.Observe("runes", string(rune(65))+string([]byte{66}))
	var arr [4]int
	pa := &arr
	pa[2] = 5
	cp := arr
	cp[2] = 6
	zzvf.Observe("arrcopy", arr[2]*10+cp[2])
	f := func(k int) func() int { return func() int { k++; return k } }
	g := f(10)
	g()
	zzvf.Observe("closure", g())
	zzvf.Observe("panics", zzvf.Panics(func() { _ = s[len(words)+10] }))
	zzvf.Reach("concrete")
}

//vf: witnesses=6
func ZZ_SELF_SymIndex() {
	tab := [8]uint32{3, 1, 4, 1, 5, 9, 2, 6}
	i := zzvf.Uint8()
	zzvf.Assume(i < 8)
	zzvf.Observe("tab", tab[i])
	sl := []uint16{10, 20, 30}
	j := zzvf.Int()
	p := zzvf.Panics(func() { sl[j] = 99 })
	zzvf.Observe("p", p)
	zzvf.Observe("sl1", sl[1])
	s := zzvf.String(3)
	zzvf.Observe("s", s)
	zzvf.Observe("cmp", s < "abc")
	zzvf.Observe("eq", s == "abc")
	zzvf.Observe("cat", s+"!"+s[1:2])
	zzvf.Observe("idx", strings.Index(s, "b"))
	b := zzvf.Bytes(2)
	zzvf.Observe("b", b)
	zzvf.Observe("str", string(b))
	zzvf.Reach("symindex")
}

type zzN struct {
	key  int
	next *zzN
}

// parallel phi evaluation (swap in a loop header), list surgery with a trailing pointer
//vf: witnesses=6
func ZZ_SELF_Phi() {
	a, b := zzvf.Int32(), zzvf.Int32()
	for i := 0; i < 5; i++ {
		a, b = b, a+b
	}
	zzvf.Observe("fib", a)
	n0 := &zzN{key: 0}
	n3 := &zzN{key: 3, next: n0}
	head := n3
	key := int(zzvf.Uint8() % 4)
	var prev *zzN
	for e := head; e != nil; e = e.next {
		if e.key == key {
			if prev != nil {
				prev.next = e.next
			} else {
				head = e.next
			}
			break
		}
		prev = e
	}
	cnt := 0
	for e := head; e != nil; e = e.next {
		cnt = cnt*10 + e.key + 1
	}
	zzvf.Observe("list", cnt)
	zzvf.Reach("phi")
}

// ranged variables, affine div/rem folding, decimal formatting models
//vf: witnesses=8
func ZZ_SELF_Ranges() {
	v := zzvf.IntRange(0, 23)
	t := int64(946684800000) + int64(v)*3600000 + 59*60000 + 7
	d := (t - 946684800000) % 86400000
	zzvf.Observe("hh", d/3600000)
	zzvf.Observe("mm", d%3600000/60000)
	zzvf.Observe("q", (int64(v)*7+3)/7)
	zzvf.Observe("r", (int64(v)*7+3)%7)
	zzvf.Observe("bucket", (int64(v)+100)/1000)
	zzvf.Observe("f2", fmt.Sprintf("%02d:%03d|%d", v, v, v))
	w := zzvf.IntRange(5, 1234)
	zzvf.Observe("itoa", strconv.Itoa(w))
	zzvf.Observe("neg", strconv.Itoa(-w))
	zzvf.Observe("fmtneg", fmt.Sprintf("%d", int32(-w)))
	x, err := strconv.Atoi(strconv.Itoa(w))
	zzvf.Observe("atoi", x)
	zzvf.Observe("atoierr", err == nil)
	zzvf.Observe("cmp", w < 5)
	zzvf.Observe("cmp2", w <= 1234)
	zzvf.Reach("ranges")
}

//vf: paths=200 witnesses=4
func ZZ_SELF_Runes() {
	s := zzvf.String(2)
	rs := []rune("a" + s)
	zzvf.Observe("n", len(rs))
	for _, r := range rs {
		zzvf.Observe("r", int(r))
	}
	back := string(rs)
	zzvf.Observe("back", back)
	zzvf.Reach("runes")
}
