//vf:dir lang/service
package service

// C08 (c): transaction records (version-tagged) and service records (type-tagged) survive
// serialization as self-delimiting records.
//
// TxRecord: populated by zzvf.Fill; the presence conditions of the optional sections are
// explored explicitly:
//   multi-trace ids      Mtid == 0 (Mdepth / Mcaller must NOT come back) / Mtid != 0
//   caller identity      McallerPcode == 0 (the five caller fields must not come back) / != 0
//   custom fields        nil / empty / 1 / 2 entries (concrete keys, text or decimal payload)
//   error                Error id zero / non-zero  x  ErrorLevel zero / non-zero
// The expected record is the input with absent sections zeroed and -- the decoder's
// deliberate rule -- ErrorLevel 0 replaced by WARNING (20) when an error id is present.
// The record is followed by one more (symbolic) byte on the same stream: the decoder must
// stop exactly in front of it.
//
// Two harnesses keep the product small: ZZ_C08_TxRecord rotates the Fill focus with all
// sections present; ZZ_C08_TxRecordSections enumerates all section combinations without
// focus (all scalars still symbolic, within one length class).
//
// Restrictions: at most 2 custom fields (the count is written as ONE byte: more than 255
// entries cannot be represented; out of bounds here); no custom field with a nil value
// (the writer deliberately turns it into an empty text).

import (
	"github.com/whatap/golib/io"
	"github.com/whatap/golib/lang/value"
	"github.com/whatap/golib/zzvf"
)

var zzFieldKeys = []string{"p", "y"}

func zzFields(c int) *value.MapValue {
	switch c {
	case 0:
		return nil
	case 1:
		return value.NewMapValue()
	}
	m := value.NewMapValue()
	if c == 4 { // one text entry, no further choice (focus-rotation harness)
		m.PutString(zzFieldKeys[0], zzvf.String(1))
		return m
	}
	k := zzvf.Choose(2)
	for i := 0; i < c-1; i++ {
		if (i+k)%2 == 0 {
			m.PutString(zzFieldKeys[i], zzvf.String(1))
		} else {
			m.PutLong(zzFieldKeys[i], zzvf.Int64())
		}
	}
	return m
}

var zzFieldsCls = []string{"nil", "empty", "1", "2", "1"}

func zzTxRecord(focus int, mt, caller, fields, errc int) {
	t := NewTxRecord()
	zzvf.Fill(t, focus, (focus+1)&1)
	if mt == 0 {
		t.Mtid = 0
	}
	if caller == 0 {
		t.McallerPcode = 0
	}
	t.Fields = zzFields(fields)
	if errc&1 == 0 {
		t.Error = 0
	}
	if errc&2 == 0 {
		t.ErrorLevel = 0
	}

	// ---- expectation (from the property text, not from the code) ----
	e := *t
	mtCls, callerCls := "present", "present"
	if t.Mtid == 0 { // symbolic only when Mtid is the focus slot
		e.Mdepth, e.Mcaller = 0, 0
		mtCls = "absent"
	}
	if t.McallerPcode == 0 {
		e.McallerOkind, e.McallerOid, e.McallerSpec, e.McallerUrl, e.MthisSpec = 0, 0, 0, 0, 0
		callerCls = "absent"
	}
	e.ErrorLevel = byte(zzvf.IteInt(zzvf.And(t.ErrorLevel == 0, t.Error != 0), int(WARNING), int(t.ErrorLevel)))

	// ---- encode: record, then one foreign byte ----
	rec := t.ToBytes()
	sentinel := zzvf.Byte()
	out := io.NewDataOutputX()
	t.Write(out)
	zzvf.Assert(zzvf.Same(out.ToByteArray(), rec), "TxRecord/tobytes-equals-write")
	zzvf.Assert(len(rec) > 0 && rec[0] == 10, "TxRecord/version-tag-first")
	out.WriteByte(sentinel)
	b := out.ToByteArray()

	in := io.NewDataInputX(b)
	var q *TxRecord
	failed := zzvf.Panics(func() { q = NewTxRecord().Read(in) })
	zzvf.Assert(!failed, "TxRecord/decodes")
	if failed || q == nil {
		zzvf.Reach("TxRecord")
		return
	}
	zzvf.Assert(in.Available() == 1, "TxRecord/consumed-exactly")
	zzvf.Assert(in.ReadByte() == sentinel, "TxRecord/next-byte-untouched")

	zzvf.AssertCarried(rec, &e, q, "TxRecord")
	zzvf.Assert(zzvf.And(q.Mtid == e.Mtid, zzvf.And(q.Mdepth == e.Mdepth, q.Mcaller == e.Mcaller)), "TxRecord/multi-trace/"+mtCls)
	zzvf.Assert(zzvf.And(zzvf.And(q.McallerPcode == e.McallerPcode, zzvf.And(q.McallerOkind == e.McallerOkind, q.McallerOid == e.McallerOid)),
		zzvf.And(q.McallerSpec == e.McallerSpec, zzvf.And(q.McallerUrl == e.McallerUrl, q.MthisSpec == e.MthisSpec))), "TxRecord/caller-identity/"+callerCls)
	zzvf.Assert(q.ErrorLevel == e.ErrorLevel, "TxRecord/error-level/"+[]string{"noerror-level0", "error-level0-defaults-to-warning", "noerror-levelN", "error-levelN"}[errc])
	if fields <= 1 {
		zzvf.Assert(q.Fields == nil || q.Fields.Size() == 0, "TxRecord/fields-"+zzFieldsCls[fields]+"/stay-absent")
	} else {
		ok := q.Fields != nil && q.Fields.Size() == t.Fields.Size()
		if ok {
			for _, k := range zzFieldKeys {
				ok = zzvf.And(ok, zzvf.Same(q.Fields.Get(k), t.Fields.Get(k)))
			}
		}
		zzvf.Assert(ok, "TxRecord/fields-"+zzFieldsCls[fields]+"/restored")
	}
	zzvf.Assert(zzvf.Same(&e, q, "Fields"), "TxRecord/equals-expected")

	// ToObject is Read over a private stream
	q2 := NewTxRecord().ToObject(rec)
	zzvf.Assert(zzvf.Same(q2, q), "TxRecord/toobject-equals-read")
	// re-encoding: identical unless the decoder's defaulting rule changed the level
	defaulted := zzvf.And(t.ErrorLevel == 0, t.Error != 0)
	zzvf.Assert(zzvf.Implies(zzvf.Not(defaulted), zzvf.Same(q.ToBytes(), rec)), "TxRecord/reencode-identical")
	zzvf.Reach("TxRecord")
}

//vf: t.paths=400000 t.deadline=20m
func ZZ_C08_TxRecord() {
	n := zzvf.FillCount(NewTxRecord())
	fields := 4
	if zzvf.Thorough() { // focus rotation x custom-field shapes (1 / 2 entries, both payload orders)
		fields = 2 + zzvf.Choose(2)
	}
	zzTxRecord(zzvf.Choose(n+1)-1, 1, 1, fields, 3)
}

func ZZ_C08_TxRecordSections() {
	zzTxRecord(-1, zzvf.Choose(2), zzvf.Choose(2), zzvf.Choose(4), zzvf.Choose(4))
}

// Service records: type tag + body (ToBytes / ToObject). Two records back-to-back on one
// stream: the first under focus rotation, the second pattern-filled.
func zzServiceRoundTrip(name string, mk func() Service, wasPart func(Service) *WasService) {
	p := mk()
	n := zzvf.FillCount(p)
	focus := zzvf.Choose(n+1) - 1
	zzvf.Fill(p, focus, (focus+1)&1)
	if w := wasPart(p); w != nil && zzvf.Choose(2) == 0 {
		w.Mtid = 0 // multi-trace ids absent: still written (as zero), still restored
	}
	p2 := mk()
	zzvf.Fill(p2, -1, 1)

	out := io.NewDataOutputX()
	ToBytes(p, out)
	off1 := out.Size()
	ToBytes(p2, out)
	b := out.ToByteArray()
	zzvf.Assert(b[0] == p.GetServiceType() && CreateService(b[0]) != nil, name+"/type-tag-first")

	in := io.NewDataInputX(b)
	var q, q2 Service
	failed := zzvf.Panics(func() { q = ToObject(in) })
	zzvf.Assert(!failed, name+"/decodes")
	if failed || q == nil {
		zzvf.Reach(name)
		return
	}
	zzvf.Assert(q.GetServiceType() == p.GetServiceType(), name+"/same-service-type")
	zzvf.Assert(len(b)-int(in.Available()) == off1, name+"/reader-offset-equals-writer-offset")
	zzvf.AssertCarried(b, p, q, name)
	failed = zzvf.Panics(func() { q2 = ToObject(in) })
	zzvf.Assert(!failed && q2 != nil, name+"/second/decodes")
	if failed || q2 == nil {
		zzvf.Reach(name)
		return
	}
	zzvf.Assert(in.Available() == 0, name+"/consumed-exactly")
	zzvf.AssertCarried(b, p2, q2, name+"/second")
	o2 := io.NewDataOutputX()
	ToBytes(q, o2)
	ToBytes(q2, o2)
	zzvf.Assert(zzvf.Same(o2.ToByteArray(), b), name+"/reencode-identical")
	zzvf.Reach(name)
}

func ZZ_C08_WasService() {
	zzServiceRoundTrip("WasService", func() Service { return NewWasService() }, func(s Service) *WasService { return s.(*WasService) })
}

func ZZ_C08_WasService2() {
	zzServiceRoundTrip("WasService2", func() Service { return NewWasService2() }, func(s Service) *WasService { return &s.(*WasService2).WasService })
}

func ZZ_C08_AppService() {
	zzServiceRoundTrip("AppService", func() Service { return NewAppService() }, func(s Service) *WasService { return nil })
}
