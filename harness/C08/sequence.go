//vf:dir lang/step
package step

// C08 (b): a profile is a concatenation of type-tagged steps and is self-delimiting.
//
// A list of n steps (quick: n <= 2, thorough: n <= 3), every type chosen over the whole
// registry (the 9 types CreateStep knows), is written back-to-back with ToBytesStep and
// decoded step by step from ONE DataInputX. One step of the list is the focus step (one
// of its Fill slots ranges over all values / shapes: every length class of every
// variable-length field), the other steps are pattern-filled (small, still symbolic).
// Obligations per decoded step i: the decoder returns, same step type as written, every
// written field restored, the reader's offset after step i equals the writer's offset
// after step i; finally the whole input is consumed and ToBytesStep is the plain
// concatenation of the single-step encodings.

import (
	"github.com/whatap/golib/io"
	"github.com/whatap/golib/zzvf"
)

var zzRegistry = []byte{STEP_METHOD_X, STEP_SQL_X, STEP_RESULTSET, STEP_SOCKET, STEP_HTTPCALL_X,
	STEP_ACTIVE_STACK, STEP_MESSAGE, STEP_SECURE_MESSAGE, STEP_DBC}
var zzRegName = []string{"MethodStepX", "SqlStepX", "ResultSetStep", "SocketStep", "HttpcStepX",
	"ActiveStackStep", "MessageStep", "SecureMsgStep", "DBCStep"}

func zzSequence(maxN int) {
	n := zzvf.Choose(maxN + 1)
	fi := 0 // index of the focus step
	if n > 1 {
		fi = zzvf.Choose(n)
	}
	steps := make([]Step, n)
	kind := make([]int, n)
	off := make([]int, n)
	out := io.NewDataOutputX()
	for i := 0; i < n; i++ {
		kind[i] = zzvf.Choose(len(zzRegistry))
		s := CreateStep(zzRegistry[kind[i]])
		zzvf.Assert(s != nil && s.GetStepType() == zzRegistry[kind[i]], "Seq/factory-creates-registered-type")
		if i == fi {
			zzvf.Fill(s, zzvf.Choose(zzvf.FillCount(s)+1)-1, 0)
		} else {
			zzvf.Fill(s, -1, 1)
		}
		steps[i] = s
		WriteStep(out, s)
		off[i] = out.Size()
	}
	b := ToBytesStep(steps)
	zzvf.Assert(zzvf.Same(b, out.ToByteArray()), "Seq/tobytes-is-concatenation")
	in := io.NewDataInputX(b)
	for i := 0; i < n; i++ {
		nm := zzRegName[kind[i]]
		var q Step
		failed := zzvf.Panics(func() { q = ReadStep(in) })
		zzvf.Assert(!failed, "Seq/"+nm+"/decodes")
		if failed || q == nil {
			zzvf.Reach("Seq")
			return
		}
		zzvf.Assert(q.GetStepType() == steps[i].GetStepType(), "Seq/"+nm+"/same-step-type")
		zzvf.Assert(len(b)-int(in.Available()) == off[i], "Seq/"+nm+"/reader-offset-equals-writer-offset")
		zzvf.AssertCarried(b, steps[i], q, "Seq/"+nm)
	}
	zzvf.Assert(in.Available() == 0, "Seq/consumed-exactly")
	zzvf.Reach("Seq")
}

//vf: paths=60000 t.paths=2000000 t.deadline=30m
func ZZ_C08_Sequence() {
	if zzvf.Thorough() {
		zzSequence(3)
	} else {
		zzSequence(2)
	}
}
