//vf:dir lang/step
package step

// C08 (a)+(d): every step type survives its own serialization.
//
// One harness function per step type. The step is populated by zzvf.Fill under focus
// rotation (ONE slot ranges over all its values / shapes per run, the others stay in a
// small class; the driver rotates the focus over all slots and over no focus at all),
// written with WriteStep (type tag + body) and read back with ReadStep from the same
// bytes. Obligations: the decoder returns (no failure), same step type, every field the
// writer put on the wire is restored (one obligation per field), the decoder consumes
// exactly the bytes the encoder produced, and re-encoding the result gives the same bytes.
//
// Version bytes: HttpcStepX.Version is a Fill slot, i.e. symbolic; the writer's switch
// splits it into 1 / 2 / any other value.
//
// Bounds: strings / blobs of length 0..2 (+ nil), int arrays nil / empty / 2 elements,
// message attributes nil / 0..2 entries with concrete keys and symbolic payloads.

import (
	"github.com/whatap/golib/io"
	"github.com/whatap/golib/lang/value"
	"github.com/whatap/golib/zzvf"
)

// zzRW: what the round trip needs (SqlStep_3 does not implement Step: its IsTrue takes a byte).
type zzRW interface {
	GetStepType() byte
	Write(out *io.DataOutputX)
	Read(in *io.DataInputX)
}

func zzEncode(p zzRW) []byte {
	out := io.NewDataOutputX()
	if s, ok := p.(Step); ok {
		WriteStep(out, s)
	} else {
		out.WriteByte(p.GetStepType())
		p.Write(out)
	}
	return out.ToByteArray()
}

// zzStepRoundTrip. registered: decode through the factory (ReadStep); otherwise the tag is
// skipped and mk().Read decodes the body (types the factory does not know).
// class(p) names the input class (part of the labels of the whole-message obligations);
// post states the expectations AssertCarried cannot see (sections that were NOT written).
func zzStepRoundTrip(name string, p zzRW, registered bool, mk func() zzRW, extra func(), class func() string, post func(q zzRW, cls string)) {
	n := zzvf.FillCount(p)
	focus := zzvf.Choose(n+1) - 1
	zzvf.Fill(p, focus, zzvf.Choose(2))
	if extra != nil {
		extra()
	}
	b := zzEncode(p)
	cls := ""
	if class != nil {
		cls = "/" + class()
	}
	zzvf.Assert(len(b) > 0 && b[0] == p.GetStepType(), name+"/type-tag-first")
	in := io.NewDataInputX(b)
	var q zzRW
	failed := zzvf.Panics(func() {
		if registered {
			q = ReadStep(in)
		} else {
			in.ReadByte()
			q = mk()
			q.Read(in)
		}
	})
	zzvf.Assert(!failed, name+cls+"/decodes")
	if failed || q == nil {
		zzvf.Reach(name)
		return
	}
	zzvf.Assert(q.GetStepType() == p.GetStepType(), name+"/same-step-type")
	zzvf.Assert(in.Available() == 0, name+cls+"/consumed-exactly")
	zzvf.AssertCarried(b, p, q, name)
	if post != nil {
		post(q, cls)
	}
	zzvf.Assert(zzvf.Same(zzEncode(q), b), name+cls+"/reencode-identical")
	zzvf.Reach(name)
}

func ZZ_C08_MethodStepX() {
	zzStepRoundTrip("MethodStepX", NewMethodStepX(), true, nil, nil, nil, nil)
}

func ZZ_C08_SqlStepX() {
	zzStepRoundTrip("SqlStepX", NewSqlStepX(), true, nil, nil, nil, nil)
}

func ZZ_C08_ResultSetStep() {
	zzStepRoundTrip("ResultSetStep", NewResultSetStep(), true, nil, nil, nil, nil)
}

func ZZ_C08_SocketStep() {
	zzStepRoundTrip("SocketStep", NewSocketStep(), true, nil, nil, nil, nil)
}

func ZZ_C08_ActiveStackStep() {
	zzStepRoundTrip("ActiveStackStep", NewActiveStackStep(), true, nil, nil, nil, nil)
}

func ZZ_C08_MessageStep() {
	zzStepRoundTrip("MessageStep", NewMessageStep(), true, nil, nil, nil, nil)
}

func ZZ_C08_SecureMsgStep() {
	zzStepRoundTrip("SecureMsgStep", NewSecureMsgStep(), true, nil, nil, nil, nil)
}

func ZZ_C08_DBCStep() {
	zzStepRoundTrip("DBCStep", NewDBCStep(), true, nil, nil, nil, nil)
}

// HttpcStepX: versions 1, 2 and unknown. The version-2 details (StepId, Driver, OriginUrl,
// Param) are restored exactly when the written version was 2 (AssertCarried: they are on
// the wire only then) and are absent (zero) otherwise.
func ZZ_C08_HttpcStepX() {
	p := NewHttpcStepX()
	zzStepRoundTrip("HttpcStepX", p, true, nil, nil,
		func() string {
			// decided by the writer's switch on this path: no new fork
			if p.Version == 1 {
				return "v1"
			}
			if p.Version == 2 {
				return "v2"
			}
			return "vUnknown"
		},
		func(qq zzRW, cls string) {
			q := qq.(*HttpcStepX)
			if cls == "/v2" {
				zzvf.Assert(zzvf.And(zzvf.And(q.StepId == p.StepId, q.Driver == p.Driver), zzvf.And(q.OriginUrl == p.OriginUrl, q.Param == p.Param)),
					"HttpcStepX/v2/details-restored")
			} else {
				zzvf.Assert(zzvf.And(zzvf.And(q.StepId == 0, q.Driver == ""), zzvf.And(q.OriginUrl == "", q.Param == "")),
					"HttpcStepX"+cls+"/details-absent")
			}
		})
}

var zzAttrKeys = []string{"p", "y"}

// zzAttr: message attributes: nil (n < 0), or a map of n = 0..2 entries (text / decimal payloads).
func zzAttr(n int) *value.MapValue {
	if n < 0 {
		return nil
	}
	m := value.NewMapValue()
	k := 0 // payload kinds alternate: at most one decimal (6 length classes)
	if n > 0 {
		k = zzvf.Choose(2)
	}
	for i := 0; i < n; i++ {
		if (i+k)%2 == 0 {
			m.PutString(zzAttrKeys[i], zzvf.String(1))
		} else {
			m.PutLong(zzAttrKeys[i], zzvf.Int64())
		}
	}
	return m
}

func zzSameAttr(a, b *value.MapValue) bool {
	if a == nil || b == nil {
		return a == nil && b == nil
	}
	if a.Size() != b.Size() {
		return false
	}
	ok := true
	for _, k := range zzAttrKeys {
		ok = zzvf.And(ok, zzvf.Same(a.Get(k), b.Get(k)))
	}
	return ok
}

// MessageStepX (type tag 22, not known to the factory: decoded with Read). The attribute
// map is an optional section: written only when Attr != nil.
func ZZ_C08_MessageStepX() {
	p := NewMessageStepX()
	na := zzvf.Choose(4) - 1 // -1: nil
	acls := []string{"attr-nil", "attr-empty", "attr-1", "attr-2"}[na+1]
	zzStepRoundTrip("MessageStepX", p, false, func() zzRW { return NewMessageStepX() },
		func() { p.Attr = zzAttr(na) },
		func() string { return acls },
		func(qq zzRW, cls string) {
			q := qq.(*MessageStepX)
			if na < 0 {
				zzvf.Assert(q.Attr == nil, "MessageStepX/attr-nil/stays-absent")
			} else {
				zzvf.Assert(zzSameAttr(p.Attr, q.Attr), "MessageStepX/"+acls+"/attributes-restored")
			}
			zzvf.Assert(zzvf.And(zzvf.And(q.Title == p.Title, q.Desc == p.Desc), q.Ctr == p.Ctr), "MessageStepX/"+acls+"/text-restored")
		})
}

// SqlStep_3 (legacy layout, not known to the factory, not a Step): three optional
// sections selected by bits 1 / 2 / 4 of its own Opt byte.
func ZZ_C08_SqlStep_3() {
	p := NewSqlStep_3()
	zzStepRoundTrip("SqlStep_3", p, false, func() zzRW { return NewSqlStep_3() }, nil,
		func() string {
			s := "opt"
			if p.Opt&1 != 0 {
				s += "-params"
			}
			if p.Opt&2 != 0 {
				s += "-resources"
			}
			if p.Opt&4 != 0 {
				s += "-stack"
			}
			return s
		},
		func(qq zzRW, cls string) {
			q := qq.(*SqlStep_3)
			if p.Opt&1 == 0 {
				zzvf.Assert(len(q.P1) == 0 && len(q.P2) == 0 && q.Pcrc == 0, "SqlStep_3/params-absent")
			}
			if p.Opt&2 == 0 {
				zzvf.Assert(q.StartCpu == 0 && q.Cpu == 0 && q.StartMem == 0 && q.Mem == 0, "SqlStep_3/resources-absent")
			}
			if p.Opt&4 == 0 {
				zzvf.Assert(len(q.Stack) == 0, "SqlStep_3/stack-absent")
			}
		})
}
