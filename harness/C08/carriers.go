//vf:dir lang/pack
package pack

// C08 (e): the packs that carry a profile (ProfilePack, ProfileStepSplitPack,
// ErrorSnapPack1) hand the step stream through unchanged: steps put in with SetProfile,
// pack serialized with its type tag and read back, come out of the carried blob step by
// step, same types, same written fields, blob consumed exactly.
// ProfilePack additionally carries the transaction record (version-tagged, see service.go).
//
// Bounds: 1..2 steps; first step type over the whole registry, second step a MessageStep
// (variable length); all step fields symbolic within one length class.

import (
	"github.com/whatap/golib/io"
	"github.com/whatap/golib/lang/service"
	"github.com/whatap/golib/lang/step"
	"github.com/whatap/golib/lang/value"
	"github.com/whatap/golib/zzvf"
)

var zzStepRegistry = []byte{step.STEP_METHOD_X, step.STEP_SQL_X, step.STEP_RESULTSET, step.STEP_SOCKET, step.STEP_HTTPCALL_X,
	step.STEP_ACTIVE_STACK, step.STEP_MESSAGE, step.STEP_SECURE_MESSAGE, step.STEP_DBC}

var zzStepName = []string{"MethodStepX", "SqlStepX", "ResultSetStep", "SocketStep", "HttpcStepX", "ActiveStackStep", "MessageStep", "SecureMsgStep", "DBCStep"}

func zzCarrier(name string, p Pack, registered bool, mk func() Pack, setProfile func([]step.Step), blob func(Pack) []byte, post func(q Pack)) {
	n := 1 + zzvf.Choose(2)
	steps := make([]step.Step, n)
	k0 := zzvf.Choose(len(zzStepRegistry))
	steps[0] = step.CreateStep(zzStepRegistry[k0])
	zzvf.Fill(steps[0], -1, 1)
	if n > 1 {
		steps[1] = step.NewMessageStep()
		zzvf.Fill(steps[1], -1, 0)
	}
	zzvf.Fill(p, -1, 1)
	setProfile(steps)
	stream := step.ToBytesStep(steps)
	zzvf.Assert(zzvf.Same(blob(p), stream), name+"/setprofile-stores-the-step-stream")

	var b []byte
	if registered {
		b = ToBytesPack(p)
	} else {
		out := io.NewDataOutputX()
		p.Write(out)
		b = out.ToByteArray()
	}
	in := io.NewDataInputX(b)
	var q Pack
	failed := zzvf.Panics(func() {
		if registered {
			q = ReadPack(in)
		} else {
			q = mk()
			q.Read(in)
		}
	})
	zzvf.Assert(!failed, name+"/decodes")
	if failed || q == nil {
		zzvf.Reach(name)
		return
	}
	zzvf.Assert(q.GetPackType() == p.GetPackType(), name+"/same-pack-type")
	zzvf.Assert(in.Available() == 0, name+"/consumed-exactly")
	zzvf.Assert(zzvf.Same(blob(q), stream), name+"/step-stream-unchanged")
	if post != nil {
		post(q)
	}
	sin := io.NewDataInputX(blob(q))
	for i := 0; i < n; i++ {
		var s step.Step
		f := zzvf.Panics(func() { s = step.ReadStep(sin) })
		zzvf.Assert(!f && s != nil, name+"/step/decodes")
		if f || s == nil {
			zzvf.Reach(name)
			return
		}
		zzvf.Assert(s.GetStepType() == steps[i].GetStepType(), name+"/step/same-step-type")
		zzvf.AssertCarried(stream, steps[i], s, name+"/step/"+zzStepName[k0*(1-i)+6*i])
	}
	zzvf.Assert(sin.Available() == 0, name+"/step-stream-consumed-exactly")
	zzvf.Reach(name)
}

func ZZ_C08_Carrier_ProfilePack() {
	p := NewProfilePack()
	zzCarrier("ProfilePack", p, true, nil,
		func(s []step.Step) { p.SetProfile(s) },
		func(q Pack) []byte { return q.(*ProfilePack).Steps },
		func(qq Pack) {
			q := qq.(*ProfilePack)
			zzvf.Assert(q.Transaction != nil, "ProfilePack/transaction-restored")
			if q.Transaction != nil {
				zzvf.Assert(zzvf.Same(q.Transaction, p.Transaction), "ProfilePack/transaction-equal")
			}
		})
}

func ZZ_C08_Carrier_ProfileStepSplitPack() {
	p := NewProfileStepSplitPack()
	zzCarrier("ProfileStepSplitPack", p, false, func() Pack { return NewProfileStepSplitPack() },
		func(s []step.Step) { p.SetProfile(s) },
		func(q Pack) []byte { return q.(*ProfileStepSplitPack).Steps }, nil)
}

func ZZ_C08_Carrier_ErrorSnapPack1() {
	p := NewErrorSnapPack1()
	zzCarrier("ErrorSnapPack1", p, true, nil,
		func(s []step.Step) { p.SetProfile(s) },
		func(q Pack) []byte { return q.(*ErrorSnapPack1).Profile }, nil)
}

var _ = service.NewTxRecord

// a ProfilePack object that decodes two profiles one after the other: the second profile's
// transaction record was written without (some of) the optional sections the first one carried
// (multi-trace ids, caller identity, custom fields), and must come back exactly as a new pack
// decodes it -- nothing of the first record shows through.
func ZZ_C08_ProfilePackSecondRead() {
	mkBytes := func(tx *service.TxRecord, steps []step.Step) []byte {
		p := NewProfilePack()
		zzvf.Fill(p, -1, 1)
		p.Transaction = tx
		p.SetProfile(steps)
		out := io.NewDataOutputX()
		p.Write(out)
		return out.ToByteArray()
	}
	tx1 := service.NewTxRecord()
	zzvf.Fill(tx1, -1, 1)
	tx1.Mtid = zzvf.Int64()
	zzvf.Assume(tx1.Mtid != 0)
	tx1.Mcaller = zzvf.Int64()
	tx1.McallerPcode = zzvf.Int64()
	zzvf.Assume(tx1.McallerPcode != 0)
	tx1.Fields = value.NewMapValue()
	tx1.Fields.PutLong("retries", zzvf.Int64())
	m := step.NewMessageStep()
	zzvf.Fill(m, -1, 0)
	b1 := mkBytes(tx1, []step.Step{m})

	tx2 := service.NewTxRecord()
	zzvf.Fill(tx2, -1, 0)
	if zzvf.Choose(2) == 1 {
		tx2.Mtid, tx2.Mdepth, tx2.Mcaller = 0, 0, 0
	}
	if zzvf.Choose(2) == 1 {
		tx2.McallerPcode, tx2.McallerOkind, tx2.McallerOid, tx2.McallerSpec, tx2.McallerUrl = 0, 0, 0, 0, 0
	}
	if zzvf.Choose(2) == 1 {
		tx2.Fields = nil
	}
	b2 := mkBytes(tx2, nil)

	ref := NewProfilePack()
	ref.Read(io.NewDataInputX(b2))

	rp := NewProfilePack()
	in1 := io.NewDataInputX(b1)
	rp.Read(in1)
	zzvf.Assert(in1.Available() == 0, "ProfilePack/second-read/first-consumed-exactly")
	in2 := io.NewDataInputX(b2)
	rp.Read(in2)
	zzvf.Assert(in2.Available() == 0, "ProfilePack/second-read/second-consumed-exactly")
	zzvf.Assert(rp.Transaction != nil && ref.Transaction != nil, "ProfilePack/second-read/transaction-restored")
	if rp.Transaction != nil && ref.Transaction != nil {
		zzvf.Assert(zzvf.Same(rp.Transaction, ref.Transaction), "ProfilePack/second-read/record-as-a-new-pack-decodes-it")
	}
	zzvf.Assert(zzvf.Same(rp.Steps, ref.Steps), "ProfilePack/second-read/step-stream-as-a-new-pack-decodes-it")
	zzvf.Reach("ProfilePack/second-read")
}
