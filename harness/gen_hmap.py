#!/usr/bin/env python3
"""Generator of the gosym harnesses for /repo/util/hmap.

  C09  thirteen linked hash maps / sets   -> /verif/harness/C09/<type>.go
  C12  four plain (unordered) maps / sets -> /verif/harness/C12/<type>.go
  shared helpers                          -> /verif/harness/{C09,C12}/zz_model.go
  C10  lock discipline of all 17 types    -> /verif/harness/C10/<type>.go (+ zz_c10.go); the hand-written
       /verif/harness/C10/linkedlist.go and queue.go are not touched

Per type two harness functions are emitted:
  ZZ_<P>_<Type>_Pool      concrete keys drawn (zzvf.Choose) from a small pool containing keys that
                          collide in the small tables used; values symbolic
  ZZ_<P>_<Type>_Symbolic  every key fully symbolic (for LinkedKey types: symbolic hash + symbolic id)
Every generated file states its bounds in the doc comment of the harness functions.

Reference model (written from the property text, never calls the code under test): an insertion
ordered slice of (key,value) entries + max + the `overfull` flag (SetMax below the current size is
only enforced at the next insertion).

usage: python3 /verif/harness/gen_hmap.py            (re-writes all files)
"""
import os
import sys

HERE = os.path.dirname(os.path.abspath(__file__))

# ----------------------------------------------------------------------------------------------
# key / value kinds
# ----------------------------------------------------------------------------------------------

I32POOL = ['0', '3', '-1', 'math.MinInt32', '1', 'math.MaxInt32']
I64POOL = ['0', '3', '-1', 'math.MinInt64', '1', 'math.MaxInt64', '1 << 32']
# "ki"/"ld": equal CRC32 (hash.HashStr) modulo 2,3,5,7,11,15 (all table sizes reachable here);
# "Aa"/"BB": equal stringutil.HashCode (31*h+c)
CRCPOOL = ['"ki"', '"ld"', '""', '"a"', '"b"']
JHPOOL = ['"Aa"', '"BB"', '""', '"a"', '"b"']

KEY = {
    'i32': dict(go='int32', arg='int32', sym='zzvf.Int32()', pool=I32POOL),
    'i64': dict(go='int64', arg='int64', sym='zzvf.Int64()', pool=I64POOL),
    'str': dict(go='string', arg='string', sym='zzvf.String(1 - zzvf.Choose(2))', pool=CRCPOOL),
    'lk': dict(go='*zzLK', arg='LinkedKey', sym=None, pool=None),
}

VAL = {
    'i32': dict(go='int32', sym='zzvf.Int32()', teq='zzVEq32', ieq='zzVEqI32', arg='v', add=True),
    'i64': dict(go='int64', sym='zzvf.Int64()', teq='zzVEq64', ieq='zzVEqI64', arg='v', add=True),
    'f32': dict(go='float32', sym='zzvf.Float32()', teq='zzVEqF32', ieq=None, arg='v', add=True),
    # interface{} valued maps: boxed symbolic int64
    'box': dict(go='int64', sym='zzvf.Int64()', teq=None, ieq='zzVEqI64', arg='interface{}(v)', add=False),
    'none': dict(go='int8', sym='int8(0)', teq=None, ieq=None, arg=None, add=False),
}


def keq(kk, a, b):
    """model-key equality; a may be an interface value for lk"""
    if kk == 'lk':
        return 'zzLKEq(%s, %s)' % (a, b)
    return '%s == %s' % (a, b)


def kieq(kk, a, b):
    """a is an interface{} holding a key"""
    return {'i32': 'zzVEqI32(%s, %s)', 'i64': 'zzVEqI64(%s, %s)', 'str': 'zzVEqIStr(%s, %s)', 'lk': 'zzLKEq(%s, %s)'}[kk] % (a, b)


def veq(vk, kind, a, b):
    v = VAL[vk]
    if kind == 'iface':
        return '%s(%s, %s)' % (v['ieq'], a, b)
    return '%s(%s, %s)' % (v['teq'], a, b)


# ----------------------------------------------------------------------------------------------
# type specifications
# ----------------------------------------------------------------------------------------------

def T(name, prop, k, v, ctor, entry=None, tab=None, ret=None, ops=(), keys=None, values=None,
      keyarray='KeyArray', pool=None, contains='ContainsKey', firstlast=None, emptycheck=True, isfull=True,
      keyarray_op=False, valuearray=None, entries=True):
    return dict(name=name, prop=prop, k=k, v=v, ctor=ctor, entry=entry, tab=tab or entry, ret=ret or {}, ops=list(ops),
                keys=keys, values=values, keyarray=keyarray, pool=pool, contains=contains, firstlast=firstlast,
                isempty=emptycheck, isfull=isfull, keyarray_op=keyarray_op, valuearray=valuearray, entries=entries)


IFACE = dict(put='iface', get='iface', remove='iface', removefl='iface', first='iface')
TYPED = dict(put='typed', get='typed', remove='typed', removefl='typed', first='typed')
STRNUM = dict(put='typed', get='typed', remove='iface', removefl='iface', first='iface')

LINKED_BASE = ['put', 'putfirst', 'putlast']
MAP_TAIL = ['get', 'containskey', 'remove', 'removefirst', 'removelast', 'clear', 'sortasc', 'sortdesc', 'setmax', 'tostring']
ADDS = ['add', 'addfirst', 'addlast']

TYPES = [
    # ---- C09: linked maps
    T('LinkedMap', 'C09', 'lk', 'box', 'caplf', entry='LinkedEntry', ret=IFACE,
      ops=LINKED_BASE + MAP_TAIL, keys=('NextElement', 'iface'), values=('NextElement', 'iface'),
      firstlast=('GetFirstKey', 'GetLastKey', 'GetFirstValue', 'GetLastValue')),
    T('IntKeyLinkedMap', 'C09', 'i32', 'box', 'caplf', entry='IntKeyLinkedEntry', ret=IFACE,
      ops=LINKED_BASE + ['getlru', 'containsvalue'] + MAP_TAIL + ['toformatstring', 'getkeyset', 'tokeyset', 'valueiterator'],
      keys=('NextInt', 'typed'), values=('NextElement', 'iface'),
      firstlast=('GetFirstKey', 'GetLastKey', 'GetFirstValue', 'GetLastValue')),
    T('LongKeyLinkedMap', 'C09', 'i64', 'box', 'caplf', entry='LongKeyLinkedEntry', ret=IFACE,
      ops=LINKED_BASE + MAP_TAIL, keys=('NextLong', 'typed'), values=('NextElement', 'iface'),
      firstlast=('GetFirstKey', 'GetLastKey', 'GetFirstValue', 'GetLastValue')),
    T('StringKeyLinkedMap', 'C09', 'str', 'box', 'shrink', entry='StringKeyLinkedEntry', ret=IFACE,
      ops=LINKED_BASE + MAP_TAIL, keys=('NextString', 'typed'), values=('NextElement', 'iface'),
      firstlast=('GetFirstKey', 'GetLastKey', 'GetFirstValue', 'GetLastValue')),
    T('IntIntLinkedMap', 'C09', 'i32', 'i32', 'shrink', entry='IntIntLinkedEntry', ret=TYPED,
      ops=LINKED_BASE + ADDS + ['addnoover', 'containsvalue'] + MAP_TAIL + ['tobytes'],
      keys=('NextInt', 'typed'), values=('NextInt', 'typed'),
      firstlast=('GetFirstKey', 'GetLastKey', 'GetFirstValue', 'GetLastValue')),
    T('IntFloatLinkedMap', 'C09', 'i32', 'f32', 'shrink', entry='IntFloatLinkedEntry', ret=TYPED,
      ops=LINKED_BASE + ADDS + ['containsvalue'] + MAP_TAIL + ['tobytes'],
      keys=('NextInt', 'typed'), values=('NextFloat', 'typed'),
      firstlast=('GetFirstKey', 'GetLastKey', 'GetFirstValue', 'GetLastValue')),
    T('LongFloatLinkedMap', 'C09', 'i64', 'f32', 'shrink', entry='LongFloatLinkedEntry', ret=TYPED,
      ops=LINKED_BASE + ADDS + ['containsvalue'] + MAP_TAIL + ['tobytes'],
      keys=('NextLong', 'typed'), values=('NextFloat', 'typed'),
      firstlast=('GetFirstKey', 'GetLastKey', 'GetFirstValue', 'GetLastValue')),
    T('LongLongLinkedMap', 'C09', 'i64', 'i64', 'caplf', entry='LongLongLinkedEntry', ret=TYPED,
      ops=LINKED_BASE + ADDS + ['containsvalue'] + MAP_TAIL + ['tobytes', 'setnullvalue'],
      keys=('NextLong', 'typed'), values=('NextLong', 'typed'),
      firstlast=('GetFirstKey', 'GetLastKey', 'GetFirstValue', 'GetLastValue')),
    T('StringIntLinkedMap', 'C09', 'str', 'i32', 'shrink', entry='StringIntLinkedEntry', ret=STRNUM,
      ops=LINKED_BASE + ADDS + ['containsvalue'] + MAP_TAIL + ['setnullvalue'],
      keys=('NextString', 'typed'), values=('NextElement', 'iface', 'IntEnumer', 'NextInt'),
      firstlast=('GetFirstKey', 'GetLastKey', 'GetFirstValue', 'GetLastValue')),
    T('StringLongLinkedMap', 'C09', 'str', 'i64', 'shrink', entry='StringLongLinkedEntry', ret=STRNUM,
      ops=LINKED_BASE + ADDS + ['containsvalue'] + MAP_TAIL + ['setnullvalue'],
      keys=('NextString', 'typed'), values=('NextElement', 'iface', 'LongEnumer', 'NextLong'),
      firstlast=('GetFirstKey', 'GetLastKey', 'GetFirstValue', 'GetLastValue')),
    # ---- C09: linked sets
    T('LinkedSet', 'C09', 'lk', 'none', 'shrink', tab='LinkedSetry', ret=IFACE, contains='Contains',
      ops=LINKED_BASE + ['containskey', 'remove', 'removefirst', 'removelast', 'clear', 'sortasc', 'sortdesc', 'setmax', 'tostring'],
      keys=('NextElement', 'iface'), firstlast=('GetFirst', 'GetLast'), entries=False),
    T('IntLinkedSet', 'C09', 'i32', 'none', 'shrink', tab='IntLinkedSetry', ret=IFACE, contains='Contains',
      ops=LINKED_BASE + ['containskey', 'remove', 'removefirst', 'removelast', 'clear', 'sortasc', 'sortdesc', 'setmax', 'tostring'],
      keys=('NextInt', 'typed'), firstlast=('GetFirst', 'GetLast'), entries=False),
    T('StringLinkedSet', 'C09', 'str', 'none', 'shrink', tab='StringLinkedSetry', ret=IFACE, contains='Contains',
      ops=LINKED_BASE + ['unipoint', 'containskey', 'remove', 'removefirst', 'removelast', 'clear', 'sortasc', 'sortdesc', 'setmax', 'tostring'],
      keys=('NextString', 'typed'), firstlast=('GetFirst', 'GetLast'), keyarray='GetArray', pool=JHPOOL, entries=False),
    # ---- C12: plain maps / sets
    T('IntIntMap', 'C12', 'i32', 'i32', 'caplf', entry='IntIntEntry', ret=TYPED,
      ops=['put', 'add', 'addifexist', 'get', 'containskey', 'containsvalue', 'remove', 'clear', 'sortasc', 'sortdesc', 'setmax', 'tostring', 'tobytes'],
      keys=('NextInt', 'typed'), values=('NextInt', 'typed'), valuearray='ValueArray'),
    T('IntKeyMap', 'C12', 'i32', 'box', 'caplf', entry='IntKeyEntry', ret=IFACE,
      ops=['put', 'get', 'containskey', 'containsvalue', 'remove', 'clear', 'putall', 'tostring', 'toformatstring', 'keyarray'],
      keys=('NextInt', 'typed'), values=('NextElement', 'iface'), emptycheck=False, isfull=False, keyarray_op=True),
    T('IntSet', 'C12', 'i32', 'none', 'shrink', tab='IntSetry', ret=TYPED, contains='Contains',
      ops=['put', 'containskey', 'remove', 'clear', 'putall', 'tostring'],
      keys=('NextInt', 'typed', 'Values'), keyarray=None, emptycheck=False, isfull=False, entries=False),
    T('StringSet', 'C12', 'str', 'none', 'shrink', tab='StringSetry', ret=TYPED, contains='Contains',
      ops=['put', 'unipoint', 'containskey', 'haskey', 'remove', 'clear'],
      keys=('NextString', 'typed'), keyarray=None, emptycheck=False, isfull=False, entries=False),
]

POOLONLY = ('tostring', 'toformatstring', 'getkeyset', 'tokeyset')

# quick-tier / thorough-tier bounds: (pool keys, caps, load factors, max sizes)
# paths budget directives per harness kind
DIRECTIVE = {
    ('C09', 'Pool'): 'paths=200000 deadline=5m t.paths=4000000 t.deadline=30m',
    ('C09', 'Symbolic'): 'paths=50000 deadline=5m t.paths=1000000 t.deadline=40m',
    ('C12', 'Pool'): 'paths=100000 deadline=4m t.paths=2000000 t.deadline=30m',
    ('C12', 'Symbolic'): 'paths=50000 deadline=4m t.paths=1000000 t.deadline=40m',
}

# ----------------------------------------------------------------------------------------------
# shared model file
# ----------------------------------------------------------------------------------------------

MODEL_GO = '''//vf:dir util/hmap
package hmap

// GENERATED by /verif/harness/gen_hmap.py -- do not edit; helpers shared by the %(prop)s harness files.

import (
	"math"

	"github.com/whatap/golib/zzvf"
)

// value / key comparison helpers (floats compare bitwise; interface values need the right dynamic type)
func zzVEq32(a, b int32) bool    { return a == b }
func zzVEq64(a, b int64) bool    { return a == b }
func zzVEqF32(a, b float32) bool { return math.Float32bits(a) == math.Float32bits(b) }
func zzVEqI32(a interface{}, b int32) bool {
	x, ok := a.(int32)
	if !ok {
		return false
	}
	return x == b
}
func zzVEqI64(a interface{}, b int64) bool {
	x, ok := a.(int64)
	if !ok {
		return false
	}
	return x == b
}
func zzVEqIStr(a interface{}, b string) bool {
	x, ok := a.(string)
	if !ok {
		return false
	}
	return x == b
}

// zzLK: harness LinkedKey. Hash() is an independent field, so unequal keys with colliding hashes
// (and, in the symbolic harness, arbitrary hash values) arise; equal ids imply equal hashes
// (assumed on creation, see zzLKNew).
type zzLK struct {
	h  uint
	id int32
}

func (k *zzLK) Hash() uint { return k.h }
func (k *zzLK) Equals(o LinkedKey) bool {
	x, ok := o.(*zzLK)
	if !ok {
		return false
	}
	return x.id == k.id
}
func zzLKEq(a interface{}, b *zzLK) bool {
	x, ok := a.(*zzLK)
	if !ok {
		return false
	}
	if x == nil {
		return false
	}
	return x.id == b.id
}

// pool of concrete LinkedKeys {hash, id}: ids 0 and 1 collide in every table, ids 2 and 3 join them in a
// 3-slot table, id 4 in a 7-slot table; extreme hash values 2^64-1 and 2^63
var zzLKPool = []zzLK{{0, 0}, {0, 1}, {3, 2}, {^uint(0), 3}, {7, 4}, {1 << 63, 5}}

// zzLKNew returns a fresh key object (never the object stored earlier: Equals, not identity, decides).
// zzForceKey >= 0: the next concrete key is that pool entry (Shrink harness) instead of a choice
var zzForceKey = -1

func zzLKNew(sym bool, seen *[]*zzLK, poolN int) *zzLK {
	var k *zzLK
	if sym {
		k = &zzLK{h: zzvf.Uint(), id: zzvf.Int32()}
		for _, o := range *seen {
			zzvf.Assume(zzvf.Implies(o.id == k.id, o.h == k.h))
		}
		*seen = append(*seen, k)
		return k
	}
	if zzForceKey >= 0 {
		p := zzLKPool[zzForceKey]
		return &zzLK{h: p.h, id: p.id}
	}
	p := zzLKPool[zzvf.Choose(zzMin(poolN, len(zzLKPool)))]
	return &zzLK{h: p.h, id: p.id}
}

// table configurations: initial capacity x load factor
type zzCfg struct {
	cap int
	lf  float32
}

var zzCfgAll = []zzCfg{{1, 0.75}, {1, 1.0}, {2, 0.75}, {2, 1.0}, {3, 0.75}, {3, 1.0}}

// Symbolic harness, quick tier (<= 2 keys): (2,1.0), (3,0.75), (3,1.0) never grow within 2 insertions;
// a fixed table of 3 slots is what (1,0.75) has after its first insertion, so they are left to thorough/Pool
var zzCfgSymQuick = []zzCfg{{1, 0.75}, {1, 1.0}, {2, 0.75}}

// Symbolic harness, prefix of 2 insertions (thorough tier, 3 keys): growth 1->3->7 and 2->5
var zzCfgSym2 = []zzCfg{{1, 0.75}, {2, 0.75}}

// zzCfgs: table configurations for a history whose insertion prefix has nPre elements
func zzCfgs(sym bool, nPre int) []zzCfg {
	if !sym {
		return zzCfgAll
	}
	if nPre >= 2 {
		return zzCfgSym2
	}
	return zzCfgSymQuick
}

// zzMaxes: maximum sizes (0 = unbounded). Symbolic harness: with <= 2 keys a maximum of 2 never
// evicts; with 3 keys the maxima 0 and 2 are used (1 is covered by the shorter histories and by Pool)
func zzMaxes(sym bool, nPre int) []int {
	if !sym {
		return []int{0, 1, 2}
	}
	if nPre >= 2 {
		return []int{0, 2}
	}
	return []int{0, 1}
}

func zzMin(a, b int) int {
	if a < b {
		return a
	}
	return b
}

// zzPutAllN: put-all takes 0..2 elements (Symbolic harness: 0..1, each element is one more symbolic key)
func zzPutAllN(sym bool) int {
	if sym {
		return 2
	}
	return 3
}
'''

# ----------------------------------------------------------------------------------------------
# per-type generation
# ----------------------------------------------------------------------------------------------


class Gen:
    def __init__(self, t):
        self.t = t
        self.N = t['name']
        self.k = t['k']
        self.v = t['v']
        self.K = KEY[self.k]
        self.V = VAL[self.v]
        self.linked = t['prop'] == 'C09'
        self.isset = self.v == 'none'
        self.pool = t['pool'] or self.K['pool']
        self.out = []
        # operations that format keys/values as decimal text (the formatting model forks on the number
        # of digits) or hash into a 101-slot table (GetKeySet): exercised with concrete keys only, and
        # with concrete values; they come last in the op table so that the Symbolic harness can skip them
        self.poolonly = [o for o in t['ops'] if o in POOLONLY]
        self.plain = [o for o in t['ops'] if o == 'tobytes'] + self.poolonly  # run on concrete values
        # "clear" comes first: the first explored path (all choices 0) then ends in an empty structure,
        # so that the reachability witness replayed natively does not trip over a known value-order defect
        t['ops'] = ['clear'] + [o for o in t['ops'] if o not in POOLONLY and o not in ('tobytes', 'clear')] + self.plain
        self.ins = [o for o in ('put', 'putfirst', 'putlast') if o in t['ops']]
        if not self.linked and 'add' in t['ops']:
            self.ins.append('add')

    def w(self, s=''):
        self.out.append(s)

    # -- expression helpers
    def keq(self, a, b):
        return keq(self.k, a, b)

    def klt(self, a, b):
        if self.k == 'lk':
            return '%s.id < %s.id' % (a, b)
        return '%s < %s' % (a, b)

    def veq(self, kind, a, b):
        return veq(self.v, kind, a, b)

    def karg(self, k='k'):
        return k

    # -- model
    def model(self):
        N, K, V = self.N, self.K, self.V
        self.w('''// ---- reference model: insertion-ordered dictionary (slice of entries) ----

type zzE_%(N)s struct {
	k %(kt)s
	v %(vt)s
}
type zzM_%(N)s struct {
	e   []zzE_%(N)s
	max int
	// overfull: SetMax was called with a value below the current size; the maximum is enforced
	// on insertion, so the bound is only asserted again after the next insertion
	overfull bool
	// input classes narrowing the labels of the final-state comparison
	emptyKey bool // an empty-string key was inserted
	afterAdd bool // an add-variant hit an existing key
	limit    int  // plain types: SetMax only feeds IsFull
	// plainVals: the history ends in a text-formatting operation: values are concrete (the decimal
	// formatting model forks on the digit count of a symbolic number)
	plainVals bool
	nv        int
	// diverged: the structure's size differs from the model's after an operation (reported under
	// <op>/size-after); everything later on this path would only repeat that finding
	diverged bool
	poolN    int // number of pool keys in use (Pool harness)
	seen     []*zzLK
}

func (m *zzM_%(N)s) find(k %(kt)s) int {
	for i := range m.e {
		if %(keq)s {
			return i
		}
	}
	return -1
}
func (m *zzM_%(N)s) removeAt(i int) { m.e = append(m.e[:i:i], m.e[i+1:]...) }

// mode: 0 put (keep position on update, insert last), 1 force-first, 2 force-last
// add: accumulate into an existing value; noOver: a new key is dropped when the map is full
func (m *zzM_%(N)s) put(k %(kt)s, v %(vt)s, mode int, add bool, noOver bool) (existed bool, old %(vt)s) {
	if i := m.find(k); i >= 0 {
		old = m.e[i].v
		ent := m.e[i]
		if add {
			ent.v += v
		} else {
			ent.v = v
		}
		m.e[i] = ent
		switch mode {
		case 1:
			m.removeAt(i)
			m.e = append([]zzE_%(N)s{ent}, m.e...)
		case 2:
			m.removeAt(i)
			m.e = append(m.e, ent)
		}
		return true, old
	}
	if m.max > 0 {
		if noOver {
			if len(m.e) >= m.max {
				return false, old
			}
		} else {
			m.overfull = false
			for len(m.e) >= m.max {
				if mode == 1 {
					m.removeAt(len(m.e) - 1) // insert at front evicts from the back
				} else {
					m.removeAt(0)
				}
			}
		}
	}
	if mode == 1 {
		m.e = append([]zzE_%(N)s{{k, v}}, m.e...)
	} else {
		m.e = append(m.e, zzE_%(N)s{k, v})
	}
	return false, old
}

// insertion sort by key (keys are pairwise distinct)
func (m *zzM_%(N)s) sort(desc bool) {
	for i := 1; i < len(m.e); i++ {
		for j := i; j > 0; j-- {
			lt := %(lt)s
			if desc {
				lt = %(gt)s
			}
			if !lt {
				break
			}
			m.e[j], m.e[j-1] = m.e[j-1], m.e[j]
		}
	}
}
''' % dict(N=N, kt=K['go'], vt=V['go'], keq=self.keq('m.e[i].k', 'k'),
           lt=self.klt('m.e[j].k', 'm.e[j-1].k'), gt=self.klt('m.e[j-1].k', 'm.e[j].k')))

    # -- constructor
    def ctor(self):
        N, t = self.N, self.t
        if t['ctor'] == 'caplf':
            self.w('''func zzNew_%(N)s(cap int, lf float32) *%(N)s {
	return New%(N)s(cap, lf)
}
''' % dict(N=N))
        else:
            self.w('''func zzNew_%(N)s(cap int, lf float32) *%(N)s {
	m := New%(N)s() // real constructor (hard-coded capacity 101) ...
	m.table = make([]*%(tab)s, cap)
	m.loadFactor = lf
	m.threshold = int(float32(cap) * lf) // ... with a small table so that growth happens within the bound
	return m
}
''' % dict(N=N, tab=t['tab']))

    # -- key supply
    def keyfn(self):
        N, K = self.N, self.K
        if not self.isset:
            # (index 1 is used first: the zero value — the default "absent" value NONE — comes first,
            # so that histories of two insertions already store it)
            conc = {'i32': '[]int32{300, 0, -1, math.MinInt32, 1234567}', 'i64': '[]int64{1 << 36, 0, -1, math.MinInt64, 1234567}',
                    'f32': '[]float32{-1.5, 0, 1e30, 0.1, -0}', 'box': '[]int64{1 << 36, 0, -1, math.MinInt64, 1234567}'}[self.v]
            self.w('''func zzVal_%(N)s(ref *zzM_%(N)s) %(vt)s {
	if ref.plainVals {
		ref.nv++
		return %(conc)s[ref.nv%%5]
	}
	return %(sym)s
}
''' % dict(N=N, vt=self.V['go'], conc=conc, sym=self.V['sym']))
        if self.k == 'lk':
            self.w('''func zzKey_%(N)s(ref *zzM_%(N)s, sym bool) *zzLK { return zzLKNew(sym, &ref.seen, ref.poolN) }
''' % dict(N=N))
            return
        pool = ', '.join(self.pool)
        if self.k == 'str':
            t = self.t
            meth = t['keys'][2] if len(t['keys']) > 2 else 'Keys'
            self.w('''// zzStoredEmpty_%(N)s: after an insertion of the empty-string key the key enumeration must contain
// it (lengths are concrete, so this is decided without the solver and without trusting Contains).
// A structure that silently drops the key is reported once, under <op>/emptykey/stored; the rest of
// the path would only repeat that finding.
func zzStoredEmpty_%(N)s(m *%(N)s, ref *zzM_%(N)s, name string) {
	ke := m.%(meth)s()
	for i := 0; ke.HasMoreElements() && i <= len(ref.e); i++ {
		if len(ke.%(nxt)s()) == 0 {
			return
		}
	}
	zzvf.Assert(false, name+"/stored")
	ref.diverged = true
}
''' % dict(N=N, meth=meth, nxt=t['keys'][0]))
        self.w('''// colliding / extreme keys first: the quick tier uses the first 4, thorough the first 5 (3 with two operations)
var zzPool_%(N)s = []%(kt)s{%(pool)s}

func zzKey_%(N)s(ref *zzM_%(N)s, sym bool) %(kt)s {
	if sym {
		return %(sym)s
	}
	if zzForceKey >= 0 {
		return zzPool_%(N)s[zzForceKey]
	}
	return zzPool_%(N)s[zzvf.Choose(zzMin(ref.poolN, len(zzPool_%(N)s)))]
}
''' % dict(N=N, kt=K['go'], pool=pool, sym=K['sym']))

    # -- enumerations
    def enum_keys_seq(self, recv, okvar, indent='\t'):
        """ordered comparison of recv.Keys() (or Values() for IntSet) with ref.e keys"""
        t = self.t
        nxt, kind = t['keys'][0], t['keys'][1]
        meth = t['keys'][2] if len(t['keys']) > 2 else 'Keys'
        cmp_ = kieq(self.k, 'ke.%s()' % nxt, 'ref.e[i].k') if kind == 'iface' else self.keq('ke.%s()' % nxt, 'ref.e[i].k')
        s = '''ke := %(recv)s.%(meth)s()
for i := range ref.e {
	if !ke.HasMoreElements() {
		%(ok)s = false
		break
	}
	%(ok)s = zzvf.And(%(ok)s, %(cmp)s)
}
%(ok)s = zzvf.And(%(ok)s, !ke.HasMoreElements())''' % dict(recv=recv, meth=meth, ok=okvar, cmp=cmp_)
        return '\n'.join(indent + l for l in s.split('\n'))

    def enum_values_seq(self, recv, okvar, indent='\t'):
        t = self.t
        vs = t['values']
        nxt, kind = vs[0], vs[1]
        cmp_ = self.veq(kind, 've.%s()' % nxt, 'ref.e[i].v')
        s = '''ve := %(recv)s.Values()
for i := range ref.e {
	if !ve.HasMoreElements() {
		%(ok)s = false
		break
	}
	%(ok)s = zzvf.And(%(ok)s, %(cmp)s)
}
%(ok)s = zzvf.And(%(ok)s, !ve.HasMoreElements())''' % dict(recv=recv, ok=okvar, cmp=cmp_)
        return '\n'.join(indent + l for l in s.split('\n'))

    # -- final-state comparison, linked types (order matters)
    def check_linked(self):
        N, t = self.N, self.t
        w = self.w
        w('func zzCheck_%(N)s(m *%(N)s, ref *zzM_%(N)s, what string) {' % dict(N=N))
        w('''	if ref.emptyKey {
		what += "/emptykey"
	}
	if ref.afterAdd {
		what += "/after-add"
	}
	n := len(ref.e)
	zzvf.Assert(m.Size() == n, what+"/size")''')
        # keys
        w('	ks := m.%s()' % t['keyarray'])
        w('	okK := len(ks) == n')
        w('	for i := 0; i < n && i < len(ks); i++ {')
        w('		okK = zzvf.And(okK, %s)' % self.keq('ks[i]', 'ref.e[i].k'))
        w('	}')
        w(self.enum_keys_seq('m', 'okK'))
        w('	zzvf.Assert(okK, what+"/key-order")')
        # every stored key must be found through the hash table (bucket lookup), not only
        # through the link list: catches entries re-bucketed wrongly by a table growth
        w('	okL := true')
        w('	for i := range ref.e {')
        w('		if ref.emptyKey {')
        w('			break')
        w('		}')
        w('		okL = zzvf.And(okL, m.%s(ref.e[i].k))' % t['contains'])
        w('	}')
        w('	zzvf.Assert(okL, what+"/every-stored-key-found-by-lookup")')
        if self.k != 'lk':
            # and the converse: a pool key that is not stored (never inserted, removed or evicted) is
            # not found either -- an evicted entry left chained in its bucket is invisible to every
            # enumeration but answers lookups and absorbs later insertions
            w('	if ref.poolN > 0 && !ref.emptyKey {')
            w('		okA := true')
            w('		for i := 0; i < zzMin(ref.poolN, len(zzPool_%s)); i++ {' % N)
            w('			if ref.find(zzPool_%s[i]) < 0 {' % N)
            w('				okA = zzvf.And(okA, !m.%s(zzPool_%s[i]))' % (t['contains'], N))
            w('			}')
            w('		}')
            w('		zzvf.Assert(okA, what+"/no-lookup-finds-a-key-that-is-not-stored")')
            w('	}')
        if not self.isset:
            w('	okV := true')
            w(self.enum_values_seq('m', 'okV'))
            w('	zzvf.Assert(okV, what+"/value-order")')
            vs = t['values']
            if len(vs) > 2:
                # Values() is declared Enumeration; the enumerator also offers a typed accessor
                w('	if te, ok := m.Values().(%s); ok {' % vs[2])
                w('		okT := true')
                w('		for i := range ref.e {')
                w('			if !te.HasMoreElements() {')
                w('				okT = false')
                w('				break')
                w('			}')
                w('			okT = zzvf.And(okT, %s)' % self.veq('typed', 'te.%s()' % vs[3], 'ref.e[i].v'))
                w('		}')
                w('		okT = zzvf.And(okT, !te.HasMoreElements())')
                w('		zzvf.Assert(okT, what+"/value-order-typed")')
                w('	}')
        if t['entries']:
            w('	okE := true')
            w('	en := m.Entries()')
            w('	for i := range ref.e {')
            w('		if !en.HasMoreElements() {')
            w('			okE = false')
            w('			break')
            w('		}')
            w('		e, ok := en.NextElement().(*%s)' % t['entry'])
            w('		if !ok || e == nil {')
            w('			okE = false')
            w('			break')
            w('		}')
            w('		okE = zzvf.And(okE, zzvf.And(%s, %s))' % (self.keq('e.GetKey()', 'ref.e[i].k'),
                                                         self.veq(self.t['ret']['get'] if self.v == 'box' else 'typed', 'e.GetValue()', 'ref.e[i].v')))
            w('	}')
            w('	okE = zzvf.And(okE, !en.HasMoreElements())')
            w('	zzvf.Assert(okE, what+"/entry-order")')
        fl = t['firstlast']
        w('	if n > 0 {')
        w('		zzvf.Assert(zzvf.And(%s, %s), what+"/first-last-key")' % (self.keq('m.%s()' % fl[0], 'ref.e[0].k'), self.keq('m.%s()' % fl[1], 'ref.e[n-1].k')))
        if not self.isset:
            w('		zzvf.Assert(zzvf.And(%s, %s), what+"/first-last-value")' % (
                self.veq(t['ret']['first'], 'm.%s()' % fl[2], 'ref.e[0].v'), self.veq(t['ret']['first'], 'm.%s()' % fl[3], 'ref.e[n-1].v')))
        w('	}')
        w('''	zzvf.Assert(m.IsEmpty() == (n == 0), what+"/isempty")
	if ref.max > 0 && !ref.overfull {
		zzvf.Assert(m.Size() <= ref.max, what+"/never-above-max")
		zzvf.Assert(m.IsFull() == (n >= ref.max), what+"/isfull")
	}
}
''')

    # -- final-state comparison, plain types (multisets: each element exactly once)
    def check_plain(self):
        N, t = self.N, self.t
        w = self.w
        kt, vt = self.K['go'], self.V['go']
        nxt = t['keys'][0]
        meth = t['keys'][2] if len(t['keys']) > 2 else 'Keys'
        w("""// zzOnce_%(N)s: the enumerated keys are exactly the model's keys, each exactly once. The model's keys
// are pairwise distinct, so "same count and every model key occurs" is a bijection (stated with
// equalities only: no arithmetic for the solver).
func zzOnce_%(N)s(ks []%(kt)s, ref *zzM_%(N)s) bool {
	ok := len(ks) == len(ref.e)
	for i := range ref.e {
		hit := false
		for j := range ks {
			hit = zzvf.Or(hit, ks[j] == ref.e[i].k)
		}
		ok = zzvf.And(ok, hit)
	}
	return ok
}

func zzKeysOf_%(N)s(m *%(N)s, limit int) []%(kt)s {
	var ks []%(kt)s
	ke := m.%(meth)s()
	for ke.HasMoreElements() && len(ks) <= limit {
		ks = append(ks, ke.%(nxt)s())
	}
	return ks
}
""" % dict(N=N, kt=kt, meth=meth, nxt=nxt))
        w('func zzCheck_%(N)s(m *%(N)s, ref *zzM_%(N)s, what string) {' % dict(N=N))
        w("""	if ref.emptyKey {
		what += "/emptykey"
	}
	if ref.afterAdd {
		what += "/after-add"
	}
	n := len(ref.e)
	zzvf.Assert(m.Size() == n, what+"/size")
	zzvf.Assert(zzOnce_%(N)s(zzKeysOf_%(N)s(m, n), ref), what+"/keys-exactly-once")""" % dict(N=N))
        if t['keyarray'] and not t['keyarray_op']:
            w('	zzvf.Assert(zzOnce_%(N)s(m.%(ka)s(), ref), what+"/keyarray-exactly-once")' % dict(N=N, ka=t['keyarray']))
        if not self.isset:
            vs = t['values']
            w('	var vals []%s' % vt)
            w('	okV := true')
            w('	ve := m.Values()')
            w('	for ve.HasMoreElements() && len(vals) <= n {')
            if vs[1] == 'iface':
                w('		x, ok := ve.%s().(%s)' % (vs[0], vt))
                w('		if !ok {')
                w('			okV = false')
                w('		}')
                w('		vals = append(vals, x)')
            else:
                w('		vals = append(vals, ve.%s())' % vs[0])
            w('	}')
            w('	zzvf.Assert(zzvf.And(okV, zzMulti_%(N)s(vals, ref)), what+"/values-exactly-once")' % dict(N=N))
            if t['valuearray']:
                w('	zzvf.Assert(zzMulti_%(N)s(m.%(va)s(), ref), what+"/valuearray-exactly-once")' % dict(N=N, va=t['valuearray']))
            # entries: same count, and every model entry occurs with its value (keys distinct => bijection)
            w('	okE := true')
            w('	hit := make([]bool, n)')
            w('	ne := 0')
            w('	en := m.Entries()')
            w('	for en.HasMoreElements() && ne <= n {')
            w('		e, ok := en.NextElement().(*%s)' % t['entry'])
            w('		if !ok || e == nil {')
            w('			okE = false')
            w('			break')
            w('		}')
            w('		ne++')
            w('		for i := range ref.e {')
            w('			hit[i] = zzvf.Or(hit[i], zzvf.And(e.GetKey() == ref.e[i].k, %s))' % self.veq('iface' if self.v == 'box' else 'typed', 'e.GetValue()', 'ref.e[i].v'))
            w('		}')
            w('	}')
            w('	okE = zzvf.And(okE, ne == n)')
            w('	for i := range hit {')
            w('		okE = zzvf.And(okE, hit[i])')
            w('	}')
            w('	zzvf.Assert(okE, what+"/entries-exactly-once")')
        if t['isempty']:
            w('	zzvf.Assert(m.IsEmpty() == (n == 0), what+"/isempty")')
        if t['isfull']:
            w('	zzvf.Assert(m.IsFull() == (ref.limit > 0 && n >= ref.limit), what+"/isfull")')
        w('}')
        w()
        if not self.isset:
            w("""// zzMulti_%(N)s: vals is the multiset of the model's values, i.e. some bijection between the
// positions matches all values (disjunction over the permutations; <= 5 elements inside the bounds)
func zzMulti_%(N)s(vals []%(vt)s, ref *zzM_%(N)s) bool {
	if len(vals) != len(ref.e) {
		return false
	}
	return zzPerm_%(N)s(vals, ref, make([]bool, len(vals)), 0)
}
func zzPerm_%(N)s(vals []%(vt)s, ref *zzM_%(N)s, used []bool, j int) bool {
	if j == len(vals) {
		return true
	}
	r := false
	for i := range ref.e {
		if !used[i] {
			used[i] = true
			r = zzvf.Or(r, zzvf.And(vals[j] == ref.e[i].v, zzPerm_%(N)s(vals, ref, used, j+1)))
			used[i] = false
		}
	}
	return r
}
""" % dict(N=N, vt=vt))

    # -- light comparison used by the ToBytes/ToObject round trip
    def check_roundtrip(self):
        N = self.N
        w = self.w
        w('func zzRoundTrip_%(N)s(m *%(N)s, ref *zzM_%(N)s, label string) {' % dict(N=N))
        w('	dout := io.NewDataOutputX()')
        w('	m.ToBytes(dout)')
        w('	m2 := zzNew_%s(3, 1.0)' % N)
        w('	m2.ToObject(io.NewDataInputX(dout.ToByteArray()))')
        w('	ok := m2.Size() == len(ref.e)')
        if self.linked:
            w(self.enum_keys_seq('m2', 'ok'))
            w(self.enum_values_seq('m2', 'ok'))
        else:
            w('	ok = zzvf.And(ok, zzOnce_%(N)s(zzKeysOf_%(N)s(m2, len(ref.e)), ref))' % dict(N=N))
            w('	for i := range ref.e {')
            w('		ok = zzvf.And(ok, zzvf.And(m2.ContainsKey(ref.e[i].k), m2.Get(ref.e[i].k) == ref.e[i].v))')
            w('	}')
        w('	zzvf.Assert(ok, label)')
        w('}')
        w()

    # -- operations
    def step(self):
        N, t, K, V = self.N, self.t, self.K, self.V
        w = self.w
        ops = t['ops']
        w('var zzOps_%s = []string{%s}' % (N, ', '.join('"%s"' % o for o in ops)))
        w('var zzIns_%s = []string{%s} // the insertions used for the history prefix' % (N, ', '.join('"%s"' % o for o in self.ins)))
        w()
        w('''func zzStep_%(N)s(m *%(N)s, ref *zzM_%(N)s, opn string, sym bool, what string) {
	if ref.diverged {
		return
	}
	zzvf.Guard(what+"/"+opn+"/no-deadlock", func() {
		name := zzDo_%(N)s(m, ref, opn, sym, what)
		if !ref.diverged && m.Size() != len(ref.e) {
			zzvf.Assert(false, name+"/size-after")
			ref.diverged = true
		}
	})
}

func zzDo_%(N)s(m *%(N)s, ref *zzM_%(N)s, opn string, sym bool, what string) string {
	name := what + "/" + opn
	switch opn {''' % dict(N=N))
        getk = '		k := zzKey_%s(ref, sym)' % N
        empty = ''
        if self.k == 'str':
            empty = '''		if len(k) == 0 {
			name += "/emptykey"
		}'''
        R = t['ret']

        def keyhead():
            w(getk)
            if empty:
                w(empty)

        putmeth = {'put': ('Put', 0, False), 'putfirst': ('PutFirst', 1, False), 'putlast': ('PutLast', 2, False),
                   'add': ('Add', 0, True), 'addfirst': ('AddFirst', 1, True), 'addlast': ('AddLast', 2, True),
                   'addnoover': ('AddNoOver', 0, True), 'unipoint': ('Unipoint', 0, False)}
        for o in ops:
            if o in putmeth:
                meth, mode, add = putmeth[o]
                w('	case "%s":' % o)
                w(getk)
                if self.k == 'str':
                    w('		if len(k) == 0 {')
                    w('			name += "/emptykey"')
                    w('			ref.emptyKey = true')
                    w('			defer zzStoredEmpty_%s(m, ref, name)' % N)
                    w('		}')
                if self.isset:
                    w('		r := m.%s(k)' % meth)
                    if N == 'StringSet' or o == 'unipoint':
                        w('		ref.put(k, 0, %d, false, false)' % mode)
                        w('		zzvf.Assert(r == k, name+"/returns-key")')
                        continue
                    w('		ex, _ := ref.put(k, 0, %d, false, false)' % mode)
                    if N == 'IntSet':
                        w('		zzvf.Assert(r == !ex, name+"/returns-new")')
                    else:
                        w('		if ex {')
                        w('			zzvf.Assert(%s, name+"/returns-key")' % kieq(self.k, 'r', 'k'))
                        w('		}')
                else:
                    w('		v := zzVal_%s(ref)' % N)
                    w('		r := m.%s(k, %s)' % (meth, V['arg']))
                    w('		ex, old := ref.put(k, v, %d, %s, %s)' % (mode, 'true' if add else 'false', 'true' if o == 'addnoover' else 'false'))
                    w('		if ex {')
                    w('			zzvf.Assert(%s, name+"/returns-previous")' % self.veq(R['put'], 'r', 'old'))
                    if add:
                        w('			zzvf.Assert(%s, name+"/stored-sum")' % self.veq(R['get'], 'm.Get(k)', 'old+v'))
                        w('			ref.afterAdd = true')
                    w('		}')
            elif o == 'addifexist':
                w('	case "addifexist":')
                keyhead()
                w('		v := zzVal_%s(ref)' % N)
                w('		r := m.AddIfExist(k, v)')
                w('		if i := ref.find(k); i >= 0 {')
                w('			ref.e[i].v += v')
                w('			ref.afterAdd = true')
                w('			zzvf.Assert(r == ref.e[i].v, name+"/returns-sum")')
                w('		}')
            elif o in ('get', 'getlru'):
                w('	case "%s":' % o)
                keyhead()
                w('		r := m.%s(k)' % ('Get' if o == 'get' else 'GetLRU'))
                w('		if i := ref.find(k); i >= 0 {')
                w('			zzvf.Assert(%s, name+"/value")' % self.veq(R['get'], 'r', 'ref.e[i].v'))
                if o == 'getlru':
                    w('			ent := ref.e[i] // least-recently-used bookkeeping: the entry moves to the end')
                    w('			ref.removeAt(i)')
                    w('			ref.e = append(ref.e, ent)')
                w('		}')
            elif o in ('containskey', 'haskey'):
                w('	case "%s":' % o)
                keyhead()
                w('		zzvf.Assert(m.%s(k) == (ref.find(k) >= 0), name+"/result")' % ('HasKey' if o == 'haskey' else t['contains']))
            elif o == 'containsvalue':
                w('	case "containsvalue":')
                w('		v := %s' % V['sym'])
                w('		want := false')
                w('		for _, e := range ref.e {')
                w('			want = zzvf.Or(want, e.v == v)')
                w('		}')
                w('		zzvf.Assert(m.ContainsValue(%s) == want, name+"/result")' % V['arg'])
            elif o == 'remove':
                w('	case "remove":')
                keyhead()
                w('		r := m.Remove(k)')
                if N == 'StringSet':
                    w('		i := ref.find(k)')
                    w('		zzvf.Assert(r == (i >= 0), name+"/result")')
                    w('		if i >= 0 {')
                    w('			ref.removeAt(i)')
                    w('		}')
                else:
                    w('		if i := ref.find(k); i >= 0 {')
                    if self.isset:
                        c = kieq(self.k, 'r', 'k') if R['remove'] == 'iface' else 'r == k'
                        w('			zzvf.Assert(%s, name+"/returns-key")' % c)
                    else:
                        w('			zzvf.Assert(%s, name+"/returns-previous")' % self.veq(R['remove'], 'r', 'ref.e[i].v'))
                    w('			ref.removeAt(i)')
                    w('		}')
            elif o in ('removefirst', 'removelast'):
                w('	case "%s":' % o)
                w('		r := m.%s()' % ('RemoveFirst' if o == 'removefirst' else 'RemoveLast'))
                w('		if n := len(ref.e); n > 0 {')
                w('			i := %s' % ('0' if o == 'removefirst' else 'n - 1'))
                if self.isset:
                    w('			zzvf.Assert(%s, name+"/returns-key")' % kieq(self.k, 'r', 'ref.e[i].k'))
                else:
                    w('			zzvf.Assert(%s, name+"/returns-value")' % self.veq(R['removefl'], 'r', 'ref.e[i].v'))
                w('			ref.removeAt(i)')
                w('		}')
            elif o == 'clear':
                w('	case "clear":')
                w('		m.Clear()')
                w('		ref.e = nil')
            elif o == 'sortasc':
                w('	case "sortasc", "sortdesc":')
                w('		desc := opn == "sortdesc"')
                if self.k == 'lk':
                    w('		m.Sort(func(a, b LinkedKey) bool {')
                    w('			x, y := a.(*zzLK).id, b.(*zzLK).id')
                    w('			if desc {')
                    w('				return x > y')
                    w('			}')
                    w('			return x < y')
                    w('		})')
                else:
                    w('		m.Sort(func(a, b %s) bool {' % K['go'])
                    w('			if desc {')
                    w('				return a > b')
                    w('			}')
                    w('			return a < b')
                    w('		})')
                if self.linked:
                    w('		ref.sort(desc)')
                    # Sort re-inserts every entry at the end: on a structure whose maximum was lowered
                    # below its size that insertion enforces the maximum (evicting from the front)
                    w('		if ref.overfull && ref.max > 0 && len(ref.e) > ref.max {')
                    w('			ref.e = append(ref.e[:0:0], ref.e[len(ref.e)-ref.max:]...)')
                    w('		}')
                    w('		ref.overfull = false')
            elif o == 'sortdesc':
                pass
            elif o == 'setmax':
                w('	case "setmax":')
                w('		mx := zzvf.Choose(3)')
                w('		m.SetMax(mx)')
                if self.linked:
                    w('		ref.max = mx')
                    w('		ref.overfull = mx > 0 && len(ref.e) > mx')
                else:
                    w('		ref.limit = mx // no eviction in the plain map: only IsFull observes it')
            elif o == 'tostring':
                w('	case "tostring":')
                w('		_ = m.ToString() // must not panic')
            elif o == 'toformatstring':
                w('	case "toformatstring":')
                w('		_ = m.ToFormatString() // must not panic')
            elif o == 'valueiterator':
                w('	case "valueiterator":')
                w('		it, ok := m.ValueIterator().(Enumeration)')
                w('		zzvf.Assert(ok, name+"/is-enumeration")')
                w('		if ok {')
                w('			zzvf.Assert(it.HasMoreElements() == (len(ref.e) > 0), name+"/has-more")')
                w('		}')
            elif o == 'getkeyset':
                w('	case "getkeyset":')
                w('		ks := m.GetKeySet().KeyArray()')
                w('		ok := len(ks) == len(ref.e)')
                w('		for i := 0; i < len(ks) && i < len(ref.e); i++ {')
                w('			ok = zzvf.And(ok, ks[i] == ref.e[i].k)')
                w('		}')
                w('		zzvf.Assert(ok, name+"/key-order")')
            elif o == 'tokeyset':
                w('	case "tokeyset":')
                w('		zzvf.Assert(m.ToKeySet().Len() == len(ref.e), name+"/size")')
            elif o == 'setnullvalue':
                w('	case "setnullvalue":')
                w('		m.SetNullValue(%s) // only the "absent" sentinel changes' % V['sym'])
            elif o == 'tobytes':
                w('	case "tobytes":')
                w('		zzRoundTrip_%s(m, ref, name+"/roundtrip")' % N)
            elif o == 'keyarray':
                # KeyArray as an operation (IntKeyMap: it self-deadlocks, which would make the final comparison unreachable)
                w('	case "keyarray":')
                w('		zzvf.Assert(zzOnce_%(N)s(m.KeyArray(), ref), name+"/exactly-once")' % dict(N=N))
            elif o == 'putall':
                w('	case "putall":')
                if N == 'IntSet':
                    w('		var vals []int32 // nil, or 1..2 keys')
                    w('		for i, n := 0, zzvf.Choose(zzPutAllN(sym)); i < n; i++ {')
                    w('			k := zzKey_%s(ref, sym)' % N)
                    w('			vals = append(vals, k)')
                    w('			ref.put(k, 0, 0, false, false)')
                    w('		}')
                    w('		m.PutAll(vals)')
                else:
                    w('		other := zzNew_%s(1+zzvf.Choose(2), 0.75)' % N)
                    w('		oref := &zzM_%s{poolN: ref.poolN}' % N)
                    w('		for i, n := 0, zzvf.Choose(zzPutAllN(sym)); i < n; i++ {')
                    w('			k, v := zzKey_%s(ref, sym), zzVal_%s(ref)' % (N, N))
                    w('			other.Put(k, %s)' % V['arg'])
                    w('			oref.put(k, v, 0, false, false)')
                    w('		}')
                    w('		m.PutAll(other)')
                    w('		for _, e := range oref.e {')
                    w('			ref.put(e.k, e.v, 0, false, false)')
                    w('		}')
            else:
                raise SystemExit('unknown op ' + o)
        w('	}')
        w('	return name')
        w('}')
        w()

    # -- harness functions
    def harness(self):
        N, t = self.N, self.t
        P = t['prop']
        w = self.w
        w('''// zzRun_%(N)s: one bounded history.
// configuration (Choose): table capacity 1..3 (growth 1->3->7, 2->5->11, 3->7->15 happens inside the
// bound) x load factor 0.75 / 1.0 (see zzCfgs)%(maxdoc)s; prefix of insertions, then arbitrary
// public operations, then the complete observable state is compared with the model.
func zzRun_%(N)s(sym bool, nIns, nOps, poolN int) {
	what := "%(N)s"
	nPre := zzvf.Choose(nIns + 1) // length of the insertion prefix
	cfgs := zzCfgs(sym, nPre)
	cfg := cfgs[zzvf.Choose(len(cfgs))]
	m := zzNew_%(N)s(cfg.cap, cfg.lf)
	ref := &zzM_%(N)s{poolN: poolN}''' % dict(N=N, maxdoc=', maximum size 0 (unbounded) / 1 / 2' if self.linked else ''))
        if self.linked:
            w('''	maxes := zzMaxes(sym, nPre)
	if mx := maxes[zzvf.Choose(len(maxes))]; mx > 0 {
		m.SetMax(mx)
		ref.max = mx
	}''')
        w('''	// the operations are drawn first: the last %(npl)d of the table (serialisation / text formatting) run
	// on concrete values; the last %(npo)d (text formatting, GetKeySet) are left to the Pool harness
	nChoice := len(zzOps_%(N)s)
	if sym {
		nChoice -= %(npo)d
	}
	var ops [2]int
	for i := 0; i < nOps; i++ {
		ops[i] = zzvf.Choose(nChoice)
		if ops[i] >= len(zzOps_%(N)s)-%(npl)d {
			ref.plainVals = true
		}
	}
	for i := 0; i < nPre; i++ {
		ins := 0 // the first insertion (into the empty structure) is a plain put: put-first / put-last on
		// the empty structure are exercised as the arbitrary operation (thorough: followed by a 2nd one)
		if i > 0 {
			ins = zzvf.Choose(len(zzIns_%(N)s))
		}
		zzStep_%(N)s(m, ref, zzIns_%(N)s[ins], sym, what)
	}
	for i := 0; i < nOps; i++ {
		zzStep_%(N)s(m, ref, zzOps_%(N)s[ops[i]], sym, what)
	}
	if ref.diverged {
		zzvf.Reach(what)
		return
	}
	zzvf.Guard(what+"/enumerate/no-deadlock", func() { zzCheck_%(N)s(m, ref, what) })
	zzvf.Reach(what)
}
''' % dict(N=N, npo=len(self.poolonly), npl=len(self.plain)))
        pooldesc = 'zzLKPool' if self.k == 'lk' else 'zzPool_' + N
        w('''// Pool: keys CONCRETE, drawn from %(pd)s (colliding, negative, extreme, empty), values symbolic.
// Bounds, quick: prefix of <= 2 insertions + 1 operation out of %(nops)d, first 4 pool keys.
// Bounds, thorough: (prefix <= 3 insertions + 1 operation, 5 pool keys) and (prefix <= 2 insertions +
// 2 operations, 3 pool keys).
//vf:%(dir)s
func ZZ_%(P)s_%(N)s_Pool() {
	if !zzvf.Thorough() {
		zzRun_%(N)s(false, 2, 1, 4)
	} else if zzvf.Choose(2) == 0 {
		zzRun_%(N)s(false, 3, 1, 5)
	} else {
		zzRun_%(N)s(false, 2, 2, 3)
	}
}

// Symbolic: ALL keys and values symbolic%(lkdoc)s. Bounds: prefix of <= 1 insertion
// + 1 operation (both tiers); table configurations / maxima: zzCfgs, zzMaxes (zz_model.go).
//vf:%(dirs)s
func ZZ_%(P)s_%(N)s_Symbolic() {
	if zzvf.Thorough() && %(symdeep)s {
		zzRun_%(N)s(true, 2, 1, 0)
	} else {
		zzRun_%(N)s(true, 1, 1, 0)
	}
}%(shrink)s%(grow)s''' % dict(shrink=self.shrink(), grow=self.growins(), symdeep=('false /* two symbolic keys + 1 operation: one type alone ran for more than 15 minutes, the 13 types do not finish in a sweep: outside, the thorough tier keeps the quick bound */' if P == 'C09' else 'false /* plain types only have the 101-bucket table: two symbolic keys = 101 x 101 bucket pairs, not finished in 40 min */'), N=N, P=P, pd=pooldesc, nops=len(t['ops']), dir=DIRECTIVE[(P, 'Pool')], dirs=DIRECTIVE[(P, 'Symbolic')],
            lkdoc=' (LinkedKey: symbolic Hash() and symbolic id, so collisions between unequal keys arise by solving)' if self.k == 'lk' else ''))

    def shrink(self):
        """C09 types with SetMax: maximum lowered below the size, then one insertion"""
        t, N = self.t, self.N
        if t['prop'] != 'C09' or 'setmax' not in t['ops']:
            return ''
        ins = [o for o in t['ops'] if o.startswith('put') or o.startswith('add')]
        return '''

var zzShrinkIns_%(N)s = []string{%(ins)s}

// Shrink: three entries (the first three non-empty pool keys), then the maximum is lowered to 1 or 2 (below the size),
// then ONE insertion -- every put/add variant, with a new key, the oldest or the newest key: the
// maximum is enforced by that insertion (evicting from the end opposite to the insertion point) and
// the complete observable state is compared with the model. Table capacities 1..3.
//vf:paths=20000 deadline=4m
func ZZ_%(P)s_%(N)s_Shrink() {
	what := "%(N)s/shrink"
	cfg := zzCfgAll[2*zzvf.Choose(3)+1]
	m := zzNew_%(N)s(cfg.cap, cfg.lf)
	ref := &zzM_%(N)s{poolN: 5}
	for _, i := range []int{%(pre)s} {
		zzForceKey = i
		zzStep_%(N)s(m, ref, "%(put)s", false, what)
	}
	mx := 1 + zzvf.Choose(2)
	m.SetMax(mx)
	ref.max = mx
	ref.overfull = true
	ins := zzShrinkIns_%(N)s[zzvf.Choose(len(zzShrinkIns_%(N)s))]
	zzForceKey = []int{%(last)s}[zzvf.Choose(3)]
	zzStep_%(N)s(m, ref, ins, false, what)
	zzForceKey = -1
	if ref.diverged {
		zzvf.Reach(what)
		return
	}
	zzvf.Guard(what+"/enumerate/no-deadlock", func() { zzCheck_%(N)s(m, ref, what) })
	zzvf.Reach(what)
}''' % dict(N=N, P=t['prop'], ins=', '.join('"%s"' % o for o in ins), put=self.ins[0],
                    pre='0, 1, 3' if self.k == 'str' else '0, 1, 2', last='4, 0, 3' if self.k == 'str' else '3, 0, 2')

    def growins(self):
        """C09 linked types: an insertion through ANY put/add variant, then growth of the table, then the
        complete state (incl. bucket lookups) is compared -- an entry whose bookkeeping (stored hash, links)
        is only wrong for one insertion variant shows when a later growth re-buckets it"""
        t, N = self.t, self.N
        if t['prop'] != 'C09':
            return ''
        ins = [o for o in t['ops'] if o.startswith('put') or o.startswith('add')]
        return '''

var zzGrowIns_%(N)s = []string{%(ins)s}

// InsertThenGrow: four insertions of four distinct non-empty pool keys into a table of capacity 1..3
// (so the table grows once or twice AFTER the early insertions); ONE of the first three insertions
// goes through an arbitrary put/add variant, the others are plain; then one lookup-style operation
// and the complete observable state (incl. "every stored key is found by lookup").
//vf:paths=20000 deadline=4m
func ZZ_%(P)s_%(N)s_InsertThenGrow() {
	what := "%(N)s/insert-then-grow"
	cfg := zzCfgAll[zzvf.Choose(len(zzCfgAll))]
	m := zzNew_%(N)s(cfg.cap, cfg.lf)
	ref := &zzM_%(N)s{poolN: 5}
	pos := zzvf.Choose(3)
	ins := zzGrowIns_%(N)s[zzvf.Choose(len(zzGrowIns_%(N)s))]
	for i, k := range []int{%(keys)s} {
		zzForceKey = k
		op := "%(put)s"
		if i == pos {
			op = ins
		}
		zzStep_%(N)s(m, ref, op, false, what)
	}
	zzForceKey = []int{%(keys)s}[pos]
	zzStep_%(N)s(m, ref, []string{"containskey", "remove", "%(put)s"}[zzvf.Choose(3)], false, what)
	zzForceKey = -1
	if ref.diverged {
		zzvf.Reach(what)
		return
	}
	zzvf.Guard(what+"/enumerate/no-deadlock", func() { zzCheck_%(N)s(m, ref, what) })
	zzvf.Reach(what)
}''' % dict(N=N, P=t['prop'], ins=', '.join('"%s"' % o for o in ins), put=self.ins[0],
                    keys='0, 1, 3, 4' if self.k == 'str' else '0, 1, 2, 3')

    def generate(self):
        N, t = self.N, self.t
        body_start = len(self.out)
        self.model()
        self.ctor()
        self.keyfn()
        if self.linked:
            self.check_linked()
        else:
            self.check_plain()
        if 'tobytes' in t['ops']:
            self.check_roundtrip()
        self.step()
        self.harness()
        body = '\n'.join(self.out[body_start:])
        imports = ['"github.com/whatap/golib/zzvf"']
        if 'tobytes' in t['ops']:
            imports.insert(0, '"github.com/whatap/golib/io"')
        std = []
        if 'math.' in body:
            std.append('"math"')
        head = ['//vf:dir util/hmap', 'package hmap', '',
                '// GENERATED by /verif/harness/gen_hmap.py -- do not edit. Property %s, type %s.' % (t['prop'], N), '',
                'import (']
        for s in std:
            head.append('\t' + s)
        if std:
            head.append('')
        for s in imports:
            head.append('\t' + s)
        head += [')', '']
        return '\n'.join(head) + body + '\n'


# ----------------------------------------------------------------------------------------------
# C10: lock discipline (self-deadlock of every public method, data races between point operations)
# ----------------------------------------------------------------------------------------------

C10_MODEL_GO = """//vf:dir util/hmap
//vf:race
//vf:import util/hmap sync github.com/whatap/golib/zzvf/zsync native
package hmap

// GENERATED by /verif/harness/gen_hmap.py -- do not edit; helpers shared by the C10 harness files.

import (
	"strings"

	"github.com/whatap/golib/zzvf"
)

// the lock event log (ghost log under the executor; natively written by package zsync, which
// replaces sync in this package for the replay)
func zzEventCount() int {
	s := zzvf.Events()
	if s == "" {
		return 0
	}
	return len(strings.Split(s, ";"))
}

// zzSections: number of top-level lock acquisitions since event index `from`: a point
// operation that is one atomic step takes the structure's lock ONCE (check-then-act over two
// critical sections is not atomic even though every access is locked)
func zzSections(from int) int {
	s := zzvf.Events()
	if s == "" {
		return 0
	}
	ev := strings.Split(s, ";")
	depth, n := 0, 0
	for _, e := range ev[from:] {
		switch {
		case strings.HasPrefix(e, "lock "), strings.HasPrefix(e, "rlock "):
			if depth == 0 {
				n++
			}
			depth++
		case strings.HasPrefix(e, "unlock "), strings.HasPrefix(e, "runlock "):
			depth--
		}
	}
	return n
}

// zzLK: harness LinkedKey (hash independent of the identity, so chains exist in the small tables)
type zzLK struct {
	h  uint
	id int32
}

func (k *zzLK) Hash() uint { return k.h }
func (k *zzLK) Equals(o LinkedKey) bool {
	x, ok := o.(*zzLK)
	if !ok {
		return false
	}
	return x.id == k.id
}
"""

# concrete keys: K0, K1 (collides with K0 in the 3-slot table), K2 make up the pre-state, KN is new
C10_KEYS = {
    'i32': ['int32(0)', 'int32(3)', 'int32(-1)', 'int32(math.MinInt32)'],
    'i64': ['int64(0)', 'int64(3)', 'int64(-1)', 'int64(math.MinInt64)'],
    'str': ['"ki"', '"ld"', '"a"', '"b"'],
    'strjh': ['"Aa"', '"BB"', '"a"', '"b"'],
    'lk': ['&zzLK{0, 0}', '&zzLK{0, 1}', '&zzLK{3, 2}', '&zzLK{6, 3}'],
}
C10_VAL = {'i32': 'int32(7)', 'i64': 'int64(7)', 'f32': 'float32(7)', 'box': 'int64(7)', 'none': None}

# operations eligible for RacePair: the point operations + size named by the property
C10_PAIR = ['put', 'putupdate', 'putfirst', 'putfirstnew', 'putlast', 'putlastnew', 'add', 'addfirst', 'addlast', 'addlastnew', 'addnoover', 'addifexist', 'unipoint',
            'get', 'getlru', 'containskey', 'haskey', 'containsvalue', 'remove', 'removefirst', 'removelast', 'clear',
            'size', 'isempty', 'isfull']
# every other public method: self-deadlock obligation only
C10_GUARD = ['setmax', 'sort', 'keyarray', 'valuearray', 'keys', 'values', 'entries', 'tostring', 'toformatstring',
             'getfirstkey', 'getlastkey', 'getfirstvalue', 'getlastvalue', 'getkeyset', 'tokeyset', 'valueiterator',
             'tobytes', 'toobject', 'setnullvalue', 'putall', 'putallself']


def c10_ops(t):
    """(pair ops, guard-only ops) available for the type"""
    have = set(t['ops'])
    N = t['name']
    isset = t['v'] == 'none'
    linked = t['prop'] == 'C09'
    pair = []
    for o in C10_PAIR:
        if o == 'putupdate':
            pair.append(o)
        elif o in ('putfirstnew', 'putlastnew', 'addlastnew'):
            if o[:-3] in have:  # the same method with a key that is not in the pre-state (eviction / growth paths)
                pair.append(o)
        elif o in ('size',):
            pair.append(o)
        elif o == 'isempty':
            if t['isempty']:
                pair.append(o)
        elif o == 'isfull':
            if t['isfull']:
                pair.append(o)
        elif o in have:
            pair.append(o)
    guard = []
    for o in C10_GUARD:
        if o == 'sort':
            if 'sortasc' in have:
                guard.append(o)
        elif o == 'keyarray':
            if t['keyarray']:
                guard.append(o)
        elif o == 'valuearray':
            if t['valuearray']:
                guard.append(o)
        elif o == 'keys':
            guard.append(o)
        elif o == 'values':
            if not isset:
                guard.append(o)
        elif o == 'entries':
            if t['entries']:
                guard.append(o)
        elif o in ('getfirstkey', 'getlastkey'):
            if linked:
                guard.append(o)
        elif o in ('getfirstvalue', 'getlastvalue'):
            if linked and not isset:
                guard.append(o)
        elif o == 'toobject':
            if 'tobytes' in have:
                guard.append(o)
        elif o == 'putallself':
            if 'putall' in have and N != 'IntSet':
                guard.append(o)  # a map merged into itself (source lock == destination lock)
        elif o in have:
            guard.append(o)
    return pair, guard


def gen_c10(t):
    N = t['name']
    kk = 'strjh' if t['pool'] is JHPOOL else t['k']
    K0, K1, K2, KN = C10_KEYS[kk]
    V = C10_VAL[t['v']]
    isset = t['v'] == 'none'
    pair, guard = c10_ops(t)
    ops = pair + guard
    out = []
    w = out.append

    def kv(k):
        return k if isset else '%s, %s' % (k, V)

    # constructor
    if t['ctor'] == 'caplf':
        w('func zzNew10_%s() *%s { return New%s(3, 1.0) }' % (N, N, N))
    else:
        w("""func zzNew10_%(N)s() *%(N)s {
	m := New%(N)s() // real constructor (capacity 101) shrunk to 3 slots / threshold 3, so that chains exist
	m.table = make([]*%(tab)s, 3)
	m.loadFactor = 1.0
	m.threshold = 3
	return m
}""" % dict(N=N, tab=t['tab']))
    w('')
    w("""// zzPre10_%(N)s: pre-state with n = 0, 1 or 3 entries (two of them in one chain); the next new key grows the table
func zzPre10_%(N)s(n int) *%(N)s {
	m := zzNew10_%(N)s()""" % dict(N=N))
    if 'setmax' in t['ops']:
        w('	m.SetMax(8) // IsFull then reads the element count')
    w('	if n >= 1 {')
    w('		m.Put(%s)' % kv(K0))
    w('	}')
    w('	if n >= 3 {')
    w('		m.Put(%s)' % kv(K1))
    w('		m.Put(%s)' % kv(K2))
    w('	}')
    if 'setmax' in t['ops']:
        w('	if n == 4 {')
        w('		m.SetMax(3) // full: the next insertion of a new key takes the eviction path')
        w('	}')
    w('	return m')
    w('}')
    w('')
    w('// the first %d operations (point operations and size) are paired by RacePair; all %d are checked for self-deadlock' % (len(pair), len(ops)))
    w('var zzOps10_%s = []string{%s}' % (N, ', '.join('"%s"' % o for o in ops)))
    w('')
    w('// zzOp10_%s: the operation as a closure on m; concrete arguments (the lockset does not depend on values);' % N)
    w('// the closures write nothing they capture')
    w('func zzOp10_%(N)s(m *%(N)s, op string) func() {' % dict(N=N))
    w('	switch op {')
    contains = t['contains']
    ktype = KEY[t['k']]['arg']
    nxtk = t['keys'][0]
    keysmeth = t['keys'][2] if len(t['keys']) > 2 else 'Keys'

    def case(o, body):
        w('	case "%s":' % o)
        w('		return func() { %s }' % body)

    def casem(o, lines):
        w('	case "%s":' % o)
        w('		return func() {')
        for l in lines:
            w('			' + l)
        w('		}')

    for o in ops:
        if o == 'put':
            case(o, 'm.Put(%s)' % kv(KN))
        elif o == 'putupdate':
            case(o, 'm.Put(%s)' % kv(K0))
        elif o == 'putfirst':
            case(o, 'm.PutFirst(%s)' % kv(K2))
        elif o == 'putlast':
            case(o, 'm.PutLast(%s)' % kv(K0))
        elif o == 'putfirstnew':
            case(o, 'm.PutFirst(%s)' % kv(KN))
        elif o == 'putlastnew':
            case(o, 'm.PutLast(%s)' % kv(KN))
        elif o == 'addlastnew':
            case(o, 'm.AddLast(%s)' % kv(KN))
        elif o == 'add':
            case(o, 'm.Add(%s)' % kv(K0))
        elif o == 'addfirst':
            case(o, 'm.AddFirst(%s)' % kv(KN))
        elif o == 'addlast':
            case(o, 'm.AddLast(%s)' % kv(K1))
        elif o == 'addnoover':
            case(o, 'm.AddNoOver(%s)' % kv(KN))
        elif o == 'addifexist':
            case(o, 'm.AddIfExist(%s)' % kv(K0))
        elif o == 'unipoint':
            case(o, 'm.Unipoint(%s)' % KN)
        elif o == 'get':
            case(o, 'm.Get(%s)' % K0)
        elif o == 'getlru':
            case(o, 'm.GetLRU(%s)' % K0)
        elif o == 'containskey':
            case(o, 'm.%s(%s)' % (contains, K1))
        elif o == 'haskey':
            case(o, 'm.HasKey(%s)' % K1)
        elif o == 'containsvalue':
            case(o, 'm.ContainsValue(%s)' % V)
        elif o == 'remove':
            case(o, 'm.Remove(%s)' % K0)
        elif o == 'removefirst':
            case(o, 'm.RemoveFirst()')
        elif o == 'removelast':
            case(o, 'm.RemoveLast()')
        elif o == 'clear':
            case(o, 'm.Clear()')
        elif o == 'size':
            case(o, 'm.Size()')
        elif o == 'isempty':
            case(o, 'm.IsEmpty()')
        elif o == 'isfull':
            case(o, 'm.IsFull()')
        elif o == 'setmax':
            case(o, 'm.SetMax(2)')
        elif o == 'sort':
            if t['k'] == 'lk':
                case(o, 'm.Sort(func(a, b LinkedKey) bool { return a.(*zzLK).id < b.(*zzLK).id })')
            else:
                case(o, 'm.Sort(func(a, b %s) bool { return a < b })' % ktype)
        elif o == 'keyarray':
            case(o, 'm.%s()' % t['keyarray'])
        elif o == 'valuearray':
            case(o, 'm.%s()' % t['valuearray'])
        elif o == 'keys':
            casem(o, ['e := m.%s()' % keysmeth, 'for i := 0; e.HasMoreElements() && i < 8; i++ {', '	e.%s()' % nxtk, '}'])
        elif o == 'values':
            casem(o, ['e := m.Values()', 'for i := 0; e.HasMoreElements() && i < 8; i++ {', '	e.%s()' % t['values'][0], '}'])
        elif o == 'entries':
            casem(o, ['e := m.Entries()', 'for i := 0; e.HasMoreElements() && i < 8; i++ {', '	e.NextElement()', '}'])
        elif o == 'valueiterator':
            casem(o, ['if e, ok := m.ValueIterator().(Enumeration); ok {', '	for i := 0; e.HasMoreElements() && i < 8; i++ {', '		e.NextElement()', '	}', '}'])
        elif o == 'tostring':
            case(o, 'm.ToString()')
        elif o == 'toformatstring':
            case(o, 'm.ToFormatString()')
        elif o == 'getfirstkey':
            case(o, 'm.%s()' % t['firstlast'][0])
        elif o == 'getlastkey':
            case(o, 'm.%s()' % t['firstlast'][1])
        elif o == 'getfirstvalue':
            case(o, 'm.%s()' % t['firstlast'][2])
        elif o == 'getlastvalue':
            case(o, 'm.%s()' % t['firstlast'][3])
        elif o == 'getkeyset':
            case(o, 'm.GetKeySet()')
        elif o == 'tokeyset':
            case(o, 'm.ToKeySet()')
        elif o == 'tobytes':
            case(o, 'm.ToBytes(io.NewDataOutputX())')
        elif o == 'toobject':
            wv = 'o.WriteFloat(6)' if t['v'] == 'f32' else 'o.WriteDecimal(6)'
            casem(o, ['o := io.NewDataOutputX()', 'o.WriteDecimal(1)', 'o.WriteDecimal(5)', wv, 'm.ToObject(io.NewDataInputX(o.ToByteArray()))'])
        elif o == 'setnullvalue':
            case(o, 'm.SetNullValue(9)')
        elif o == 'putall':
            if N == 'IntSet':
                case(o, 'm.PutAll([]int32{%s, %s})' % (KN, K0))
            else:
                casem(o, ['o := zzNew10_%s()' % N, 'o.Put(%s)' % kv(KN), 'o.Put(%s)' % kv(K0), 'm.PutAll(o)'])
        elif o == 'putallself':
            case(o, 'm.PutAll(m)')
        else:
            raise SystemExit('C10: unknown op ' + o)
    w('	}')
    w('	panic("zzOp10_%s: " + op)' % N)
    w('}')
    w('')
    w("""// ZZ_C10_%(N)s: lock discipline of %(N)s.
// Pre-state: 0, 1 or 3 entries in a 3-slot table (chain of two, the next new key grows the table).
// (1) every public method (op a) runs under the self-deadlock watchdog on its own instance;
//     and every point operation takes the lock at most once (one critical section = one atomic step);
// (2) every unordered pair (a, b), a <= b, of the point operations + size/is-empty/is-full runs as a
//     RacePair on one fresh shared instance: a common cell with a write and no common lock is a race.
//vf:paths=20000 deadline=4m
func ZZ_C10_%(N)s() {
	n := %(pre)s
	a := zzvf.Choose(len(zzOps10_%(N)s))
	opA := zzOps10_%(N)s[a]
	g := zzPre10_%(N)s(n)
	e0 := zzEventCount()
	zzvf.Guard("deadlock/%(N)s/"+opA, zzOp10_%(N)s(g, opA))
	if a < %(np)d {
		zzvf.Assert(zzSections(e0) <= 1, "atomic/%(N)s/"+opA+"/one-critical-section")
		opB := zzOps10_%(N)s[a+zzvf.Choose(%(np)d-a)]
		zzvf.RacePairFresh("race/%(N)s/"+opA+"|"+opB, func() (func(), func()) {
			m := zzPre10_%(N)s(n)
			return zzOp10_%(N)s(m, opA), zzOp10_%(N)s(m, opB)
		})
	}
	zzvf.Reach("%(N)s")
}""" % dict(N=N, np=len(pair), pre=('[]int{0, 1, 3, 4}[zzvf.Choose(4)] // 4 = three entries and the maximum reached' if 'setmax' in t['ops'] else '[]int{0, 1, 3}[zzvf.Choose(3)]')))
    body = '\n'.join(out)
    head = ['//vf:dir util/hmap', '//vf:race', 'package hmap', '',
            '// GENERATED by /verif/harness/gen_hmap.py -- do not edit. Property C10, type %s.' % N, '', 'import (']
    if 'math.' in body:
        head += ['\t"math"', '']
    if 'io.New' in body:
        head.append('\t"github.com/whatap/golib/io"')
    head += ['\t"github.com/whatap/golib/zzvf"', ')', '']
    return '\n'.join(head) + body + '\n'



def main():
    written = []
    for prop in ('C09', 'C12'):
        d = os.path.join(HERE, prop)
        os.makedirs(d, exist_ok=True)
        p = os.path.join(d, 'zz_model.go')
        with open(p, 'w') as f:
            f.write(MODEL_GO % dict(prop=prop))
        written.append(p)
    for t in TYPES:
        p = os.path.join(HERE, t['prop'], t['name'].lower() + '.go')
        with open(p, 'w') as f:
            f.write(Gen(t).generate())
        written.append(p)
    d10 = os.path.join(HERE, 'C10')
    os.makedirs(d10, exist_ok=True)
    p = os.path.join(d10, 'zz_c10.go')
    with open(p, 'w') as f:
        f.write(C10_MODEL_GO)
    written.append(p)
    for t in TYPES:
        p = os.path.join(d10, t['name'].lower() + '.go')
        with open(p, 'w') as f:
            f.write(gen_c10(t))
        written.append(p)
    old = os.path.join(HERE, 'C09', 'intint.go')
    if os.path.exists(old) and '--keep-intint' not in sys.argv:
        os.remove(old)  # superseded by intintlinkedmap.go
    for p in written:
        print(p)
    os.system('gofmt -l -w ' + ' '.join(written))


if __name__ == '__main__':
    main()
