//vf:dir util/hmap
package hmap

import "github.com/whatap/golib/zzvf"

// ---- reference model: insertion-ordered dictionary (slice of entries) ----

type zzE32 struct {
	k int32
	v int32
}
type zzM32 struct {
	e   []zzE32
	max int
	// overfull: SetMax was called with a value below the current size; the maximum is
	// enforced on insertion, so the bound is only asserted again after the next insertion
	overfull bool
}

func (m *zzM32) find(k int32) int {
	for i := range m.e {
		if m.e[i].k == k {
			return i
		}
	}
	return -1
}
func (m *zzM32) removeAt(i int) { m.e = append(m.e[:i:i], m.e[i+1:]...) }

// mode: 0 put (keep position on update, insert last), 1 force-first, 2 force-last
func (m *zzM32) put(k, v int32, mode int, add bool) (existed bool, old int32) {
	if i := m.find(k); i >= 0 {
		old = m.e[i].v
		ent := m.e[i]
		if add {
			ent.v += v
		} else {
			ent.v = v
		}
		m.e[i] = ent
		switch mode {
		case 1:
			m.removeAt(i)
			m.e = append([]zzE32{ent}, m.e...)
		case 2:
			m.removeAt(i)
			m.e = append(m.e, ent)
		}
		return true, old
	}
	if m.max > 0 {
		m.overfull = false
		for len(m.e) >= m.max {
			if mode == 1 {
				m.removeAt(len(m.e) - 1) // insert at front evicts from the back
			} else {
				m.removeAt(0)
			}
		}
	}
	if mode == 1 {
		m.e = append([]zzE32{{k, v}}, m.e...)
	} else {
		m.e = append(m.e, zzE32{k, v})
	}
	return false, 0
}

func zzNewIntIntLinked(cap int, lf float32) *IntIntLinkedMap {
	m := NewIntIntLinkedMap() // real constructor (hard-coded capacity 101) ...
	m.table = make([]*IntIntLinkedEntry, cap)
	m.loadFactor = lf
	m.threshold = int(float32(cap) * lf) // ... with a small table so that growth happens within the bound
	return m
}

func zzCheckState32(m *IntIntLinkedMap, ref *zzM32, what string) {
	zzvf.Assert(m.Size() == len(ref.e), what+"/size")
	ks := m.KeyArray()
	okK, okV := len(ks) == len(ref.e), true
	ve := m.Values()
	ke := m.Keys()
	for i := range ref.e {
		if i < len(ks) {
			okK = zzvf.And(okK, ks[i] == ref.e[i].k)
		}
		okK = zzvf.And(okK, zzvf.And(ke.HasMoreElements(), ke.NextInt() == ref.e[i].k))
		okV = zzvf.And(okV, zzvf.And(ve.HasMoreElements(), ve.NextInt() == ref.e[i].v))
	}
	okK = zzvf.And(okK, !ke.HasMoreElements())
	okV = zzvf.And(okV, !ve.HasMoreElements())
	zzvf.Assert(okK, what+"/key-order")
	zzvf.Assert(okV, what+"/value-order")
	if len(ref.e) > 0 {
		zzvf.Assert(zzvf.And(m.GetFirstKey() == ref.e[0].k, m.GetLastKey() == ref.e[len(ref.e)-1].k), what+"/first-last-key")
		zzvf.Assert(zzvf.And(m.GetFirstValue() == ref.e[0].v, m.GetLastValue() == ref.e[len(ref.e)-1].v), what+"/first-last-value")
	}
	zzvf.Assert(m.IsEmpty() == (len(ref.e) == 0), what+"/isempty")
	if ref.max > 0 && !ref.overfull {
		zzvf.Assert(m.Size() <= ref.max, what+"/never-above-max")
		zzvf.Assert(m.IsFull() == (len(ref.e) >= ref.max), what+"/isfull")
	}
}

var zzOps32 = []string{"put", "putfirst", "putlast", "add", "addfirst", "addlast", "get", "containskey", "containsvalue", "remove", "removefirst", "removelast", "clear", "sort", "setmax"}

func zzStep32(m *IntIntLinkedMap, ref *zzM32, op int, what string) {
	name := what + "/" + zzOps32[op]
	switch op {
	case 0, 1, 2, 3, 4, 5:
		k, v := zzvf.Int32(), zzvf.Int32()
		var r int32
		switch op {
		case 0:
			r = m.Put(k, v)
		case 1:
			r = m.PutFirst(k, v)
		case 2:
			r = m.PutLast(k, v)
		case 3:
			r = m.Add(k, v)
		case 4:
			r = m.AddFirst(k, v)
		case 5:
			r = m.AddLast(k, v)
		}
		ex, old := ref.put(k, v, op%3, op >= 3)
		if ex {
			zzvf.Assert(r == old, name+"/returns-previous")
		}
	case 6:
		k := zzvf.Int32()
		r := m.Get(k)
		if i := ref.find(k); i >= 0 {
			zzvf.Assert(r == ref.e[i].v, name+"/value")
		}
	case 7:
		k := zzvf.Int32()
		zzvf.Assert(m.ContainsKey(k) == (ref.find(k) >= 0), name+"/result")
	case 8:
		v := zzvf.Int32()
		want := false
		for _, e := range ref.e {
			want = zzvf.Or(want, e.v == v)
		}
		zzvf.Assert(m.ContainsValue(v) == want, name+"/result")
	case 9:
		k := zzvf.Int32()
		r := m.Remove(k)
		if i := ref.find(k); i >= 0 {
			zzvf.Assert(r == ref.e[i].v, name+"/returns-previous")
			ref.removeAt(i)
		}
	case 10:
		r := m.RemoveFirst()
		if len(ref.e) > 0 {
			zzvf.Assert(r == ref.e[0].v, name+"/returns-value")
			ref.removeAt(0)
		}
	case 11:
		r := m.RemoveLast()
		if n := len(ref.e); n > 0 {
			zzvf.Assert(r == ref.e[n-1].v, name+"/returns-value")
			ref.removeAt(n - 1)
		}
	case 12:
		m.Clear()
		ref.e = nil
	case 13:
		desc := zzvf.Choose(2) == 1
		m.Sort(func(a, b int32) bool {
			if desc {
				return a > b
			}
			return a < b
		})
		// model: insertion sort of the entry slice (keys are distinct)
		for i := 1; i < len(ref.e); i++ {
			for j := i; j > 0; j-- {
				lt := ref.e[j].k < ref.e[j-1].k
				if desc {
					lt = ref.e[j].k > ref.e[j-1].k
				}
				if !lt {
					break
				}
				ref.e[j], ref.e[j-1] = ref.e[j-1], ref.e[j]
			}
		}
	case 14:
		mx := zzvf.Choose(3)
		m.SetMax(mx)
		ref.max = mx
		ref.overfull = mx > 0 && len(ref.e) > mx
	}
}

// bounded histories: prefix of up to 2 (3) insertions, then 2 (3) arbitrary operations;
// ALL keys and values symbolic; capacities 1..3 (growth 1->3->7), load factors, max sizes
//vf: paths=100000 t.paths=4000000 deadline=8m
func ZZ_C09_IntIntLinkedMap() {
	cap := 1 + zzvf.Choose(3)
	lf := []float32{0.75, 1.0}[zzvf.Choose(2)]
	m := zzNewIntIntLinked(cap, lf)
	ref := &zzM32{}
	if mx := zzvf.Choose(3); mx > 0 {
		m.SetMax(mx)
		ref.max = mx
	}
	nIns, nOps := 2, 1
	if zzvf.Thorough() {
		nIns, nOps = 3, 2
	}
	for i, n := 0, zzvf.Choose(nIns+1); i < n; i++ {
		zzStep32(m, ref, zzvf.Choose(3), "IntIntLinkedMap")
	}
	for i := 0; i < nOps; i++ {
		zzStep32(m, ref, zzvf.Choose(len(zzOps32)), "IntIntLinkedMap")
	}
	zzCheckState32(m, ref, "IntIntLinkedMap")
	zzvf.Reach("IntIntLinkedMap")
}
