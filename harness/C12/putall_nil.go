//vf:dir util/hmap
package hmap

// C12 — IntKeyMap stores interface values: nil is a value like any other (the generated
// harnesses only store numbers). PutAll: afterwards the receiver is the union, the
// argument's value winning for common keys — also when that value is nil; Put / Get /
// ContainsKey / Size / Remove with a nil value.

import "github.com/whatap/golib/zzvf"

//vf: paths=2000
func ZZ_C12_IntKeyMap_NilValues() {
	a, b := NewIntKeyMap(3, 1.0), NewIntKeyMap(3, 1.0) // 3 buckets: a symbolic key forks 3 ways
	k1, k2, k3 := int32(1), int32(-7), zzvf.Int32()
	zzvf.Assume(zzvf.And(k3 != k1, k3 != k2))
	a.Put(k1, "old")
	a.Put(k3, "keep")
	b.Put(k1, nil) // common key, nil wins
	b.Put(k2, nil) // new key with a nil value
	zzvf.Assert(b.Size() == 2, "nilvalues/put-nil-counts")
	zzvf.Assert(zzvf.And(b.ContainsKey(k1), b.ContainsKey(k2)), "nilvalues/put-nil-is-contained")
	a.PutAll(b)
	zzvf.Assert(a.Size() == 3, "nilvalues/putall/size-is-union")
	zzvf.Assert(zzvf.And(a.ContainsKey(k1), zzvf.And(a.ContainsKey(k2), a.ContainsKey(k3))), "nilvalues/putall/all-keys-contained")
	zzvf.Assert(a.Get(k1) == nil, "nilvalues/putall/argument-value-wins-also-when-nil")
	zzvf.Assert(a.Get(k2) == nil, "nilvalues/putall/new-key-has-nil")
	zzvf.Assert(a.Get(k3) == "keep", "nilvalues/putall/other-keys-keep-their-values")
	n := 0
	for it := a.Keys(); it.HasMoreElements(); it.NextInt() {
		n++
	}
	zzvf.Assert(n == 3, "nilvalues/putall/enumeration-has-every-key-once")
	a.Remove(k2)
	zzvf.Assert(zzvf.And(!a.ContainsKey(k2), a.Size() == 2), "nilvalues/remove-nil-valued-key")
	zzvf.Reach("nilvalues")
}
