//vf:dir util/hmap
package hmap

// C12 — after a.PutAll(b) the two maps are independent objects: "behaves like a mathematical
// map" holds for EACH of them under later operations on the other (a bulk operation that
// adopts the argument's buckets or entry nodes makes an update of one visible in the other).
// Receiver empty or not, same or different bucket count, symbolic keys and values; then every
// kind of later update (overwrite, remove, insertion across a growth, clear) on one side,
// the other side compared with its model.

import "github.com/whatap/golib/zzvf"

func zzIKGet(m *IntKeyMap, k int32) (int64, bool) {
	v, ok := m.Get(k).(int64)
	return v, ok
}

// vf: paths=20000
func ZZ_C12_IntKeyMap_PutAllIndependent() {
	capA := 1 + zzvf.Choose(3) // 1..3 buckets
	capB := 1 + zzvf.Choose(3)
	a, b := NewIntKeyMap(capA, 1.0), NewIntKeyMap(capB, 1.0)
	k1, k2 := int32(1), int32(-7)
	v1, v2, v3 := zzvf.Int64(), zzvf.Int64(), zzvf.Int64()
	if zzvf.Choose(2) == 1 {
		a.Put(int32(5), int64(50)) // receiver not empty
	}
	pre := a.Size()
	b.Put(k1, v1)
	b.Put(k2, v2)
	a.PutAll(b)
	zzvf.Assert(a.Size() == pre+2, "putall-independent/size-is-union")
	x1, ok1 := zzIKGet(a, k1)
	x2, ok2 := zzIKGet(a, k2)
	zzvf.Assert(zzvf.And(zzvf.And(ok1, x1 == v1), zzvf.And(ok2, x2 == v2)), "putall-independent/receiver-has-the-argument-entries")
	// update ONE side
	side := zzvf.Choose(2)
	upd, oth := a, b
	if side == 1 {
		upd, oth = b, a
	}
	who := []string{"argument-unchanged-by-update-of-receiver", "receiver-unchanged-by-update-of-argument"}[side]
	othSize := oth.Size()
	switch zzvf.Choose(4) {
	case 0:
		upd.Put(k1, v3) // overwrite
	case 1:
		upd.Remove(k2)
	case 2:
		upd.Put(int32(2), v3) // new keys: growth of the updated side
		upd.Put(int32(3), v3)
		upd.Put(int32(-4), v3)
	case 3:
		upd.Clear()
	}
	y1, okA := zzIKGet(oth, k1)
	y2, okB := zzIKGet(oth, k2)
	zzvf.Assert(zzvf.And(zzvf.And(okA, y1 == v1), zzvf.And(okB, y2 == v2)), "putall-independent/"+who+"/values")
	zzvf.Assert(oth.Size() == othSize, "putall-independent/"+who+"/size")
	zzvf.Assert(zzvf.And(oth.ContainsKey(k1), oth.ContainsKey(k2)), "putall-independent/"+who+"/membership")
	n := 0
	for it := oth.Keys(); it.HasMoreElements(); it.NextInt() {
		n++
	}
	zzvf.Assert(n == othSize, "putall-independent/"+who+"/enumeration-has-every-key-once")
	zzvf.Reach("putall-independent")
}
