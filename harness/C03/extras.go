//vf:dir lang/pack
//vf:use packcommon.go
package pack

// C03 — hand-written parts of the pack round-trip harnesses:
//   * zzExtra<Pack>(p): populate what zzvf.Fill leaves alone (hash maps, value maps,
//     interface-typed members, nested packs) the way the pack's writer expects it;
//   * zzOpt<Pack>(): per-pack comparison where the writer mutates the pack or the pack keeps
//     a cache / lazily decoded blob (compared through the pack's public accessors);
//   * extra ZZ_C03_* harnesses: one optional section in isolation (narrow labels around a
//     defect), record lists and container packs.
//
// Map keys are concrete (distinct, two of them share a bucket of the 101-slot tables): what
// the hash tables do with arbitrary keys is C09/C12; the values are symbolic.

import (
	stdlist "container/list"

	"github.com/whatap/golib/io"
	"github.com/whatap/golib/lang"
	"github.com/whatap/golib/lang/value"
	"github.com/whatap/golib/util/hmap"
	"github.com/whatap/golib/util/list"
	"github.com/whatap/golib/zzvf"
)

var zzSKeys = []string{"p", "y", "e"} // "p"/"y" collide (CRC-32 mod 101)
var zzIKeys = []int32{5, 106, -3}      // 5/106 collide

// Focus rotation inside the hooks. zzFocus (set by zzPackRoundTripO) is the Fill slot that
// ranges over all its values in this run. While it is >= 0 every collection has ONE entry
// with decimal-coded members in the small class 1..100. In the run without Fill focus the
// hook rotates its own slots: zzHFocus = -1 enumerates the collection sizes (values small),
// zzHFocus = k gives every collection its maximal size and lets the k-th decimal-coded
// member range over all its values (each WriteDecimal of a wide value forks 7 ways, so at
// most one is wide per run).
var zzHSlot, zzHFocus int

// zzHookBegin(k): k = number of decimal-coded slots the hook creates at maximal sizes.
func zzHookBegin(k int) {
	zzHSlot, zzHFocus = 0, -1
	if zzFocus == -1 && k > 0 {
		zzHFocus = zzvf.Choose(k+1) - 1
	}
}

func zzSize(max int) int {
	if zzFocus >= 0 {
		return 1
	}
	if zzHFocus >= 0 {
		return max
	}
	return zzvf.Choose(max + 1)
}

func zzI64() int64 {
	me := zzHSlot
	zzHSlot++
	v := zzvf.Int64()
	if me != zzHFocus {
		zzvf.Assume(zzvf.And(v >= 1, v <= 100))
	}
	return v
}

func zzI32() int32 {
	me := zzHSlot
	zzHSlot++
	v := zzvf.Int32()
	if me != zzHFocus {
		zzvf.Assume(zzvf.And(v >= 1, v <= 100))
	}
	return v
}

// zzVal: a value with symbolic payload; kind k (0 decimal, 1 text, 2 float, 3 double, 4 bool).
// Decimal payloads stay in the small class: the width classes of tagged values are C02's.
func zzVal(k int) value.Value {
	switch k % 5 {
	case 0:
		return value.NewDecimalValue(zzSmallI64())
	case 1:
		return value.NewTextValue(zzvf.String(1))
	case 2:
		return value.NewFloatValue(zzvf.Float32())
	case 3:
		return value.NewDoubleValue(zzvf.Float64())
	}
	return value.NewBoolValue(zzvf.Bool())
}

func zzMapValue(n int, k0 int) *value.MapValue {
	m := value.NewMapValue()
	for i := 0; i < n; i++ {
		m.Put(zzSKeys[i], zzVal(k0+i))
	}
	return m
}

func zzIntMapValue(n int, k0 int) *value.IntMapValue {
	m := value.NewIntMapValue()
	for i := 0; i < n; i++ {
		m.Put(zzIKeys[i], zzVal(k0+i))
	}
	return m
}

func zzSmallI64() int64 {
	v := zzvf.Int64()
	zzvf.Assume(zzvf.And(v >= 1, v <= 100))
	return v
}
func zzSmallI32() int32 {
	v := zzvf.Int32()
	zzvf.Assume(zzvf.And(v >= 1, v <= 100))
	return v
}

// ---------------------------------------------------------------- simple hooks

func zzExtraParamPack(p Pack) {
	zzHookBegin(0)
	pp := p.(*ParamPack)
	n := zzSize(2)
	for i := 0; i < n; i++ {
		pp.Put(zzSKeys[i], zzVal(i)) // decimal, text
	}
}

func zzExtraExtensionPack(p Pack) {
	zzHookBegin(0)
	pp := p.(*ExtensionPack)
	n := zzSize(2)
	for i := 0; i < n; i++ {
		pp.Header.Put(zzSKeys[i], zzvf.Int32())
	}
	pp.Value = zzIntMapValue(zzSize(2), 1) // text, float
}

func zzExtraStatRemoteIpPack(p Pack) {
	zzHookBegin(0)
	pp := p.(*StatRemoteIpPack)
	n := zzSize(2)
	for i := 0; i < n; i++ {
		pp.IpTable.Put(zzIKeys[i], zzvf.Int32())
	}
}

func zzExtraStatUserAgentPack(p Pack) {
	zzHookBegin(0)
	pp := p.(*StatUserAgentPack)
	n := zzSize(2)
	for i := 0; i < n; i++ {
		pp.UserAgents.Put(zzIKeys[i], zzvf.Int32())
	}
}

// HitMapPack1: the constructor makes both tables HITMAP_LENGTH long and Write indexes all
// of them. The wire carries 16 bits per cell read back unsigned: cells range over 0..65535.
func zzExtraHitMapPack1(p Pack) {
	pp := p.(*HitMapPack1)
	pp.Hit = make([]int32, HITMAP_LENGTH)
	pp.Error = make([]int32, HITMAP_LENGTH)
	for i := 0; i < HITMAP_LENGTH; i++ {
		h, e := zzvf.Int32(), zzvf.Int32()
		zzvf.Assume(zzvf.And(zzvf.And(h >= 0, h <= 0xffff), zzvf.And(e >= 0, e <= 0xffff)))
		pp.Hit[i], pp.Error[i] = h, e
	}
}

// tag packs: tagHash/TagHash is recomputed by Write from the encoded tags when it is 0 and
// there are tags. A CRC of symbolic bytes is out of the solver's reach, so that path runs
// with concrete tag contents; with symbolic tags the hash is an arbitrary non-zero value.
func zzTags(hash *int64) *value.MapValue {
	n := zzSize(2)
	if n > 0 && zzvf.Choose(2) == 0 {
		*hash = 0
		m := value.NewMapValue()
		m.PutString(zzSKeys[0], "v")
		if n > 1 {
			m.PutLong(zzSKeys[1], 77)
		}
		return m
	}
	if n > 0 {
		zzvf.Assume(*hash != 0)
	}
	return zzMapValue(n, 1) // text, float
}

func zzExtraTagCountPack(p Pack) {
	zzHookBegin(0)
	pp := p.(*TagCountPack)
	pp.Tags = zzTags(&pp.tagHash)
	pp.Data = zzMapValue(zzSize(2), 0) // decimal, text
}

func zzExtraTagLogPack(p Pack) {
	zzHookBegin(0)
	pp := p.(*TagLogPack)
	pp.Tags = zzTags(&pp.tagHash)
	pp.Fields = zzMapValue(zzSize(2), 0)
}

func zzExtraLogSinkPack(p Pack) {
	zzHookBegin(0)
	pp := p.(*LogSinkPack)
	pp.Tags = zzTags(&pp.TagHash)
	n := zzSize(3)
	if n == 3 {
		pp.Fields = nil // optional section absent
	} else {
		pp.Fields = zzMapValue(n, 0)
	}
}

// ServerInfoPack.Version travels as a signed 24-bit integer.
func zzExtraServerInfoPack(p Pack) {
	zzHookBegin(0)
	pp := p.(*ServerInfoPack)
	zzvf.Assume(zzvf.And(pp.Version >= -8388608, pp.Version <= 8388607))
	pp.Attr = zzMapValue(zzSize(2), 0)
}

// ProfilePack: the transaction record's optional field map
func zzExtraProfilePack(p Pack) {
	zzHookBegin(0)
	pp := p.(*ProfilePack)
	// TxRecord.Read replaces an error level of 0 ("not sent" by old agents) by WARNING when
	// the record carries an error: 0 is a sentinel there, not data (TxRecord itself is C08's)
	t := pp.Transaction
	zzvf.Assume(zzvf.Or(t.ErrorLevel != 0, t.Error == 0))
	if n := zzSize(2); n > 0 {
		pp.Transaction.Fields = zzMapValue(n, 0)
	}
}

// ---------------------------------------------------------------- EventPack

// EventPack.Write stores Uuid/Escalation/Status/Otype under reserved keys INTO p.Attr and
// Read removes them again from the decoded Attr (by design: "only used while serializing"),
// so p.Attr (after Write) and q.Attr differ by construction. The scalar fields go through
// AssertCarried on copies without Attr; Attr is compared through its accessors against the
// entries the hook stored.
var zzEvKeys []string
var zzEvVals []string

func zzExtraEventPack(p Pack) {
	zzHookBegin(0)
	pp := p.(*EventPack)
	// Status / Otype travel as decimal TEXT (Sprintf("%d") / Atoi): the digit model forks on
	// sign and digit count and the round trip is a chain of divisions; magnitudes above
	// 999 are outside the bound (probe: full int32 range undecided at the 4 min budget, 5 digits leave one re-encoding query unknown)
	zzvf.Assume(zzvf.And(pp.Status >= -999, pp.Status <= 999))
	zzvf.Assume(zzvf.And(pp.Otype >= -999, pp.Otype <= 999))
	zzEvKeys, zzEvVals = nil, nil
	n := zzSize(2)
	for i := 0; i < n; i++ {
		v := zzvf.String(1)
		pp.Attr.Put(zzSKeys[i], v)
		zzEvKeys = append(zzEvKeys, zzSKeys[i])
		zzEvVals = append(zzEvVals, v)
	}
}

func zzOptEventPack() *zzOpts {
	return &zzOpts{compare: func(b []byte, p, q Pack, name string) {
		pe := p.(*EventPack)
		qe, ok := q.(*EventPack)
		zzvf.Assert(ok, name+"/same-dynamic-type")
		if !ok {
			return
		}
		pa, qa := *pe, *qe
		pa.Attr, qa.Attr = nil, nil
		zzvf.AssertCarried(b, &pa, &qa, name)
		zzvf.Assert(qe.Attr.Size() == len(zzEvKeys), name+"/field/Attr/size")
		ks := qe.Attr.KeyArray()
		for i, k := range zzEvKeys {
			zzvf.Assert(i < len(ks) && ks[i] == k, name+"/field/Attr/order")
			s, isStr := qe.Attr.Get(k).(string)
			zzvf.Assert(isStr, name+"/field/Attr/value-type")
			zzvf.Assert(zzvf.Same(s, zzEvVals[i]), name+"/field/Attr/value")
		}
	}}
}

// ---------------------------------------------------------------- CompositePack

// zzInner: a small registered pack with symbolic content (nested packs, depth 1)
func zzInner(kind int) Pack {
	switch kind % 3 {
	case 0:
		t := NewTextPack()
		zzvf.Fill(t, -1, 0)
		return t
	case 1:
		r := NewRealtimeUserPack()
		zzvf.Fill(r, -1, 1)
		return r
	}
	a := NewActiveStackPack()
	zzvf.Fill(a, -1, 0)
	return a
}

func zzExtraCompositePack(p Pack) {
	zzHookBegin(0)
	pp := p.(*CompositePack)
	n := zzSize(2)
	k0 := zzvf.Choose(3)
	pp.pack = make([]Pack, 0)
	for i := 0; i < n; i++ {
		in := zzInner(k0 + i)
		if i == 1 { // second inner pack with the short header form
			in.SetOKIND(0)
			in.SetONODE(0)
		}
		pp.pack = append(pp.pack, in)
	}
}

// ---------------------------------------------------------------- SM packs

// SMExtension: the constructor leaves the three maps nil and Write dereferences them; the
// setters are the only way to a writable pack. Reader and writer disagree on the layout
// (see the finding), already with three empty maps; decoding the misaligned bytes of
// non-empty symbolic maps only multiplies the ways to fail (symbolic counts and keys), so
// the quick tier uses empty maps and the thorough tier 0..1 entries.
func zzExtraSMExtension(p Pack) {
	zzHookBegin(0)
	pp := p.(*SMExtension)
	n := 0
	if zzvf.Thorough() {
		n = zzSize(1)
	}
	pp.SetHeader(zzIntMapValue(n, 1))
	pp.SetValues(zzIntMapValue(n, 0))
	pp.SetMetaValues(zzIntMapValue(n, 1))
}

// DiskPerf.Count / NetPerf.Count are not on the wire: the writers emit the constant 1.
func zzExtraSMDiskPerfPack(p Pack) {
	pp := p.(*SMDiskPerfPack)
	for i := range pp.Disk {
		pp.Disk[i].Count = 1
	}
}
func zzExtraSMNetPerfPack(p Pack) {
	pp := p.(*SMNetPerfPack)
	for i := range pp.Net {
		pp.Net[i].Count = 1
	}
}


// SMLogEvent: a nil FilePath / LogContent / WinLogFile / WinSourceName is written as the
// empty text and comes back as a pointer to "": the wire cannot tell them apart, so the
// original is normalised the same way before the field-by-field comparison. (Keyword and
// LogRule were dereferenced unconditionally by the writer — fixed in /repo; since then they
// follow the same nil-as-empty convention.)
func zzOptSMLogEventPack() *zzOpts {
	return &zzOpts{compare: func(b []byte, p, q Pack, name string) {
		pe := p.(*SMLogEventPack)
		qe, ok := q.(*SMLogEventPack)
		zzvf.Assert(ok, name+"/same-dynamic-type")
		if !ok {
			return
		}
		pa := *pe
		pa.LogEvent = make([]SMLogEvent, len(pe.LogEvent))
		for i := range pe.LogEvent {
			e := pe.LogEvent[i]
			empty := ""
			if e.FilePath == nil {
				e.FilePath = &empty
			}
			if e.LogContent == nil {
				e.LogContent = &empty
			}
			if e.WinLogFile == nil {
				e.WinLogFile = &empty
			}
			if e.WinSourceName == nil {
				e.WinSourceName = &empty
			}
			if e.Keyword == nil {
				e.Keyword = &empty
			}
			if e.LogRule == nil {
				e.LogRule = &empty
			}
			pa.LogEvent[i] = e
		}
		zzvf.AssertCarried(b, &pa, qe, name)
	}}
}

// ---------------------------------------------------------------- SMBasePack

// The Cpu/Memory members are interfaces whose concrete type the reader derives from OS:
// CpuLinux/MemoryLinux for LINUX, OSX, AIX, HPUX and CpuWindow/MemoryWindow for WINDOW.
// The generic harness pins OS to one of these five with the matching member types.
func zzCpu(win bool) Cpu {
	if win {
		c := &CpuWindow{}
		zzvf.Fill(c, -1, 0)
		return c
	}
	c := &CpuLinux{}
	zzvf.Fill(c, -1, 0)
	return c
}

func zzSMBase(p Pack, os int16) {
	pp := p.(*SMBasePack)
	zzHookBegin(0)
	pp.OS = os
	win := os == OS_WINDOW
	pp.Cpu = zzCpu(win)
	n := zzSize(2)
	pp.CpuCore = make([]Cpu, 0)
	for i := 0; i < n; i++ {
		pp.CpuCore = append(pp.CpuCore, zzCpu(win))
	}
	if win {
		m := &MemoryWindow{}
		zzvf.Fill(m, -1, 0)
		pp.Memory = m
	} else {
		m := &MemoryLinux{}
		zzvf.Fill(m, -1, 0)
		pp.Memory = m
	}
	switch zzSize(2) {
	case 0:
		pp.Extra = nil
	case 1:
		pp.Extra = zzMapValue(1, 0)
	default:
		pp.Extra = zzMapValue(2, 1)
	}
}

var zzHandledOS = []int16{OS_LINUX, OS_WINDOW, OS_OSX, OS_HPUX, OS_AIX}

func zzExtraSMBasePack(p Pack) { zzSMBase(p, zzHandledOS[zzvf.Choose(len(zzHandledOS))]) }

// (if the reader learns these codes they belong into zzHandledOS above)
// the OS codes the package defines but SMBasePack.Read has no case for: the reader skips
// the cpu / core / memory sections the writer always emits. Scalars symbolic, the skipped
// sections concrete (zero) so that the bytes read at the wrong offsets are concrete.
//vf: paths=600 deadline=45s t.paths=20000 t.deadline=4m
func ZZ_C03_SMBasePack_OtherOS() {
	zzPackRoundTripO("SMBasePack+os-sunos-openbsd-freebsd", func() Pack { return NewSMBasePack() }, false,
		func(p Pack) {
			pp := p.(*SMBasePack)
			pp.OS = []int16{OS_SUNOS, OS_OPENBSD, OS_FREEBSD}[zzvf.Choose(3)]
			pp.IP, pp.UpTime, pp.EpochTime = zzvf.Int32(), zzSmallI64(), zzvf.Int64()
			pp.Cpu, pp.Memory = &CpuLinux{}, &MemoryLinux{}
		}, &zzOpts{norotate: true, nofill: true})
}

// component: the CpuOSX write/read pair (SMBasePack.Read itself builds CpuLinux for OS_OSX)
//vf: paths=2000
func ZZ_C03_SMBasePack_CpuOSX() {
	c := &CpuOSX{}
	zzvf.Fill(c, -1, 0)
	out := io.NewDataOutputX()
	c.Write(out)
	b := out.ToByteArray()
	in := io.NewDataInputX(b)
	d := &CpuOSX{}
	d.Read(in)
	zzvf.Assert(in.Available() == 0, "SMBasePack.CpuOSX/consumed-exactly")
	zzvf.AssertCarried(b, c, d, "SMBasePack.CpuOSX")
	zzvf.Reach("SMBasePack.CpuOSX")
}

// ---------------------------------------------------------------- CounterPack1

func zzTxMeterInto(m *TxMeter) {
	m.Time, m.Count, m.Error, m.Actx = zzI64(), zzI32(), zzI32(), zzI32()
}

var zzPCodes = []int64{7, 1 << 40}
var zzOKinds = []int32{3, -1}

// zzCounter populates the sections of CounterPack1 that Fill leaves alone. section "" is
// the generic harness: the four meter tables the reader restores. Each of the other
// sections is exercised by its own harness (own label prefix) with the rest absent, so
// that a section the reader drops or mis-reads does not drown the other labels:
// Netstat, Websocket, DbNum (DbNumActive+DbNumIdle), Extra, POidMeter. The last three are
// read at the wrong offsets by the current reader; their harnesses leave the scalar
// members as constructed (nofill) so that what follows the section is concrete.
func zzCounter(p Pack, section string) {
	pp := p.(*CounterPack1)
	pp.Netstat, pp.Websocket = nil, nil // Fill allocated them
	switch section {
	case "":
		zzHookBegin(40)
		if n := zzSize(3); n < 3 {
			pp.TxcallerOidMeter = hmap.NewIntKeyLinkedMapDefault()
			for i := 0; i < n; i++ {
				m := new(TxMeter)
				zzTxMeterInto(m)
				pp.TxcallerOidMeter.Put(zzIKeys[i], m)
			}
		}
		if n := zzSize(3); n < 3 {
			pp.SqlMeter = hmap.NewIntKeyLinkedMapDefault()
			for i := 0; i < n; i++ {
				m := new(SqlMeter)
				zzTxMeterInto(&m.TxMeter)
				m.FetchCount, m.FetchTime = zzI64(), zzI64()
				pp.SqlMeter.Put(zzIKeys[i], m)
			}
		}
		if n := zzSize(3); n < 3 {
			pp.HttpcMeter = hmap.NewIntKeyLinkedMapDefault()
			for i := 0; i < n; i++ {
				m := new(HttpcMeter)
				zzTxMeterInto(&m.TxMeter)
				pp.HttpcMeter.Put(zzIKeys[i], m)
			}
		}
		if n := zzSize(3); n < 3 {
			pp.TxcallerGroupMeter = hmap.NewLinkedMapDefault()
			for i := 0; i < n; i++ {
				m := new(TxMeter)
				zzTxMeterInto(m)
				pp.TxcallerGroupMeter.Put(lang.NewPKIND(zzPCodes[i], zzOKinds[i]), m)
			}
		}
	case "Netstat":
		zzHookBegin(4)
		pp.Netstat = &NETSTAT{Est: zzI32(), FinW: zzI32(), TimW: zzI32(), CloW: zzI32()}
	case "Websocket":
		zzHookBegin(3)
		pp.Websocket = &WEBSOCKET{Count: zzI32(), In: zzI64(), Out: zzI64()}
	case "DbNum":
		zzHookBegin(4)
		n := zzSize(2)
		pp.DbNumActive = hmap.NewIntIntMap(7, 1)
		pp.DbNumIdle = hmap.NewIntIntMap(7, 1)
		for i := 0; i < n; i++ {
			pp.DbNumActive.Put(zzIKeys[i], zzI32())
			pp.DbNumIdle.Put(zzIKeys[i], zzI32())
		}
	case "Extra":
		zzHookBegin(0)
		pp.Extra = zzIntMapValue(zzSize(2), 0)
	case "POidMeter":
		zzHookBegin(8)
		n := zzSize(2)
		pp.TxcallerPOidMeter = hmap.NewLinkedMapDefault()
		for i := 0; i < n; i++ {
			m := new(TxMeter)
			zzTxMeterInto(m)
			pp.TxcallerPOidMeter.Put(lang.NewPOID(zzPCodes[i], zzOKinds[i]), m)
		}
	}
}

func zzExtraCounterPack1(p Pack) { zzCounter(p, "") }

func zzCounterSection(section string, nofill bool) {
	// thorough: the sections that are read at the right offsets also rotate the Fill focus
	zzPackRoundTripO("CounterPack1+"+section, func() Pack { return NewCounterPack1() }, true,
		func(p Pack) { zzCounter(p, section) }, &zzOpts{norotate: nofill || !zzvf.Thorough(), nofill: nofill})
}

//vf: paths=20000 t.paths=200000
func ZZ_C03_CounterPack1_Netstat() { zzCounterSection("Netstat", false) }

//vf: paths=20000 t.paths=200000
func ZZ_C03_CounterPack1_Websocket() { zzCounterSection("Websocket", false) }

//vf: paths=600 deadline=45s t.paths=20000 t.deadline=4m
func ZZ_C03_CounterPack1_DbNum() { zzCounterSection("DbNum", true) }

//vf: paths=600 deadline=45s t.paths=20000 t.deadline=4m
func ZZ_C03_CounterPack1_Extra() { zzCounterSection("Extra", true) }

//vf: paths=600 deadline=45s t.paths=20000 t.deadline=4m
func ZZ_C03_CounterPack1_POidMeter() { zzCounterSection("POidMeter", true) }


// ---------------------------------------------------------------- StatGeneralPack

// StatGeneralPack keeps its table either decoded (data) or encoded (dataBytes with the
// redundant length dataBytesSize): Write encodes data into dataBytes when dataBytes is
// empty, Read stores only dataBytes and the accessors decode lazily. packType selects the
// layout (PACK_STAT_GENERAL without, any other type with DataStartTime) and is the type tag
// ReadPack dispatches on, so it is pinned, not symbolic. The harness builds the table
// through Put (dataBytes empty, as after the constructor) and compares the scalar members
// field by field and the table through GetDataTable()/the list accessors.
var zzSGKeys []string
var zzSGLists []list.AnyList

func zzAnyList(kind int, n int) list.AnyList {
	switch kind % 5 {
	case 0:
		l := list.NewIntListDefault()
		for i := 0; i < n; i++ {
			l.AddInt(int(zzI64()))
		}
		return l
	case 1:
		l := list.NewLongListDefault()
		for i := 0; i < n; i++ {
			l.AddLong(zzI64())
		}
		return l
	case 2:
		l := list.NewFloatListDefault()
		for i := 0; i < n; i++ {
			l.AddFloat(zzvf.Float32())
		}
		return l
	case 3:
		l := list.NewDoubleListDefault()
		for i := 0; i < n; i++ {
			l.AddDouble(zzvf.Float64())
		}
		return l
	}
	l := list.NewStringListDefault()
	for i := 0; i < n; i++ {
		l.AddString(zzvf.String(1))
	}
	return l
}

func zzStatGeneral(p Pack, t int16) {
	pp := p.(*StatGeneralPack)
	zzHookBegin(4)
	pp.packType = t
	pp.dataBytes, pp.dataBytesSize = nil, 0
	zzSGKeys, zzSGLists = nil, nil
	n := zzSize(2)
	k0 := zzvf.Choose(5)
	for i := 0; i < n; i++ {
		l := zzAnyList(k0+i, zzSize(2))
		pp.Put(zzSKeys[i], l)
		zzSGKeys = append(zzSGKeys, zzSKeys[i])
		zzSGLists = append(zzSGLists, l)
	}
}

func zzExtraStatGeneralPack(p Pack) { zzStatGeneral(p, PACK_STAT_GENERAL) }

func zzSameList(a, b list.AnyList, label string) {
	zzvf.Assert(a.GetType() == b.GetType(), label+"/list-type")
	zzvf.Assert(a.Size() == b.Size(), label+"/list-size")
	if a.GetType() != b.GetType() || a.Size() != b.Size() {
		return
	}
	ok := true
	for i := 0; i < a.Size(); i++ {
		switch a.GetType() {
		case list.ANYLIST_INT:
			ok = zzvf.And(ok, a.GetInt(i) == b.GetInt(i))
		case list.ANYLIST_LONG:
			ok = zzvf.And(ok, a.GetLong(i) == b.GetLong(i))
		case list.ANYLIST_FLOAT:
			ok = zzvf.And(ok, zzvf.Same(a.GetFloat(i), b.GetFloat(i)))
		case list.ANYLIST_DOUBLE:
			ok = zzvf.And(ok, zzvf.Same(a.GetDouble(i), b.GetDouble(i)))
		default:
			ok = zzvf.And(ok, zzvf.Same(a.GetString(i), b.GetString(i)))
		}
	}
	zzvf.Assert(ok, label+"/list-items")
}

func zzOptStatGeneralPack() *zzOpts {
	return &zzOpts{compare: func(b []byte, p, q Pack, name string) {
		pe := p.(*StatGeneralPack)
		qe, ok := q.(*StatGeneralPack)
		zzvf.Assert(ok, name+"/same-dynamic-type")
		if !ok {
			return
		}
		pa, qa := *pe, *qe
		pa.data, qa.data = nil, nil
		zzvf.AssertCarried(b, &pa, &qa, name)
		// table through the accessors (decodes lazily; the generic re-encoding that follows
		// therefore goes through writeTable again)
		var t *hmap.StringKeyLinkedMap
		if zzvf.Panics(func() { t = qe.GetDataTable() }) {
			zzvf.Assert(false, name+"/table/accessor-panics-on-decoded-pack")
			return
		}
		zzvf.Assert(t.Size() == len(zzSGKeys), name+"/table/size")
		ks := t.KeyArray()
		for i, k := range zzSGKeys {
			zzvf.Assert(i < len(ks) && ks[i] == k, name+"/table/order")
			if l, isList := t.Get(k).(list.AnyList); isList {
				zzSameList(zzSGLists[i], l, name+"/table")
			} else {
				zzvf.Assert(false, name+"/table/entry-type")
			}
		}
	}, mkEmpty: func(p Pack) Pack { return NewStatGeneralPackType(p.GetPackType()) }}
}

// the second layout (with DataStartTime); not in the factory: write/read pair
//vf: paths=60000
func ZZ_C03_StatGeneralPack_Type1() {
	zzPackRoundTripO("StatGeneralPack+type1", func() Pack { return NewStatGeneralPack() }, false,
		func(p Pack) { zzStatGeneral(p, PACK_STAT_GENERAL_1) }, zzOptStatGeneralPack())
}

// the second layout through the type-tagged route (ToBytesPack / ReadPack)
//vf: paths=2000
func ZZ_C03_StatGeneralPack_Type1Tagged() {
	o := zzOptStatGeneralPack()
	o.norotate = true
	zzPackRoundTripO("StatGeneralPack+type1-tagged", func() Pack { return NewStatGeneralPack() }, true,
		func(p Pack) { zzStatGeneral(p, PACK_STAT_GENERAL_1) }, o)
}


// ---------------------------------------------------------------- record lists

// Record-list packs carry their records as a blob built by SetRecords*; the records are
// compared through GetRecords (or the pack's record reader) after a round trip of the
// CONTAINER, field by field (AssertCarried on each record: fields the record writer does
// not emit — e.g. TransactionRec.Profiled — are skipped automatically), in order.
// 0..2 records. The shapes (record count, setter form, record version, sizes of the
// per-record tables) are enumerated with all scalars in the small class; one designated
// shape (zzShape0) additionally rotates the focus over the fields of its first record.

type zzEnum struct {
	items []interface{}
	i     int
}

func (e *zzEnum) HasMoreElements() bool { return e.i < len(e.items) }
func (e *zzEnum) NextElement() interface{} {
	v := e.items[e.i]
	e.i++
	return v
}

func zzFillRecs(n int, rotate bool, mk func() interface{}, after func(interface{})) []interface{} {
	var recs []interface{}
	for i := 0; i < n; i++ {
		r := mk()
		if i == 0 && (rotate || zzvf.Thorough()) { // thorough: every shape rotates its first record
			f := zzvf.Choose(zzvf.FillCount(r)+1) - 1
			zzvf.Fill(r, f, zzvf.Choose(2))
		} else {
			zzvf.Fill(r, -1, 1)
		}
		if after != nil {
			after(r)
		}
		recs = append(recs, r)
	}
	return recs
}

// zzContainer: a container pack with symbolic identity fields in one of the header forms
func zzContainer(p Pack) {
	zzFocus = 0 // collections of nested packs stay in the small class
	zzvf.Fill(p, -1, 0)
	if zzvf.Choose(2) == 0 {
		p.SetOKIND(0)
		p.SetONODE(0)
	}
}

// zzTrip: encode and decode the container
func zzTrip(name string, p Pack, registered bool, mkq func() Pack) ([]byte, Pack) {
	var b []byte
	var q Pack
	var in *io.DataInputX
	if registered {
		b = ToBytesPack(p)
		in = io.NewDataInputX(b)
		q = ReadPack(in)
	} else {
		out := io.NewDataOutputX()
		p.Write(out)
		b = out.ToByteArray()
		in = io.NewDataInputX(b)
		q = mkq()
		q.Read(in)
	}
	zzvf.Assert(in.Available() == 0, name+"/consumed-exactly")
	return b, q
}

func zzSameRecs(b []byte, want []interface{}, got []interface{}, name string) {
	zzvf.Assert(len(got) == len(want), name+"/record-count")
	for i := range want {
		if i < len(got) {
			zzvf.AssertCarried(b, want[i], got[i], name+"/record")
		}
	}
	zzvf.Reach(name)
}

// TimeCount maps of the transaction / service records (built like the readers build them)
func zzTimeCountMap(n int) *hmap.IntKeyMap {
	if n == 0 {
		return nil
	}
	m := hmap.NewIntKeyMap(n, 1)
	for i := 0; i < n; i++ {
		m.Put(zzIKeys[i], NewTimeCount(zzSmallI32(), zzSmallI32(), zzSmallI64()))
	}
	return m
}

//vf: paths=60000 t.paths=600000 t.deadline=15m
func ZZ_C03_StatTransactionPack_Records() {
	name := "StatTransactionPack.Records"
	p := NewStatTransactionPack()
	zzContainer(p)
	ver0 := p.Version // the constructor's record version
	p.Version = []byte{2, 3, 4}[zzvf.Choose(3)]
	mn, n, form := zzvf.Choose(3), zzvf.Choose(3), zzvf.Choose(2)
	rot := p.Version == ver0 && mn == 1 && n == 1 && form == 0
	recs := zzFillRecs(n, rot, func() interface{} { return NewTransactionRec() }, func(r interface{}) {
		t := r.(*TransactionRec)
		t.SqlMap, t.HttpcMap = zzTimeCountMap(mn), zzTimeCountMap((mn+1)%3)
	})
	if form == 0 {
		p.SetRecords(len(recs), &zzEnum{items: recs})
	} else {
		l := stdlist.New()
		for _, r := range recs {
			l.PushBack(r)
		}
		p.SetRecordsList(l)
	}
	b, q := zzTrip(name, p, false, func() Pack { return NewStatTransactionPack() })
	var got []interface{}
	if l := q.(*StatTransactionPack).GetRecords(); l != nil {
		for e := l.Front(); e != nil; e = e.Next() {
			got = append(got, e.Value)
		}
	}
	zzvf.Assert(int(q.(*StatTransactionPack).RecordCount) == len(recs), name+"/RecordCount")
	zzSameRecs(b, recs, got, name)
}

//vf: paths=60000 t.paths=600000 t.deadline=15m
func ZZ_C03_StatTransactionPack1_Records() {
	name := "StatTransactionPack1.Records"
	p := NewStatTransactionPack1()
	zzContainer(p)
	ver0 := p.Version // the constructor's record version
	p.Version = []byte{2, 3, 4}[zzvf.Choose(3)]
	mn, n, form := zzvf.Choose(3), zzvf.Choose(3), zzvf.Choose(2)
	rot := p.Version == ver0 && mn == 1 && n == 1 && form == 0
	recs := zzFillRecs(n, rot, func() interface{} { return NewTransactionRec() }, func(r interface{}) {
		t := r.(*TransactionRec)
		t.SqlMap, t.HttpcMap = zzTimeCountMap(mn), zzTimeCountMap((mn+1)%3)
	})
	if form == 0 {
		p.SetRecords(len(recs), &zzEnum{items: recs})
	} else {
		l := stdlist.New()
		for _, r := range recs {
			l.PushBack(r)
		}
		p.SetRecordsList(l)
	}
	b, q := zzTrip(name, p, false, func() Pack { return NewStatTransactionPack1() })
	var got []interface{}
	if l := q.(*StatTransactionPack1).GetRecords(); l != nil {
		for e := l.Front(); e != nil; e = e.Next() {
			got = append(got, e.Value)
		}
	}
	zzvf.Assert(int(q.(*StatTransactionPack1).RecordCount) == len(recs), name+"/RecordCount")
	zzSameRecs(b, recs, got, name)
}

//vf: paths=60000 t.paths=600000 t.deadline=15m
func ZZ_C03_StatServicePack_Records() {
	name := "StatServicePack.Records"
	p := NewStatServicePack()
	zzContainer(p)
	mn, n := zzvf.Choose(3), zzvf.Choose(3)
	recs := zzFillRecs(n, mn == 1 && n == 1, func() interface{} { return NewServiceRec() }, func(r interface{}) {
		t := r.(*ServiceRec)
		t.SqlMap, t.HttpcMap = zzTimeCountMap(mn), zzTimeCountMap((mn+1)%3)
	})
	p.SetRecords(len(recs), &zzEnum{items: recs})
	b, q := zzTrip(name, p, true, nil)
	qq := q.(*StatServicePack)
	// the pack offers no GetRecords; the record reader is the package function ReadRec
	var got []interface{}
	in := io.NewDataInputX(qq.Records)
	sz := int(in.ReadShort()) & 0xffff
	for i := 0; i < sz; i++ {
		got = append(got, ReadRec(in))
	}
	zzvf.Assert(in.Available() == 0, name+"/records-consumed-exactly")
	zzvf.Assert(qq.RecordCount == len(recs), name+"/RecordCount")
	zzSameRecs(b, recs, got, name)
}

//vf: paths=60000 t.paths=600000 t.deadline=15m
func ZZ_C03_StatSqlPack_Records() {
	name := "StatSqlPack.Records"
	p := NewStatSqlPack()
	zzContainer(p)
	n, form := zzvf.Choose(3), zzvf.Choose(2)
	recs := zzFillRecs(n, n == 1 && form == 0, func() interface{} { return NewSqlRec() }, nil)
	if form == 0 {
		p.SetRecords(len(recs), &zzEnum{items: recs})
	} else {
		l := stdlist.New()
		for _, r := range recs {
			l.PushBack(r)
		}
		p.SetRecordsList(l)
	}
	b, q := zzTrip(name, p, true, nil)
	var got []interface{}
	l := q.(*StatSqlPack).GetRecords()
	for e := l.Front(); e != nil; e = e.Next() {
		got = append(got, e.Value)
	}
	zzvf.Assert(int(q.(*StatSqlPack).RecordCount) == len(recs), name+"/RecordCount")
	zzSameRecs(b, recs, got, name)
}

//vf: paths=60000 t.paths=600000 t.deadline=15m
func ZZ_C03_StatHttpcPack_Records() {
	name := "StatHttpcPack.Records"
	p := NewStatHttpcPack()
	zzContainer(p)
	n, form := zzvf.Choose(3), zzvf.Choose(2)
	recs := zzFillRecs(n, n == 1 && form == 0, func() interface{} { return NewHttpcRec() }, nil)
	if form == 0 {
		p.SetRecords(len(recs), &zzEnum{items: recs})
	} else {
		l := stdlist.New()
		for _, r := range recs {
			l.PushBack(r)
		}
		p.SetRecordsList(l)
	}
	b, q := zzTrip(name, p, true, nil)
	var got []interface{}
	l := q.(*StatHttpcPack).GetRecords()
	for e := l.Front(); e != nil; e = e.Next() {
		got = append(got, e.Value)
	}
	zzvf.Assert(int(q.(*StatHttpcPack).RecordCount) == len(recs), name+"/RecordCount")
	zzSameRecs(b, recs, got, name)
}

//vf: paths=60000 t.paths=600000 t.deadline=15m
func ZZ_C03_StatErrorPack_Records() {
	name := "StatErrorPack.Records"
	p := NewStatErrorPack()
	zzContainer(p)
	n := zzvf.Choose(3)
	recs := zzFillRecs(n, n == 1, func() interface{} { return NewErrorRec() }, nil)
	p.SetRecords(len(recs), &zzEnum{items: recs})
	b, q := zzTrip(name, p, true, nil)
	var got []interface{}
	for _, r := range q.(*StatErrorPack).GetRecords() {
		got = append(got, r)
	}
	zzvf.Assert(int(q.(*StatErrorPack).RecordCount) == len(recs), name+"/RecordCount")
	zzSameRecs(b, recs, got, name)
}

// the array form of the setter
//vf: paths=2000
func ZZ_C03_StatErrorPack_RecordsArray() {
	name := "StatErrorPack.SetRecordsArray"
	p := NewStatErrorPack()
	zzContainer(p)
	p.Records, p.RecordCount = nil, 0
	n := 1 + zzvf.Choose(2)
	var recs []interface{}
	var arr []*ErrorRec
	for i := 0; i < n; i++ {
		r := NewErrorRec()
		zzvf.Fill(r, -1, 0)
		recs = append(recs, r)
		arr = append(arr, r)
	}
	p.SetRecordsArray(arr)
	zzvf.Assert(int(p.RecordCount) == n, name+"/sets-RecordCount")
	zzvf.Assert(len(p.Records) > 0, name+"/sets-Records")
	b, q := zzTrip(name, p, true, nil)
	var got []interface{}
	if zzvf.Panics(func() {
		for _, r := range q.(*StatErrorPack).GetRecords() {
			got = append(got, r)
		}
	}) {
		zzvf.Assert(false, name+"/GetRecords-panics")
	}
	zzSameRecs(b, recs, got, name)
}

//vf: paths=60000 t.paths=600000 t.deadline=15m
func ZZ_C03_SMDownCheckPack_Records() {
	name := "SMDownCheckPack.Records"
	p := NewSMDownCheckPack()
	zzContainer(p)
	n := zzvf.Choose(3)
	recs := zzFillRecs(n, n == 1, func() interface{} { return new(DownCheckRec) }, nil)
	var arr []*DownCheckRec
	for _, r := range recs {
		arr = append(arr, r.(*DownCheckRec))
	}
	p.SetRecords(arr)
	b, q := zzTrip(name, p, false, func() Pack { return NewSMDownCheckPack() })
	var got []interface{}
	for _, r := range q.(*SMDownCheckPack).GetRecords() {
		got = append(got, r)
	}
	zzvf.Assert(int(q.(*SMDownCheckPack).RecordCount) == len(recs), name+"/RecordCount")
	zzSameRecs(b, recs, got, name)
}

// ---------------------------------------------------------------- container packs

// ZipPack: inner packs come back in order, unchanged except for the identity fields
// (project code, object id, kind, node) which are the container's.
//vf: paths=60000 t.paths=600000 t.deadline=15m
func ZZ_C03_ZipPack_Records() {
	name := "ZipPack.Records"
	p := NewZipPack()
	zzContainer(p)
	n := zzvf.Choose(3)
	k0 := zzvf.Choose(3)
	var items []Pack
	for i := 0; i < n; i++ {
		items = append(items, zzInner(k0+i))
	}
	p.SetRecords(items)
	b, q := zzTrip(name, p, true, nil)
	qq := q.(*ZipPack)
	zzvf.Assert(qq.RecordCount == n, name+"/RecordCount")
	got := qq.GetRecords()
	zzvf.Assert(len(got) == n, name+"/record-count")
	for i := 0; i < n && i < len(got); i++ {
		items[i].SetPCODE(p.Pcode)
		items[i].SetOID(p.Oid)
		items[i].SetOKIND(p.Okind)
		items[i].SetONODE(p.Onode)
		zzvf.AssertCarried(b, items[i], got[i], name+"/record")
		zzvf.Assert(zzvf.Same(items[i], got[i]), name+"/record/unchanged-and-stamped")
	}
	zzvf.Reach(name)
}

// LogSinkZipPack, uncompressed form (Status UN_ZIPPED; SetRecords below the zip threshold).
// The compressed form needs gzip (compressutil.DoZip/UnZip), which the executor cannot run.
//vf: paths=60000 t.paths=600000 t.deadline=15m
func ZZ_C03_LogSinkZipPack_Records() {
	name := "LogSinkZipPack.Records"
	p := NewLogSinkZipPack()
	zzContainer(p)
	p.Status = UN_ZIPPED
	n := zzvf.Choose(3)
	var items []*LogSinkPack
	o := io.NewDataOutputX()
	for i := 0; i < n; i++ {
		it := NewLogSinkPack()
		zzvf.Fill(it, -1, 0)
		zzFocus = 0
		zzExtraLogSinkPack(it)
		items = append(items, it)
		WritePack(o, it)
	}
	raw := o.ToByteArray()
	p.SetRecords(raw, len(raw)+1)
	p.RecordCount = n
	zzvf.Assert(p.Status == UN_ZIPPED, name+"/below-threshold-not-zipped")
	b, q := zzTrip(name, p, true, nil)
	qq := q.(*LogSinkZipPack)
	zzvf.Assert(qq.RecordCount == n, name+"/RecordCount")
	got := qq.GetRecords()
	zzvf.Assert(len(got) == n, name+"/record-count")
	for i := 0; i < n && i < len(got); i++ {
		items[i].Pcode, items[i].Oid, items[i].Okind, items[i].Onode = p.Pcode, p.Oid, p.Okind, p.Onode
		zzvf.AssertCarried(b, items[i], got[i], name+"/record")
		zzvf.Assert(zzvf.Same(items[i], got[i]), name+"/record/unchanged-and-stamped")
	}
	zzvf.Reach(name)
}
