//vf:dir lang/pack
//vf:use packcommon.go
package pack

// GENERATED: no-op extra hooks for packs without a hand-written one (see extras.go).

func zzOptParamPack() *zzOpts { return nil }
func zzOptCounterPack1() *zzOpts { return nil }
func zzOptProfilePack() *zzOpts { return nil }
func zzExtraActiveStackPack(p Pack) {}
func zzOptActiveStackPack() *zzOpts { return nil }
func zzExtraTextPack(p Pack) {}
func zzOptTextPack() *zzOpts { return nil }
func zzExtraErrorSnapPack1(p Pack) {}
func zzOptErrorSnapPack1() *zzOpts { return nil }
func zzExtraRealtimeUserPack(p Pack) {}
func zzOptRealtimeUserPack() *zzOpts { return nil }
func zzExtraStatServicePack(p Pack) {}
func zzOptStatServicePack() *zzOpts { return nil }
func zzExtraStatSqlPack(p Pack) {}
func zzOptStatSqlPack() *zzOpts { return nil }
func zzExtraStatHttpcPack(p Pack) {}
func zzOptStatHttpcPack() *zzOpts { return nil }
func zzExtraStatErrorPack(p Pack) {}
func zzOptStatErrorPack() *zzOpts { return nil }
func zzOptStatRemoteIpPack() *zzOpts { return nil }
func zzOptStatUserAgentPack() *zzOpts { return nil }
func zzOptHitMapPack1() *zzOpts { return nil }
func zzOptExtensionPack() *zzOpts { return nil }
func zzOptTagCountPack() *zzOpts { return nil }
func zzOptTagLogPack() *zzOpts { return nil }
func zzOptCompositePack() *zzOpts { return nil }
func zzOptLogSinkPack() *zzOpts { return nil }
func zzExtraZipPack(p Pack) {}
func zzOptZipPack() *zzOpts { return nil }
func zzExtraLogSinkZipPack(p Pack) {}
func zzOptLogSinkZipPack() *zzOpts { return nil }
func zzOptServerInfoPack() *zzOpts { return nil }
func zzExtraProfileStepSplitPack(p Pack) {}
func zzOptProfileStepSplitPack() *zzOpts { return nil }
func zzExtraStatTransactionPack(p Pack) {}
func zzOptStatTransactionPack() *zzOpts { return nil }
func zzExtraStatTransactionPack1(p Pack) {}
func zzOptStatTransactionPack1() *zzOpts { return nil }
func zzOptSMBasePack() *zzOpts { return nil }
func zzOptSMDiskPerfPack() *zzOpts { return nil }
func zzExtraSMDownCheckPack(p Pack) {}
func zzOptSMDownCheckPack() *zzOpts { return nil }
func zzOptSMExtension() *zzOpts { return nil }
func zzExtraSMLogEventPack(p Pack) {}
func zzOptSMNetPerfPack() *zzOpts { return nil }
func zzExtraSMPingPack(p Pack) {}
func zzOptSMPingPack() *zzOpts { return nil }
func zzExtraSMProcPerfPack(p Pack) {}
func zzOptSMProcPerfPack() *zzOpts { return nil }
func zzExtraSMTCPPerfPack(p Pack) {}
func zzOptSMTCPPerfPack() *zzOpts { return nil }
