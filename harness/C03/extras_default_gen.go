//vf:dir lang/pack
package pack

// GENERATED: no-op extra hooks for packs without a hand-written one (see extras.go).

func zzExtraParamPack(p Pack) {}
func zzExtraCounterPack1(p Pack) {}
func zzExtraProfilePack(p Pack) {}
func zzExtraActiveStackPack(p Pack) {}
func zzExtraTextPack(p Pack) {}
func zzExtraErrorSnapPack1(p Pack) {}
func zzExtraRealtimeUserPack(p Pack) {}
func zzExtraStatServicePack(p Pack) {}
func zzExtraStatGeneralPack(p Pack) {}
func zzExtraStatSqlPack(p Pack) {}
func zzExtraStatHttpcPack(p Pack) {}
func zzExtraStatErrorPack(p Pack) {}
func zzExtraStatRemoteIpPack(p Pack) {}
func zzExtraStatUserAgentPack(p Pack) {}
func zzExtraEventPack(p Pack) {}
func zzExtraHitMapPack1(p Pack) {}
func zzExtraExtensionPack(p Pack) {}
func zzExtraTagCountPack(p Pack) {}
func zzExtraTagLogPack(p Pack) {}
func zzExtraCompositePack(p Pack) {}
func zzExtraLogSinkPack(p Pack) {}
func zzExtraZipPack(p Pack) {}
func zzExtraLogSinkZipPack(p Pack) {}
func zzExtraServerInfoPack(p Pack) {}
func zzExtraProfileStepSplitPack(p Pack) {}
func zzExtraStatTransactionPack(p Pack) {}
func zzExtraStatTransactionPack1(p Pack) {}
func zzExtraSMBasePack(p Pack) {}
func zzExtraSMDiskPerfPack(p Pack) {}
func zzExtraSMDownCheckPack(p Pack) {}
func zzExtraSMExtension(p Pack) {}
func zzExtraSMLogEventPack(p Pack) {}
func zzExtraSMNetPerfPack(p Pack) {}
func zzExtraSMPingPack(p Pack) {}
func zzExtraSMProcPerfPack(p Pack) {}
func zzExtraSMTCPPerfPack(p Pack) {}
