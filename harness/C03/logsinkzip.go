//vf:dir lang/pack
//vf:stub github.com/whatap/golib/util/compressutil.DoZip ZipModel+
//vf:stub github.com/whatap/golib/util/compressutil.UnZip UnzipModel+
package pack

// C03 — the compressed form of LogSinkZipPack: SetRecords compresses a batch of log
// records at or above the minimum size (contract model of gzip: UnZip(DoZip(x)) == x, the
// compressed form is one byte longer than x — so "compressed is not smaller" is the
// normal case here), the pack travels through WritePack/ReadPack, and GetRecords must
// give back the inner packs with the envelope's identity. Minimum size: 0, exactly the
// batch length (boundary), one more (stays uncompressed). 1..2 records, symbolic fields.

import (
	"github.com/whatap/golib/io"
	"github.com/whatap/golib/zzvf"
)

//vf: paths=2000
func ZZ_C03_LogSinkZipRecords() {
	n := 1 + zzvf.Choose(2)
	inner := make([]*LogSinkPack, n)
	batch := io.NewDataOutputX()
	for i := range inner {
		p := NewLogSinkPack()
		p.Time = zzvf.Int64()
		p.Category = zzvf.String(1)
		p.TagHash = zzvf.Int64()
		p.Line = int64(zzvf.IntRange(1, 100))
		p.Content = zzvf.String(2)
		inner[i] = p
		WritePack(batch, p)
	}
	records := batch.ToByteArray()
	env := NewLogSinkZipPack()
	env.Pcode, env.Oid, env.Time = int64(zzvf.IntRange(1, 100)), zzvf.Int32(), zzvf.Int64()
	env.RecordCount = n
	min := []int{0, len(records), len(records) + 1}[zzvf.Choose(3)]
	env.SetRecords(records, min)
	wantZipped := len(records) >= min
	zzvf.Assert((env.Status == ZIPPED) == wantZipped, "LogSinkZipPack/compressed-iff-at-least-min-size")
	// before the wire
	got0 := env.GetRecords()
	zzvf.Assert(len(got0) == n, "LogSinkZipPack/records-readable-before-sending")
	// through the wire
	dec, ok := ToPack(ToBytesPack(env)).(*LogSinkZipPack)
	zzvf.Assert(ok, "LogSinkZipPack/decodes-to-same-type")
	if !ok {
		return
	}
	zzvf.Assert(dec.Status == env.Status && dec.RecordCount == n, "LogSinkZipPack/status-and-count-carried")
	got := dec.GetRecords()
	zzvf.Assert(len(got) == n, "LogSinkZipPack/all-inner-packs-returned")
	if len(got) == n {
		for i, g := range got {
			w := inner[i]
			same := zzvf.And(g.Time == w.Time, zzvf.And(g.Category == w.Category, zzvf.And(g.TagHash == w.TagHash, zzvf.And(g.Line == w.Line, g.Content == w.Content))))
			zzvf.Assert(same, "LogSinkZipPack/inner-pack-fields-restored")
			zzvf.Assert(zzvf.And(g.Pcode == env.Pcode, g.Oid == env.Oid), "LogSinkZipPack/inner-pack-takes-envelope-identity")
		}
	}
	zzvf.Observe("zipped", env.Status == ZIPPED)
	zzvf.Reach("LogSinkZipRecords")
}
