//vf:dir net/oneway
//vf:import net/oneway net github.com/whatap/golib/zzvf/znet both
//vf:stub github.com/whatap/golib/util/dateutil.SystemNow ClockNow
package oneway

// C06 — one-way TCP client. Environment (DESIGN.md §8): package "net" is replaced, in this
// package, by the in-memory connection model zzvf/znet (symbolic run and native replay
// alike): dial attempts succeed or are refused according to a plan, a connection delivers
// the written bytes in order up to its cut offset and starts failing writes at its error
// offset — both chosen by the solver; the clock is the virtual clock (epoch milliseconds,
// assumed >= 1.7e12 as on any real host). The singleton constructor's background goroutine
// is not started: direct sends, SendAndClear and process() are driven by the harness.

import (
	"time"

	"github.com/whatap/golib/lang/pack"
	wnet "github.com/whatap/golib/net"
	whash "github.com/whatap/golib/util/hash"
	"github.com/whatap/golib/zzvf"
	"github.com/whatap/golib/zzvf/znet"
)

func zz6BE(v uint64, n int) []byte {
	b := make([]byte, n)
	for i := 0; i < n; i++ {
		b[i] = byte(v >> uint(8*(n-1-i)))
	}
	return b
}

func zz6Cat(parts ...[]byte) []byte {
	var r []byte
	for _, p := range parts {
		r = append(r, p...)
	}
	return r
}

// zz6Pack: a text pack with symbolic members (project code 128..32767: the 2-byte class of
// the decimal encoding; all classes are C01/C05's subject) and its reference frame for the
// license in effect.
func zz6Pack(lic string) (pack.Pack, []byte) {
	p := pack.NewTextPack()
	p.Pcode, p.Oid, p.Time = int64(zzvf.IntRange(128, 32767)), zzvf.Int32(), zzvf.Int64()
	r := pack.TextRec{Div: zzvf.Byte(), Hash: zzvf.Int32(), Text: zzvf.String(1)}
	p.AddText(r)
	body := zz6Cat([]byte{2}, zz6BE(uint64(p.Pcode), 2), zz6BE(uint64(p.Oid), 4), zz6BE(uint64(p.Time), 8),
		[]byte{1, 1}, []byte{r.Div}, zz6BE(uint64(r.Hash), 4), []byte{1}, []byte(r.Text))
	payload := zz6Cat(zz6BE(0x0700, 2), body)
	frame := zz6Cat([]byte{10, 0}, zz6BE(uint64(p.Pcode), 8), zz6BE(uint64(whash.Hash64Str(lic)), 8), zz6BE(uint64(len(payload)), 4), payload)
	return p, frame
}

const zz6Lic = "client-license"

func zz6Client(useQueue bool, qsize int) *OneWayTcpClient {
	zzvf.ClockExact(1700000000000)
	opts := []OneWayTcpClientOption{WithLicense(zz6Lic), WithServers([]string{"a:6600", "b:6600"}), WithPcode(7), WithOid(9)}
	if useQueue {
		opts = append(opts, WithUseQueue(), WithQueueSize(int32(qsize)))
	}
	return newOneWayTcpClient(opts...)
}

// zz6Send sends one pack (with or without a per-send license) and returns the expected frame.
func zz6Send(c *OneWayTcpClient, flush bool, lc int) ([]byte, error) {
	lic := zz6Lic
	var opts []wnet.TcpClientOption
	if lc < 0 {
		lc = zzvf.Choose(3)
	}
	switch lc {
	case 1:
		lic = "other"
		opts = append(opts, wnet.WithLicense(lic))
	case 2:
		opts = append(opts, wnet.WithLicense(""), wnet.WithPriority(true)) // empty override = client default
	}
	p, frame := zz6Pack(lic)
	var err error
	if flush {
		err = c.SendFlush(p, true, opts...)
	} else {
		err = c.Send(p, opts...)
	}
	return frame, err
}

func zz6Same(a, b []byte) bool {
	if len(a) != len(b) {
		return false
	}
	return zzvf.Same(a, b)
}

// Healthy connection, direct sends from one goroutine: the collector receives exactly the
// frames of the accepted packs, in order, each with its pack's project code and the hash
// of the license in effect; one connection; no error.
//vf: paths=2000
func ZZ_C06_DirectHealthy() {
	znet.Reset()
	c := zz6Client(false, 0)
	var want []byte
	n := 3
	for i := 0; i < n; i++ {
		f, err := zz6Send(c, i == 1, -1)
		zzvf.Assert(err == nil, "direct/healthy-send-returns-no-error")
		want = append(want, f...)
	}
	zzvf.Assert(len(znet.Links) == 1, "direct/one-connection-for-all-sends")
	if len(znet.Links) >= 1 {
		zzvf.Assert(zz6Same(znet.Links[0].Rcvd, want), "direct/stream-is-the-frames-in-order")
	}
	zzvf.Assert(znet.Dials == 1, "direct/dialled-once")
	zzvf.Observe("rcvd", len(want))
	zzvf.Reach("direct-healthy")
}

// The license in effect is the client's CURRENT default unless the send overrides it: the
// default is changed between sends (exported field, also what ApplyConfig assigns).
//vf: paths=2000
func ZZ_C06_LicenseChange() {
	znet.Reset()
	c := zz6Client(false, 0)
	var want []byte
	lics := []string{zz6Lic, "renewed-license", ""}
	for i := 0; i < 4; i++ {
		if i == 2 {
			c.License = lics[1+zzvf.Choose(2)]
		}
		lic := c.License
		var opts []wnet.TcpClientOption
		if i == 1 || (i == 3 && zzvf.Choose(2) == 1) {
			lic = "other"
			opts = append(opts, wnet.WithLicense(lic))
		}
		p, frame := zz6Pack(lic)
		zzvf.Assert(c.Send(p, opts...) == nil, "license-change/send-ok")
		want = append(want, frame...)
	}
	zzvf.Assert(len(znet.Links) == 1, "license-change/one-connection")
	if len(znet.Links) == 1 {
		zzvf.Assert(zz6Same(znet.Links[0].Rcvd, want), "license-change/each-frame-carries-the-license-in-effect-for-that-send")
	}
	zzvf.Reach("license-change")
}

// Connection loss at an arbitrary byte offset (before, between, in the middle of frames),
// detectable at an arbitrary later offset, followed by 0..2 refused dials: every stream is
// a prefix of the frames sent on that connection, a send whose write failed reports an
// error, nothing is duplicated, and after the failures the client reconnects on a later
// send and the new stream starts at a frame boundary.
//vf: paths=60000 fan=400 t.paths=2000000 t.deadline=40m
func ZZ_C06_Faults() {
	znet.Reset()
	const flen = 48
	// quick: cut anywhere in the first two frames, detection 0 / 5 / 50 bytes later;
	// thorough: cut anywhere in the first three frames, detection 0..53 bytes later
	var cut, gap int
	if zzvf.Thorough() {
		cut, gap = zzvf.IntRange(0, 3*flen), zzvf.IntRange(0, flen+5)
	} else {
		cut, gap = zzvf.IntRange(0, 2*flen), []int{0, 5, 50}[zzvf.Choose(3)]
	}
	refusals := zzvf.Choose(3)
	plan := []znet.Link{{Cut: cut, ErrAt: cut + gap}}
	for i := 0; i < refusals; i++ {
		plan = append(plan, znet.Link{Refuse: true}, znet.Link{Refuse: true}) // both servers refuse
	}
	znet.Plan = plan
	c := zz6Client(false, 0)
	// sends: up to 4 (thorough 5) until the first failing one, one more that meets the
	// writer's sticky error and closes, one per refused round, then two good ones
	n := 7 + refusals
	if zzvf.Thorough() {
		n = 8 + refusals
	}
	frames := make([][]byte, n)
	errs := make([]error, n)
	link := make([]int, n) // connection in use when the send ended (-1 none)
	for i := 0; i < n; i++ {
		before := 0
		for _, l := range znet.Links {
			before += l.WriteErrs
		}
		frames[i], errs[i] = zz6Send(c, false, i%3)
		after := 0
		for _, l := range znet.Links {
			after += l.WriteErrs
		}
		if after > before {
			zzvf.Assert(errs[i] != nil, "faults/failed-write-is-reported-by-the-send")
		}
		link[i] = len(znet.Links) - 1
		zzvf.Assert(len(frames[i]) == flen, "faults/frame-length-as-planned")
	}
	zzvf.Assert(len(znet.Links) == 2, "faults/reconnected-exactly-once")
	if len(znet.Links) != 2 {
		return
	}
	// first connection: a prefix of the frames sent on it, in order
	var sent0 []byte
	k0 := 0
	for i := 0; i < n; i++ {
		if errs[i] == nil && link[i] == 0 {
			sent0 = append(sent0, frames[i]...)
			k0++
		} else {
			break
		}
	}
	r0 := znet.Links[0].Rcvd
	// (frames whose send failed may have been transferred partly: they follow sent0)
	var all0 []byte
	for i := 0; i < n && i <= k0; i++ {
		all0 = append(all0, frames[i]...)
	}
	ok0 := len(r0) <= len(all0)
	zzvf.Assert(ok0, "faults/first-connection-stream-not-longer-than-frames-sent")
	if ok0 {
		zzvf.Assert(zzvf.Same(r0, all0[:len(r0)]), "faults/first-connection-stream-is-a-prefix-of-the-frames-in-order")
	}
	// second connection: exactly the frames of the successful sends after the reconnect
	var want1 []byte
	for i := 0; i < n; i++ {
		if link[i] == 1 && errs[i] == nil {
			want1 = append(want1, frames[i]...)
		}
	}
	zzvf.Assert(zz6Same(znet.Links[1].Rcvd, want1), "faults/stream-after-reconnect-is-whole-frames-in-order")
	zzvf.Assert(errs[n-1] == nil && errs[n-2] == nil, "faults/sends-succeed-again-after-reconnect")
	zzvf.Assert(len(want1) >= 2*flen, "faults/frames-delivered-after-reconnect")
	zzvf.Observe("r0", len(r0))
	zzvf.Reach("faults")
}

// Two consecutive connection losses (thorough tier): the first connection is cut in its
// first frame or at/after a frame boundary, the second one likewise after the reconnect,
// each detected 0 / 5 / 50 bytes later; then a healthy connection. For EVERY connection the
// collector's stream is a prefix of the frames written to it in order; for the last one it
// is exactly the frames of the successful sends; a failed write is always reported.
//vf: tier=thorough paths=400000 fan=400 deadline=40m
func ZZ_C06_TwoLosses() {
	znet.Reset()
	const flen = 48
	cut1, gap1 := zzvf.IntRange(0, flen+4), []int{0, 5, 50}[zzvf.Choose(3)]
	cut2, gap2 := zzvf.IntRange(0, flen+4), []int{0, 5, 50}[zzvf.Choose(3)]
	znet.Plan = []znet.Link{{Cut: cut1, ErrAt: cut1 + gap1}, {Cut: cut2, ErrAt: cut2 + gap2}}
	c := zz6Client(false, 0)
	n := 12 // 4+1 sends at most to lose and close the first, 3+1 the second, 2 good ones, slack
	frames := make([][]byte, n)
	errs := make([]error, n)
	link := make([]int, n)
	for i := 0; i < n; i++ {
		before := 0
		for _, l := range znet.Links {
			before += l.WriteErrs
		}
		frames[i], errs[i] = zz6Send(c, false, i%3)
		after := 0
		for _, l := range znet.Links {
			after += l.WriteErrs
		}
		if after > before {
			zzvf.Assert(errs[i] != nil, "twolosses/failed-write-is-reported-by-the-send")
		}
		link[i] = len(znet.Links) - 1
	}
	zzvf.Assert(len(znet.Links) == 3, "twolosses/reconnected-after-each-loss")
	if len(znet.Links) != 3 {
		return
	}
	for k := 0; k < 3; k++ {
		var all, good []byte
		for i := 0; i < n; i++ {
			if link[i] == k {
				all = append(all, frames[i]...)
				if errs[i] == nil {
					good = append(good, frames[i]...)
				}
			}
		}
		r := znet.Links[k].Rcvd
		if k < 2 {
			ok := len(r) <= len(all)
			zzvf.Assert(ok, "twolosses/stream-not-longer-than-frames-written")
			if ok {
				zzvf.Assert(zzvf.Same(r, all[:len(r)]), "twolosses/every-stream-is-a-prefix-of-its-frames-in-order")
			}
		} else {
			zzvf.Assert(zz6Same(r, good), "twolosses/last-stream-is-whole-frames-of-successful-sends")
			zzvf.Assert(len(good) >= 2*flen, "twolosses/frames-delivered-after-second-reconnect")
		}
	}
	zzvf.Assert(errs[n-1] == nil && errs[n-2] == nil, "twolosses/sends-succeed-again")
	zzvf.Reach("twolosses")
}

// Queue mode: accepted packs are delivered in acceptance order by SendAndClear; a full
// queue refuses with an error and nothing of the refused pack is sent.
//vf: paths=20000
func ZZ_C06_QueueDrain() {
	znet.Reset()
	qsize := 1 + zzvf.Choose(3)
	c := zz6Client(true, qsize)
	var want []byte
	accepted := 0
	for i := 0; i < 4; i++ {
		f, err := zz6Send(c, false, (i+1)%3)
		if i < qsize {
			zzvf.Assert(err == nil, "queue/accepted-while-there-is-room")
		} else {
			zzvf.Assert(err != nil, "queue/full-queue-reports-an-error")
		}
		if err == nil {
			want = append(want, f...)
			accepted++
		}
	}
	zzvf.Assert(len(znet.Links) == 0 || len(znet.Links[0].Rcvd) == 0, "queue/nothing-sent-before-the-drain")
	err := c.SendAndClear()
	zzvf.Assert(err == nil, "queue/drain-on-healthy-connection-succeeds")
	zzvf.Assert(len(znet.Links) == 1, "queue/one-connection")
	if len(znet.Links) == 1 {
		zzvf.Assert(zz6Same(znet.Links[0].Rcvd, want), "queue/accepted-frames-delivered-in-order")
	}
	zzvf.Observe("accepted", accepted)
	zzvf.Reach("queue-drain")
}

// Queue mode drained by SendAndClear in rounds while the first connection is lost at an arbitrary
// byte offset of its first two frames (detected 0 / 5 / 50 bytes later): five rounds of three
// accepted packs (concrete, increasing project codes so that the collector's view can be indexed).
// Whatever is dropped around the loss, the whole frames the collector receives — over all
// connections, in arrival order — are reference frames of accepted packs in ACCEPTANCE ORDER without
// duplicates; after the reconnect only whole frames; the last round is delivered completely.
//vf: paths=20000 fan=400
func ZZ_C06_QueueFaults() {
	znet.Reset()
	const flen = 48
	cut := zzvf.IntRange(0, 2*flen)
	gap := []int{0, 5, 50}[zzvf.Choose(3)]
	znet.Plan = []znet.Link{{Cut: cut, ErrAt: cut + gap}}
	c := zz6Client(true, 20)
	var frames [][]byte
	var lastErr error
	for r := 0; r < 5; r++ {
		for i := 0; i < 3; i++ {
			p := pack.NewTextPack()
			p.Pcode, p.Oid, p.Time = int64(1000+len(frames)), zzvf.Int32(), zzvf.Int64()
			rec := pack.TextRec{Div: zzvf.Byte(), Hash: zzvf.Int32(), Text: zzvf.String(1)}
			p.AddText(rec)
			body := zz6Cat([]byte{2}, zz6BE(uint64(p.Pcode), 2), zz6BE(uint64(p.Oid), 4), zz6BE(uint64(p.Time), 8),
				[]byte{1, 1}, []byte{rec.Div}, zz6BE(uint64(rec.Hash), 4), []byte{1}, []byte(rec.Text))
			payload := zz6Cat(zz6BE(0x0700, 2), body)
			f := zz6Cat([]byte{10, 0}, zz6BE(uint64(p.Pcode), 8), zz6BE(uint64(whash.Hash64Str(zz6Lic)), 8), zz6BE(uint64(len(payload)), 4), payload)
			zzvf.Assert(len(f) == flen, "queue-faults/frame-length-as-planned")
			zzvf.Assert(c.Send(p) == nil, "queue-faults/accepted-while-there-is-room")
			frames = append(frames, f)
		}
		lastErr = c.SendAndClear()
	}
	zzvf.Assert(lastErr == nil, "queue-faults/drain-succeeds-again-after-the-reconnect")
	zzvf.Assert(len(znet.Links) == 2, "queue-faults/reconnected-exactly-once")
	next := 0
	inOrder, isRef, whole := true, true, true
	delivered := make([]bool, len(frames))
	for li, l := range znet.Links {
		r := l.Rcvd
		if li > 0 && len(r)%flen != 0 {
			whole = false
		}
		for off := 0; off+flen <= len(r); off += flen {
			idx := (int(r[off+8])<<8 | int(r[off+9])) - 1000 // project code, bytes 2..9 big-endian
			if idx < next || idx >= len(frames) {
				inOrder = false
				continue
			}
			isRef = zzvf.And(isRef, zzvf.Same(r[off:off+flen], frames[idx]))
			delivered[idx] = true
			next = idx + 1
		}
	}
	zzvf.Assert(inOrder, "queue-faults/frames-arrive-in-acceptance-order-without-duplicates")
	zzvf.Assert(isRef, "queue-faults/every-whole-frame-is-the-reference-frame-of-its-pack")
	zzvf.Assert(whole, "queue-faults/only-whole-frames-after-the-reconnect")
	n := len(frames)
	zzvf.Assert(delivered[n-1] && delivered[n-2] && delivered[n-3], "queue-faults/last-round-delivered-completely")
	zzvf.Reach("queue-faults")
}

// zz6Order: the collector's view over all connections, in arrival order — whole frames are reference
// frames of accepted packs (indexed by their concrete project code 1000+i) in acceptance order without
// duplicates; after the first connection only whole frames; returns which frames were delivered.
func zz6Order(what string, frames [][]byte, flen int) []bool {
	next := 0
	inOrder, isRef, whole := true, true, true
	delivered := make([]bool, len(frames))
	for li, l := range znet.Links {
		r := l.Rcvd
		if li > 0 && len(r)%flen != 0 {
			whole = false
		}
		for off := 0; off+flen <= len(r); off += flen {
			idx := (int(r[off+8])<<8 | int(r[off+9])) - 1000
			if idx < next || idx >= len(frames) {
				inOrder = false
				continue
			}
			isRef = zzvf.And(isRef, zzvf.Same(r[off:off+flen], frames[idx]))
			delivered[idx] = true
			next = idx + 1
		}
	}
	zzvf.Assert(inOrder, what+"/frames-arrive-in-acceptance-order-without-duplicates")
	zzvf.Assert(isRef, what+"/every-whole-frame-is-the-reference-frame-of-its-pack")
	zzvf.Assert(whole, what+"/only-whole-frames-after-the-reconnect")
	return delivered
}

// The REAL background loop process() draining the queue while the first connection is lost at an
// arbitrary byte offset of the first two frames (detected 0 / 5 / 50 bytes later): six accepted packs
// (every second one asks for a flush), the loop runs until the queue is empty and is then cancelled.
// Same oracle as QueueFaults; the packs queued behind the loss are delivered after the reconnect.
//vf: paths=20000 fan=400
func ZZ_C06_QueueProcessFaults() {
	znet.Reset()
	const flen = 48
	cut := zzvf.IntRange(0, 2*flen)
	gap := []int{0, 5, 50}[zzvf.Choose(3)]
	znet.Plan = []znet.Link{{Cut: cut, ErrAt: cut + gap}}
	c := zz6Client(true, 20)
	var frames [][]byte
	for i := 0; i < 6; i++ {
		p := pack.NewTextPack()
		p.Pcode, p.Oid, p.Time = int64(1000+i), zzvf.Int32(), zzvf.Int64()
		rec := pack.TextRec{Div: zzvf.Byte(), Hash: zzvf.Int32(), Text: zzvf.String(1)}
		p.AddText(rec)
		body := zz6Cat([]byte{2}, zz6BE(uint64(p.Pcode), 2), zz6BE(uint64(p.Oid), 4), zz6BE(uint64(p.Time), 8),
			[]byte{1, 1}, []byte{rec.Div}, zz6BE(uint64(rec.Hash), 4), []byte{1}, []byte(rec.Text))
		payload := zz6Cat(zz6BE(0x0700, 2), body)
		f := zz6Cat([]byte{10, 0}, zz6BE(uint64(p.Pcode), 8), zz6BE(uint64(whash.Hash64Str(zz6Lic)), 8), zz6BE(uint64(len(payload)), 4), payload)
		zzvf.Assert(len(f) == flen, "process-faults/frame-length-as-planned")
		zzvf.Assert(c.SendFlush(p, i%2 == 1) == nil, "process-faults/accepted-while-there-is-room")
		frames = append(frames, f)
	}
	zzvf.OnWait(1, func() { c.cancel() })
	c.process()
	zzvf.Assert(c.Queue.Size() == 0, "process-faults/queue-drained")
	delivered := zz6Order("process-faults", frames, flen)
	zzvf.Assert(delivered[5] && delivered[4], "process-faults/packs-queued-behind-the-loss-are-delivered-after-the-reconnect")
	zzvf.Assert(len(znet.Links) == 2, "process-faults/reconnected-exactly-once")
	zzvf.Reach("process-faults")
}

// A healthy connection stays usable across idle periods longer than the write timeout
// (60 s): the write deadline is renewed for every write. Connection opened by the
// constructor's Connect or by the first send; idle 0 / 61 s / 10 min between sends.
//vf: paths=2000
func ZZ_C06_IdleLongerThanTimeout() {
	znet.Reset()
	c := zz6Client(false, 0)
	if zzvf.Choose(2) == 0 {
		c.Connect()
	}
	var want []byte
	for i := 0; i < 3; i++ {
		f, err := zz6Send(c, false, 0)
		zzvf.Assert(err == nil, "idle/send-on-healthy-connection-succeeds")
		want = append(want, f...)
		znet.Advance([]time.Duration{0, 61 * time.Second, 10 * time.Minute}[zzvf.Choose(3)])
	}
	zzvf.Assert(len(znet.Links) == 1, "idle/no-needless-reconnect")
	if len(znet.Links) == 1 {
		zzvf.Assert(zz6Same(znet.Links[0].Rcvd, want), "idle/all-frames-delivered-in-order")
	}
	zzvf.Reach("idle")
}

// A frame larger than the client's 2 MiB write buffer between two small ones, drained from
// the queue by SendAndClear (which buffers every queued frame and flushes once): whole
// frames, in acceptance order.
//vf: paths=200 steps=400000000 visits=20000000
func ZZ_C06_QueueLargeFrame() {
	znet.Reset()
	c := zz6Client(true, 10)
	big := make([]byte, 2*1024*1024+17)
	for i := range big {
		big[i] = byte('a' + i%7)
	}
	var want []byte
	for i := 0; i < 3; i++ {
		var p pack.Pack
		var frame []byte
		if i == 1 {
			tp := pack.NewTextPack()
			tp.Pcode, tp.Oid, tp.Time = 300, 5, 7
			tp.AddText(pack.TextRec{Div: 1, Hash: 2, Text: string(big)})
			body := zz6Cat([]byte{2}, zz6BE(300, 2), zz6BE(5, 4), zz6BE(7, 8), []byte{1, 1}, []byte{1}, zz6BE(2, 4), []byte{254}, zz6BE(uint64(len(big)), 4), big)
			payload := zz6Cat(zz6BE(0x0700, 2), body)
			frame = zz6Cat([]byte{10, 0}, zz6BE(300, 8), zz6BE(uint64(whash.Hash64Str(zz6Lic)), 8), zz6BE(uint64(len(payload)), 4), payload)
			p = tp
		} else {
			p, frame = zz6Pack(zz6Lic)
		}
		zzvf.Assert(c.Send(p) == nil, "largeframe/accepted")
		want = append(want, frame...)
	}
	zzvf.Assert(c.SendAndClear() == nil, "largeframe/drain-succeeds")
	ok := len(znet.Links) == 1 && len(znet.Links[0].Rcvd) == len(want)
	zzvf.Assert(ok, "largeframe/one-connection-all-bytes")
	if ok {
		r := znet.Links[0].Rcvd
		// compare the two small frames and the boundaries of the large one exactly
		zzvf.Assert(zzvf.Same(r[:48+64], want[:48+64]), "largeframe/first-frame-then-start-of-large-frame")
		zzvf.Assert(zzvf.Same(r[len(r)-48-64:], want[len(want)-48-64:]), "largeframe/end-of-large-frame-then-last-frame")
	}
	zzvf.Reach("queue-large-frame")
}

// Direct mode, connection lost in the MIDDLE of a frame larger than the 2 MiB write buffer (the
// buffered writer hands such a frame straight to the socket, so the failure surfaces in the write
// itself, not in the flush): the failed send reports an error, the client reconnects on a later
// send, and what arrives on the new connection is exactly the whole frames sent after it.
//vf: paths=200 steps=400000000 visits=20000000
func ZZ_C06_DirectLargeFrameLoss() {
	znet.Reset()
	cut := 48 + []int{0, 30, 100000, 2*1024*1024 + 50}[zzvf.Choose(4)]
	znet.Plan = []znet.Link{{Cut: cut, ErrAt: cut}}
	c := zz6Client(false, 0)
	big := make([]byte, 2*1024*1024+17)
	for i := range big {
		big[i] = byte('a' + i%7)
	}
	f0, err := zz6Send(c, false, 1)
	zzvf.Assert(err == nil, "direct-large-loss/first-small-frame-sent")
	tp := pack.NewTextPack()
	tp.Pcode, tp.Oid, tp.Time = 300, 5, 7
	tp.AddText(pack.TextRec{Div: 1, Hash: 2, Text: string(big)})
	zzvf.Assert(c.Send(tp) != nil, "direct-large-loss/failed-write-is-reported-by-the-send")
	var want1 []byte
	sentOK := 0
	for i := 0; i < 4; i++ {
		f, e := zz6Send(c, false, i%3)
		if e == nil {
			want1 = append(want1, f...)
			sentOK++
		}
	}
	zzvf.Assert(sentOK >= 2, "direct-large-loss/later-sends-succeed-again")
	zzvf.Assert(len(znet.Links) == 2, "direct-large-loss/reconnected-exactly-once")
	if len(znet.Links) == 2 {
		r0 := znet.Links[0].Rcvd
		zzvf.Assert(len(r0) == cut && zzvf.Same(r0[:48], f0), "direct-large-loss/first-connection-holds-the-first-frame-and-a-prefix-of-the-large-one")
		zzvf.Assert(zz6Same(znet.Links[1].Rcvd, want1), "direct-large-loss/new-connection-carries-exactly-the-whole-frames-sent-after-reconnecting")
	}
	zzvf.Reach("direct-large-frame-loss")
}

// Queue mode through the real background loop process(): two accepted packs, then the
// loop is cancelled while it waits on the empty queue.
//vf: paths=2000
func ZZ_C06_QueueProcess() {
	znet.Reset()
	c := zz6Client(true, 10)
	var want []byte
	for i := 0; i < 2; i++ {
		f, err := zz6Send(c, i == 0, i+1)
		zzvf.Assert(err == nil, "process/accepted")
		want = append(want, f...)
	}
	zzvf.OnWait(1, func() { c.cancel() })
	c.process()
	zzvf.Assert(len(znet.Links) == 1, "process/one-connection")
	if len(znet.Links) == 1 {
		zzvf.Assert(zz6Same(znet.Links[0].Rcvd, want), "process/accepted-frames-delivered-in-order")
	}
	zzvf.Reach("queue-process")
}

func zz6PackOnly() *pack.TextPack {
	p, _ := zz6Pack(zz6Lic)
	return p.(*pack.TextPack)
}
