//vf:dir net/oneway
//vf:race
//vf:import net/oneway net github.com/whatap/golib/zzvf/znet both
//vf:stub github.com/whatap/golib/util/dateutil.SystemNow ClockNow
package oneway

// C06 — frames are not split or interleaved when sends come from many goroutines or
// through the queue: lock discipline. The executor records, for both operations of a
// pair, every access to pre-existing memory with the locks held; a common cell with a
// write and no common lock is a data race on the connection / buffered writer, i.e. two
// goroutines can be inside the writer at once. Natively the pair runs on two goroutines
// under the race detector (connection model: znet).

import (
	"github.com/whatap/golib/zzvf"
	"github.com/whatap/golib/zzvf/znet"
)

//vf: paths=200
func ZZ_C06_SendLockDiscipline() {
	znet.Reset()
	pair := zzvf.Choose(6)
	useQueue := pair >= 3
	c := zz6Client(useQueue, 10)
	if zzvf.Choose(2) == 0 {
		c.Connect() // connection already up / still down (the senders dial)
	}
	direct := func() { zz6Send(c, false, 0) }
	switch pair {
	case 0:
		zzvf.RacePair("race/OneWayTcpClient/Send-direct|Send-direct", direct, direct)
	case 1:
		zzvf.RacePair("race/OneWayTcpClient/Send-direct|SendAndClear", direct, func() { c.SendAndClear() })
	case 2:
		// the background loop runs in direct mode too (it only keeps the connection up)
		zzvf.RaceRounds = 2
		zzvf.OnWait(1, func() { c.cancel() })
		zzvf.RacePair("race/OneWayTcpClient/Send-direct|background-loop", direct, func() { c.process() })
	case 3:
		zzvf.RacePair("race/OneWayTcpClient/Send-queued|Send-queued", direct, direct)
	case 4:
		c.Send(zz6PackOnly())
		zzvf.RaceRounds = 2
		zzvf.OnWait(1, func() { c.cancel() })
		zzvf.RacePair("race/OneWayTcpClient/Send-queued|background-loop", direct, func() { c.process() })
	case 5:
		c.Send(zz6PackOnly())
		zzvf.RaceRounds = 2
		zzvf.OnWait(1, func() { c.cancel() })
		zzvf.RacePair("race/OneWayTcpClient/SendAndClear|background-loop", func() { c.SendAndClear() }, func() { c.process() })
	}
	zzvf.Reach("send-lock-discipline")
}
