package main

import "fmt"

func cmdSelftest(args []string) int {
	fmt.Println("selftest: see harness/SELF (run via ./check SELF)")
	return 0
}
