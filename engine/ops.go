package main

import (
	"fmt"
	"go/token"
	"go/types"
	"unicode/utf8"

	"golang.org/x/tools/go/ssa"
)

func (ex *Exec) unop(fr *Frame, x *ssa.UnOp) Value {
	v := ex.get(fr, x.X)
	switch x.Op {
	case token.MUL: // load
		return ex.load(v.(Ptr))
	case token.NOT:
		return ex.tc.Not(v.(*Term))
	case token.SUB:
		t := v.(*Term)
		_, _, fl := typeWidth(x.X.Type())
		if fl {
			return ex.tc.FNeg(t)
		}
		return ex.tc.Un(ONeg, t)
	case token.XOR:
		return ex.tc.Un(OBNot, v.(*Term))
	case token.ARROW:
		ch, _ := v.(*ChanV)
		var elem types.Type
		if ct, ok := x.X.Type().Underlying().(*types.Chan); ok {
			elem = ct.Elem()
		}
		r, ok := ex.chanRecv(ch, elem)
		if r == nil {
			r = ex.zero(elem)
		}
		if x.CommaOk {
			return TupleV{r, ex.tc.Bool(ok)}
		}
		return r
	}
	ex.unsupported("unop %v", x.Op)
	return nil
}

func (ex *Exec) binop(op token.Token, t types.Type, a, b Value, tb types.Type) Value {
	switch av := a.(type) {
	case *Term:
		bv, ok := b.(*Term)
		if !ok {
			ex.unsupported("binop %v on term and %T", op, b)
		}
		return ex.termBinop(op, t, av, bv, tb)
	case *StrV:
		bv := b.(*StrV)
		ex.checkOpaque(av)
		ex.checkOpaque(bv)
		switch op {
		case token.ADD:
			if av.Concrete() && bv.Concrete() {
				return &StrV{s: av.s + bv.s}
			}
			return ex.mkStr(append(append([]*Term{}, ex.strBytes(av)...), ex.strBytes(bv)...))
		case token.EQL:
			return ex.strEq(av, bv)
		case token.NEQ:
			return ex.tc.Not(ex.strEq(av, bv))
		case token.LSS:
			return ex.strLess(av, bv)
		case token.GTR:
			return ex.strLess(bv, av)
		case token.LEQ:
			return ex.tc.Not(ex.strLess(bv, av))
		case token.GEQ:
			return ex.tc.Not(ex.strLess(av, bv))
		}
	}
	switch op {
	case token.EQL:
		return ex.valEq(a, b)
	case token.NEQ:
		return ex.tc.Not(ex.valEq(a, b))
	}
	ex.unsupported("binop %v on %T", op, a)
	return nil
}

func (ex *Exec) termBinop(op token.Token, t types.Type, a, b *Term, tb types.Type) Value {
	tc := ex.tc
	w, signed, fl := typeWidth(t)
	if w == 0 { // bool
		switch op {
		case token.EQL:
			return tc.Eq(a, b)
		case token.NEQ:
			return tc.Not(tc.Eq(a, b))
		case token.AND, token.LAND:
			return tc.And(a, b)
		case token.OR, token.LOR:
			return tc.Or(a, b)
		}
		ex.unsupported("bool binop %v", op)
	}
	if fl {
		switch op {
		case token.ADD:
			return tc.FBin(OFAdd, a, b)
		case token.SUB:
			return tc.FBin(OFSub, a, b)
		case token.MUL:
			return tc.FBin(OFMul, a, b)
		case token.QUO:
			return tc.FBin(OFDiv, a, b)
		case token.EQL:
			return tc.FCmp(OFEq, a, b)
		case token.NEQ:
			return tc.Not(tc.FCmp(OFEq, a, b))
		case token.LSS:
			return tc.FCmp(OFLt, a, b)
		case token.LEQ:
			return tc.FCmp(OFLe, a, b)
		case token.GTR:
			return tc.FCmp(OFLt, b, a)
		case token.GEQ:
			return tc.FCmp(OFLe, b, a)
		}
		ex.unsupported("float binop %v", op)
	}
	switch op {
	case token.ADD:
		return tc.Bin(OAdd, a, b)
	case token.SUB:
		return tc.Bin(OSub, a, b)
	case token.MUL:
		return tc.Bin(OMul, a, b)
	case token.QUO, token.REM:
		z := tc.Eq(b, tc.Const(w, 0))
		if z.IsConst() {
			if z.val != 0 {
				ex.rtPanic("integer divide by zero")
			}
		} else if ex.fork(z) {
			ex.rtPanic("integer divide by zero")
		}
		switch {
		case op == token.QUO && signed:
			return tc.Bin(OSDiv, a, b)
		case op == token.QUO:
			return tc.Bin(OUDiv, a, b)
		case signed:
			return tc.Bin(OSRem, a, b)
		default:
			return tc.Bin(OURem, a, b)
		}
	case token.AND:
		return tc.Bin(OBAnd, a, b)
	case token.OR:
		return tc.Bin(OBOr, a, b)
	case token.XOR:
		return tc.Bin(OBXor, a, b)
	case token.AND_NOT:
		return tc.Bin(OBAnd, a, tc.Un(OBNot, b))
	case token.SHL, token.SHR:
		_, bsigned, _ := typeWidth(tb)
		if bsigned {
			neg := tc.Cmp(OSlt, b, tc.Const(int(b.w), 0))
			if neg.IsConst() {
				if neg.val != 0 {
					ex.rtPanic("negative shift amount")
				}
			} else if ex.fork(neg) {
				ex.rtPanic("negative shift amount")
			}
		}
		// normalise shift count to operand width with saturation
		var cnt *Term
		var over *Term = tc.False
		if int(b.w) > w {
			over = tc.Not(tc.Cmp(OUlt, b, tc.Const(int(b.w), uint64(w))))
			cnt = tc.Extract(b, w-1, 0)
		} else {
			cnt = tc.ZExt(b, w)
		}
		var r, sat *Term
		switch {
		case op == token.SHL:
			r, sat = tc.Bin(OShl, a, cnt), tc.Const(w, 0)
		case signed:
			r, sat = tc.Bin(OAShr, a, cnt), tc.Bin(OAShr, a, tc.Const(w, uint64(w-1)))
		default:
			r, sat = tc.Bin(OLShr, a, cnt), tc.Const(w, 0)
		}
		return tc.Ite(over, sat, r)
	case token.EQL:
		return tc.Eq(a, b)
	case token.NEQ:
		return tc.Not(tc.Eq(a, b))
	case token.LSS:
		if signed {
			return tc.Cmp(OSlt, a, b)
		}
		return tc.Cmp(OUlt, a, b)
	case token.LEQ:
		if signed {
			return tc.Cmp(OSle, a, b)
		}
		return tc.Cmp(OUle, a, b)
	case token.GTR:
		if signed {
			return tc.Cmp(OSlt, b, a)
		}
		return tc.Cmp(OUlt, b, a)
	case token.GEQ:
		if signed {
			return tc.Cmp(OSle, b, a)
		}
		return tc.Cmp(OUle, b, a)
	}
	ex.unsupported("int binop %v", op)
	return nil
}

// valEq: Go == on arbitrary comparable values, as a Bool term.
func (ex *Exec) valEq(a, b Value) *Term {
	tc := ex.tc
	switch av := a.(type) {
	case nil:
		return tc.Bool(b == nil)
	case *Term:
		bv, ok := b.(*Term)
		if !ok || av.w != bv.w {
			return tc.False
		}
		return tc.Eq(av, bv)
	case *StrV:
		bv, ok := b.(*StrV)
		if !ok {
			return tc.False
		}
		return ex.strEq(av, bv)
	case Ptr:
		bv, ok := b.(Ptr)
		if !ok {
			return tc.False
		}
		if av.sym != nil || bv.sym != nil {
			ex.unsupported("comparison of pointers with symbolic index")
		}
		return tc.Bool(ptrEq(av, bv))
	case IfaceV:
		bv, ok := b.(IfaceV)
		if !ok {
			return tc.False
		}
		if av.t == nil || bv.t == nil {
			return tc.Bool(av.t == nil && bv.t == nil)
		}
		if !types.Identical(av.t, bv.t) {
			return tc.False
		}
		return ex.valEq(av.v, bv.v)
	case *StructV:
		bv := b.(*StructV)
		r := tc.True
		for i := range av.f {
			r = tc.And(r, ex.valEq(av.f[i], bv.f[i]))
		}
		return r
	case *ArrV:
		bv := b.(*ArrV)
		r := tc.True
		for i := range av.e {
			r = tc.And(r, ex.valEq(av.e[i], bv.e[i]))
		}
		return r
	case *MapV:
		bv, _ := b.(*MapV)
		an := av == nil || av.obj == nil
		bn := bv == nil || bv.obj == nil
		if an || bn {
			return tc.Bool(an && bn)
		}
		return tc.Bool(av.obj == bv.obj)
	case SliceV:
		bv := b.(SliceV)
		if av.arr.obj == nil || bv.arr.obj == nil {
			return tc.Bool(av.arr.obj == nil && bv.arr.obj == nil)
		}
		ex.unsupported("slice comparison")
	case *FuncV:
		bv, _ := b.(*FuncV)
		if av == nil || bv == nil {
			return tc.Bool(av == nil && bv == nil)
		}
		ex.unsupported("func comparison")
	case *ChanV:
		bv, _ := b.(*ChanV)
		return tc.Bool(av == bv)
	case NativeV:
		bv, ok := b.(NativeV)
		return tc.Bool(ok && av.v == bv.v)
	}
	ex.unsupported("== on %T", a)
	return nil
}

// ---------- conversions ----------

func (ex *Exec) convert(from, to types.Type, v Value) Value {
	tc := ex.tc
	fu, tu := from.Underlying(), to.Underlying()
	// string <-> []byte / []rune, int -> string
	if tb, ok := tu.(*types.Basic); ok && tb.Info()&types.IsString != 0 {
		switch f := fu.(type) {
		case *types.Basic:
			if f.Info()&types.IsString != 0 {
				return v
			}
			if f.Info()&types.IsInteger != 0 {
				t := v.(*Term)
				if !t.IsConst() {
					return ex.symRuneString(t, f)
				}
				_, signed, _ := basicWidth(f)
				var r int64
				if signed {
					r = sext64(t.val, t.w)
				} else {
					r = int64(t.val)
				}
				if r < 0 || r > utf8.MaxRune {
					r = utf8.RuneError
				}
				return ex.concStr(string(rune(r)))
			}
		case *types.Slice:
			s := v.(SliceV)
			eb := f.Elem().Underlying().(*types.Basic)
			if eb.Kind() == types.Uint8 {
				return ex.mkStr(ex.sliceTerms(s))
			}
			if eb.Kind() == types.Int32 { // []rune
				// each rune is UTF-8 encoded; a symbolic rune forks on its encoding width only
				var out []*Term
				for i := 0; i < s.len; i++ {
					rt := ex.sliceGet(s, i).(*Term)
					var one *StrV
					if rt.IsConst() {
						r := rune(int32(rt.val))
						if r < 0 || r > utf8.MaxRune {
							r = utf8.RuneError
						}
						one = ex.concStr(string(r))
					} else {
						one = ex.symRuneString(rt, types.Typ[types.Int32]).(*StrV)
					}
					out = append(out, ex.strBytes(one)...)
				}
				return ex.mkStr(out)
			}
		}
		ex.unsupported("convert %v to string", from)
	}
	if ts, ok := tu.(*types.Slice); ok {
		if fb, ok := fu.(*types.Basic); ok && fb.Info()&types.IsString != 0 {
			s := v.(*StrV)
			ex.checkOpaque(s)
			eb := ts.Elem().Underlying().(*types.Basic)
			if eb.Kind() == types.Uint8 {
				return ex.byteSlice(ex.strBytes(s))
			}
			if eb.Kind() == types.Int32 {
				if !s.Concrete() {
					// decode with the REAL unicode/utf8.DecodeRuneInString (forks on the encoding
					// class of each sequence; invalid bytes give U+FFFD, width 1, as in Go)
					pkg := ex.P.prog.ImportedPackage("unicode/utf8")
					if pkg == nil || pkg.Func("DecodeRuneInString") == nil {
						ex.unsupported("[]rune(symbolic string) needs unicode/utf8")
					}
					var rs []*Term
					for i := 0; i < len(s.sym); {
						res := ex.callFunction(pkg.Func("DecodeRuneInString"), []Value{ex.mkStr(s.sym[i:])}, nil, token.NoPos).(TupleV)
						sz := ex.concretize(res[1].(*Term), true, "utf-8 sequence width")
						if sz < 1 {
							sz = 1
						}
						rs = append(rs, res[0].(*Term))
						i += int(sz)
					}
					sl := ex.makeSlice(ts.Elem(), len(rs), len(rs))
					for i, r := range rs {
						ex.sliceSet(sl, i, r)
					}
					return sl
				}
				rs := []rune(s.s)
				sl := ex.makeSlice(ts.Elem(), len(rs), len(rs))
				for i, r := range rs {
					ex.sliceSet(sl, i, tc.Const(32, uint64(r)))
				}
				return sl
			}
		}
		if _, ok := fu.(*types.Slice); ok {
			return v
		}
		ex.unsupported("convert %v to %v", from, to)
	}
	// pointers / unsafe
	switch tu.(type) {
	case *types.Pointer:
		return v
	}
	if tb, ok := tu.(*types.Basic); ok && tb.Kind() == types.UnsafePointer {
		return v
	}
	fw, fsigned, ffl := typeWidth(from)
	tw, tsigned, tfl := typeWidth(to)
	if fw < 0 || tw < 0 {
		ex.unsupported("convert %v to %v", from, to)
	}
	t, ok := v.(*Term)
	if !ok {
		ex.unsupported("convert %T (%v to %v)", v, from, to)
	}
	switch {
	case !ffl && !tfl:
		return tc.Resize(t, tw, fsigned)
	case !ffl && tfl:
		if fsigned {
			return tc.Conv(OSToF, t, tw)
		}
		return tc.Conv(OUToF, t, tw)
	case ffl && tfl:
		if fw == tw {
			return t
		}
		return tc.Conv(OFToF, t, tw)
	default: // float -> int
		var r *Term
		if tsigned {
			r = tc.Conv(OFToS, t, tw)
		} else {
			r = tc.Conv(OFToU, t, tw)
		}
		if !r.IsConst() {
			if t.IsConst() {
				ex.unsupported("float->int conversion of out-of-range constant (implementation-defined)")
			}
			// symbolic: out-of-range / NaN conversions are implementation-defined in Go.
			// Fork: in-range path continues, out-of-range path is inconclusive.
			inr := ex.floatInRange(t, tw, tsigned)
			if !ex.fork(inr) {
				ex.unsupported("float->int conversion of out-of-range value (implementation-defined)")
			}
		}
		return r
	}
}

func (ex *Exec) floatInRange(t *Term, w int, signed bool) *Term {
	tc := ex.tc
	fw := int(t.w)
	mk := func(f float64) *Term {
		if fw == 32 {
			return tc.Const(32, uint64(f32bits(float32(f))))
		}
		return tc.Const(64, f64bits(f))
	}
	var lo, hi float64
	if signed {
		hi = ldexp(1, w-1)
		lo = -hi
		// lo <= x < hi
		return tc.And(tc.FCmp(OFLe, mk(lo), t), tc.FCmp(OFLt, t, mk(hi)))
	}
	hi = ldexp(1, w)
	// -1 < x < hi
	return tc.And(tc.FCmp(OFLt, mk(-1), t), tc.FCmp(OFLt, t, mk(hi)))
}

// ---------- builtins ----------

func (ex *Exec) callBuiltin(name string, args []Value, c *ssa.CallCommon, site token.Pos) Value {
	tc := ex.tc
	switch name {
	case "len":
		switch a := args[0].(type) {
		case *StrV:
			ex.checkOpaque(a)
			return tc.Const(64, uint64(a.Len()))
		case SliceV:
			return tc.Const(64, uint64(a.len))
		case *MapV:
			return tc.Const(64, uint64(len(ex.mapData(a, false).keys)))
		case Ptr: // *array
			if c != nil {
				return tc.Const(64, uint64(c.Args[0].Type().Underlying().(*types.Pointer).Elem().Underlying().(*types.Array).Len()))
			}
		case *ArrV:
			return tc.Const(64, uint64(len(a.e)))
		case *ChanV:
			if a == nil {
				return tc.Const(64, 0)
			}
			return tc.Const(64, uint64(len(a.buf)))
		}
	case "cap":
		switch a := args[0].(type) {
		case SliceV:
			return tc.Const(64, uint64(a.cap))
		case *ArrV:
			return tc.Const(64, uint64(len(a.e)))
		case Ptr:
			if c != nil {
				return tc.Const(64, uint64(c.Args[0].Type().Underlying().(*types.Pointer).Elem().Underlying().(*types.Array).Len()))
			}
		case *ChanV:
			return tc.Const(64, 0)
		}
	case "append":
		s := args[0].(SliceV)
		var n int
		var get func(i int) Value
		switch e := args[1].(type) {
		case SliceV:
			n = e.len
			get = func(i int) Value { return ex.sliceGet(e, i) }
		case *StrV:
			bs := ex.strBytes(e)
			n = len(bs)
			get = func(i int) Value { return bs[i] }
		default:
			ex.unsupported("append of %T", args[1])
		}
		if n == 0 {
			return s
		}
		need := s.len + n
		if need <= s.cap && s.arr.obj != nil {
			r := SliceV{arr: s.arr, off: s.off, len: need, cap: s.cap}
			for i := 0; i < n; i++ {
				ex.sliceSet(r, s.len+i, get(i))
			}
			return r
		}
		var elem types.Type
		if c != nil {
			elem = c.Args[0].Type().Underlying().(*types.Slice).Elem()
		} else {
			ex.unsupported("append without type info")
		}
		nc := s.cap * 2
		if nc < need {
			nc = need
		}
		// evaluate sources before allocating (they may alias)
		vals := make([]Value, 0, need)
		for i := 0; i < s.len; i++ {
			vals = append(vals, ex.sliceGet(s, i))
		}
		for i := 0; i < n; i++ {
			vals = append(vals, get(i))
		}
		r := ex.makeSlice(elem, need, nc)
		arr := r.arr.obj.val.(*ArrV)
		for i, v := range vals {
			arr.e[i] = copyVal(v)
		}
		return r
	case "copy":
		d := args[0].(SliceV)
		var n int
		var get func(i int) Value
		switch e := args[1].(type) {
		case SliceV:
			n = e.len
			get = func(i int) Value { return ex.sliceGet(e, i) }
		case *StrV:
			ex.checkOpaque(e)
			bs := ex.strBytes(e)
			n = len(bs)
			get = func(i int) Value { return bs[i] }
		}
		if d.len < n {
			n = d.len
		}
		tmp := make([]Value, n)
		for i := 0; i < n; i++ {
			tmp[i] = get(i)
		}
		for i := 0; i < n; i++ {
			ex.sliceSet(d, i, tmp[i])
		}
		return tc.Const(64, uint64(n))
	case "delete":
		ex.mapDelete(args[0].(*MapV), args[1])
		return nil
	case "panic":
		panic(targetPanic{val: args[0], msg: ex.panicMsg(args[0]), pos: site})
	case "recover":
		caller := ex.frame.caller
		if caller != nil && caller.panicking {
			caller.panicking = false
			return caller.panicVal
		}
		return IfaceV{}
	case "print", "println":
		return nil
	case "min", "max":
		r := args[0].(*Term)
		_, signed, fl := typeWidth(c.Args[0].Type())
		for _, a := range args[1:] {
			t := a.(*Term)
			var less *Term
			switch {
			case fl:
				less = tc.FCmp(OFLt, t, r)
			case signed:
				less = tc.Cmp(OSlt, t, r)
			default:
				less = tc.Cmp(OUlt, t, r)
			}
			if name == "max" {
				var gt *Term
				switch {
				case fl:
					gt = tc.FCmp(OFLt, r, t)
				case signed:
					gt = tc.Cmp(OSlt, r, t)
				default:
					gt = tc.Cmp(OUlt, r, t)
				}
				r = tc.Ite(gt, t, r)
				continue
			}
			r = tc.Ite(less, t, r)
		}
		return r
	case "clear":
		switch a := args[0].(type) {
		case *MapV:
			if a != nil && a.obj != nil {
				d := ex.mapData(a, true)
				d.keys, d.vals = nil, nil
			}
			return nil
		case SliceV:
			elem := c.Args[0].Type().Underlying().(*types.Slice).Elem()
			for i := 0; i < a.len; i++ {
				ex.sliceSet(a, i, ex.zero(elem))
			}
			return nil
		}
	case "close":
		ch, _ := args[0].(*ChanV)
		ex.chanClose(ch)
		return nil
	case "String": // unsafe.String(ptr, len)
		p := args[0].(Ptr)
		n := int(ex.argInt(args[1]))
		if n == 0 {
			return &StrV{}
		}
		if p.obj == nil || len(p.path) == 0 {
			ex.unsupported("unsafe.String of non-element pointer")
		}
		base := Ptr{obj: p.obj, path: p.path[:len(p.path)-1]}
		off := p.path[len(p.path)-1]
		bs := make([]*Term, n)
		for i := range bs {
			bs[i] = ex.load(extendPath(base, off+i)).(*Term)
		}
		return ex.mkStr(bs)
	case "SliceData":
		sl := args[0].(SliceV)
		if sl.arr.obj == nil {
			return Ptr{}
		}
		return extendPath(sl.arr, sl.off)
	case "StringData":
		st := args[0].(*StrV)
		sl := ex.byteSlice(ex.strBytes(st))
		return extendPath(sl.arr, 0)
	case "Slice": // unsafe.Slice(ptr, len)
		p := args[0].(Ptr)
		n := int(ex.argInt(args[1]))
		if p.obj == nil {
			return SliceV{}
		}
		if len(p.path) == 0 {
			ex.unsupported("unsafe.Slice of non-element pointer")
		}
		return SliceV{arr: Ptr{obj: p.obj, path: p.path[:len(p.path)-1]}, off: p.path[len(p.path)-1], len: n, cap: n}
	case "ssa:wrapnilchk":
		if p, ok := args[0].(Ptr); ok && p.obj == nil {
			ex.rtPanic("value method called using nil pointer")
		}
		return args[0]
	}
	ex.unsupported("builtin %s(%T)", name, firstOrNil(args))
	return nil
}

func firstOrNil(a []Value) Value {
	if len(a) > 0 {
		return a[0]
	}
	return nil
}

func init() { _ = fmt.Sprint }

// symRuneString: string(x) for a symbolic integer x — UTF-8 encoding with symbolic bytes;
// forks only on the length class of the encoding.
func (ex *Exec) symRuneString(t *Term, f *types.Basic) Value {
	tc := ex.tc
	_, signed, _ := basicWidth(f)
	v := tc.Resize(t, 64, signed)
	c := func(x uint64) *Term { return tc.Const(64, x) }
	lt := func(a *Term, k uint64) *Term { return tc.Cmp(OUlt, a, c(k)) }
	dec := func(cond *Term) bool {
		if cond.IsConst() {
			return cond.val != 0
		}
		return ex.fork(cond)
	}
	b := func(x *Term) *Term { return tc.Extract(x, 7, 0) }
	cont := func(sh uint64) *Term {
		return b(tc.Bin(OBOr, c(0x80), tc.Bin(OBAnd, tc.Bin(OLShr, v, c(sh)), c(0x3F))))
	}
	switch {
	case dec(lt(v, 0x80)):
		return ex.mkStr([]*Term{b(v)})
	case dec(lt(v, 0x800)):
		return ex.mkStr([]*Term{b(tc.Bin(OBOr, c(0xC0), tc.Bin(OLShr, v, c(6)))), cont(0)})
	case dec(tc.And(tc.Not(lt(v, 0xD800)), lt(v, 0xE000))):
		return ex.concStr("\uFFFD")
	case dec(lt(v, 0x10000)):
		return ex.mkStr([]*Term{b(tc.Bin(OBOr, c(0xE0), tc.Bin(OLShr, v, c(12)))), cont(6), cont(0)})
	case dec(lt(v, 0x110000)):
		return ex.mkStr([]*Term{b(tc.Bin(OBOr, c(0xF0), tc.Bin(OLShr, v, c(18)))), cont(12), cont(6), cont(0)})
	}
	return ex.concStr("\uFFFD")
}
