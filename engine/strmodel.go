package main

// Models for decimal formatting of symbolic integers (strconv.Itoa / FormatInt /
// FormatUint base 10, fmt %d): forks only on sign and digit count; the digits are
// div/mod terms. Differential-tested natively by harness/SELF.

import (
	"go/token"
	"go/types"

	"golang.org/x/tools/go/ssa"
)

var notHandled = &struct{ x int }{}

func (ex *Exec) formatDecimal(v *Term, signed bool) *StrV {
	tc := ex.tc
	effw := int(v.w)
	inner := v
	switch v.op {
	case OZExt:
		effw = int(v.args[0].w)
		inner = v.args[0]
		signed = false
	case OSExt:
		if signed {
			effw = int(v.args[0].w)
			inner = v.args[0]
		}
	}
	_ = inner
	var out []*Term
	mag := v
	if signed {
		neg := tc.Cmp(OSlt, v, tc.Const(int(v.w), 0))
		isNeg := false
		if neg.IsConst() {
			isNeg = neg.val != 0
		} else {
			isNeg = ex.fork(neg)
		}
		if isNeg {
			out = append(out, tc.Const(8, '-'))
			mag = tc.Un(ONeg, v)
		}
	}
	w := effw
	if w < 8 {
		w = 8
	}
	if w < int(mag.w) {
		mag = tc.Extract(mag, w-1, 0)
	}
	// digit count
	nd := 0
	p := uint64(1)
	for k := 1; k <= 20; k++ {
		p *= 10
		if k == 20 || (w < 64 && p >= uint64(1)<<uint(w)) {
			nd = k
			break
		}
		c := tc.Cmp(OUlt, mag, tc.Const(w, p))
		if c.IsConst() {
			if c.val != 0 {
				nd = k
				break
			}
			continue
		}
		if ex.fork(c) {
			nd = k
			break
		}
	}
	pow := uint64(1)
	pows := make([]uint64, nd)
	for i := 0; i < nd; i++ {
		pows[i] = pow
		pow *= 10
	}
	for i := nd - 1; i >= 0; i-- {
		d := mag
		if pows[i] > 1 {
			d = tc.Bin(OUDiv, mag, tc.Const(w, pows[i]))
		}
		if i < nd-1 || true {
			d = tc.Bin(OURem, d, tc.Const(w, 10))
		}
		d8 := tc.Extract(d, 7, 0)
		out = append(out, tc.Bin(OAdd, d8, tc.Const(8, '0')))
	}
	return ex.mkStr(out)
}

func init() {
	intrinsics["strconv.Itoa"] = func(ex *Exec, fn *ssa.Function, a []Value, site token.Pos) Value {
		t := a[0].(*Term)
		if t.IsConst() {
			return notHandled
		}
		ex.stub("strconv.Itoa/FormatInt/FormatUint (base 10) of symbolic values: digit model (forks on sign and digit count)")
		return ex.formatDecimal(t, true)
	}
	intrinsics["strconv.FormatInt"] = func(ex *Exec, fn *ssa.Function, a []Value, site token.Pos) Value {
		t, b := a[0].(*Term), a[1].(*Term)
		if t.IsConst() || !b.IsConst() || b.val != 10 {
			if !t.IsConst() {
				ex.unsupported("FormatInt of symbolic value in base %v", b)
			}
			return notHandled
		}
		ex.stub("strconv.Itoa/FormatInt/FormatUint (base 10) of symbolic values: digit model (forks on sign and digit count)")
		return ex.formatDecimal(t, true)
	}
	intrinsics["strconv.FormatUint"] = func(ex *Exec, fn *ssa.Function, a []Value, site token.Pos) Value {
		t, b := a[0].(*Term), a[1].(*Term)
		if t.IsConst() || !b.IsConst() || b.val != 10 {
			if !t.IsConst() {
				ex.unsupported("FormatUint of symbolic value in base %v", b)
			}
			return notHandled
		}
		ex.stub("strconv.Itoa/FormatInt/FormatUint (base 10) of symbolic values: digit model (forks on sign and digit count)")
		return ex.formatDecimal(t, false)
	}
}

// fmtDecimalArg formats an integer interface argument for %d / %v.
func (ex *Exec) fmtDecimalArg(iv IfaceV) (*StrV, bool) {
	t, ok := iv.v.(*Term)
	if !ok || iv.t == nil {
		return nil, false
	}
	b, ok := iv.t.Underlying().(*types.Basic)
	if !ok || b.Info()&types.IsInteger == 0 {
		return nil, false
	}
	_, signed, _ := basicWidth(b)
	t64 := ex.tc.Resize(t, 64, signed)
	if t64.IsConst() {
		// concrete: format natively
		if signed {
			return ex.concStr(itoa64(sext64(t64.val, 64))), true
		}
		return ex.concStr(utoa64(t64.val)), true
	}
	ex.stub("fmt %d of symbolic values: digit model (forks on sign and digit count)")
	return ex.formatDecimal(t64, signed), true
}

func itoa64(v int64) string {
	if v < 0 {
		return "-" + utoa64(uint64(-v))
	}
	return utoa64(uint64(v))
}
func utoa64(v uint64) string {
	if v == 0 {
		return "0"
	}
	var b [20]byte
	i := len(b)
	for v > 0 {
		i--
		b[i] = byte('0' + v%10)
		v /= 10
	}
	return string(b[i:])
}
