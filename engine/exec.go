package main

// Symbolic interpreter for go/ssa. One Exec runs one path from the harness entry; forks
// are explored by re-execution under a decision prefix (see driver.go).

import (
	"fmt"
	"go/constant"
	"go/token"
	"go/types"
	"math"
	"strings"
	"sync"

	"golang.org/x/tools/go/ssa"
)

type funcInfo struct {
	idx  map[ssa.Value]int
	n    int
	havoc map[*ssa.Phi]bool
}

type Program struct {
	prog     *ssa.Program
	fset     *token.FileSet
	finfo    sync.Map
	globals  map[*ssa.Global]*Object
	gmu      sync.Mutex
	initDone map[*ssa.Package]bool
	repoPrefix string
	initAllow map[string]bool
	initErrs []string
	stubFns  map[string]string // function full name -> zzvf function that replaces it
	goRun    []string          // substrings of callee names whose go statements run as coroutines
}

func (P *Program) info(fn *ssa.Function) *funcInfo {
	if fi, ok := P.finfo.Load(fn); ok {
		return fi.(*funcInfo)
	}
	fi := &funcInfo{idx: map[ssa.Value]int{}}
	add := func(v ssa.Value) { fi.idx[v] = fi.n; fi.n++ }
	for _, p := range fn.Params {
		add(p)
	}
	for _, p := range fn.FreeVars {
		add(p)
	}
	for _, b := range fn.Blocks {
		for _, in := range b.Instrs {
			if v, ok := in.(ssa.Value); ok {
				add(v)
			}
		}
	}
	P.finfo.Store(fn, fi)
	return fi
}

type deferred struct {
	fn   Value
	args []Value
	instr *ssa.Defer
}

type Frame struct {
	fn        *ssa.Function
	info      *funcInfo
	locals    []Value
	block     *ssa.BasicBlock
	prev      *ssa.BasicBlock
	defers    []deferred
	result    Value
	panicking bool
	panicVal  Value
	caller    *Frame
	visits    map[*ssa.BasicBlock]int
	pos       token.Pos
	havoced   map[*ssa.Phi]bool
	mergePhi  *mergeInfo
}

// targetPanic is a Go-level panic of the program under test.
type targetPanic struct {
	val Value
	msg string
	pos token.Pos
}

type internalCrash struct {
	r     interface{}
	stack string
}

func (c internalCrash) String() string { return fmt.Sprintf("%v\n%s", c.r, c.stack) }

// pathAbort ends the current path for an executor-level reason.
type pathAbort struct {
	kind string // infeasible | unsupported | unwind | deadlock | exit | done
	msg  string
}

type Exec struct {
	P        *Program
	tc       *TermCtx
	sv       *Solvers
	job      *Job
	pc       []*Term
	prefix   []int64
	trace    []int64
	overlay  map[*Object]*Object
	nextObj  int
	steps    int64
	maxSteps int64
	maxVisits int
	cutVisits int
	initMode bool
	frame    *Frame
	depth    int
	nvars    int
	inputs   []inputRec
	chooses  []int64
	derived  []bool
	observes []obsRec
	funcs    map[string]bool
	stubs    map[string]bool
	skippedGo []string
	assumptions map[string]bool
	unconfirmed bool
	panicsDepth int
	// ghost state
	locks     map[string]int // mutex address -> hold count (write) ; RLock counted separately
	rlocks    map[string]int
	lockOrder []string
	events    []string
	recording bool
	accesses  []accessRec
	allocK, allocC int64
	fillLong  bool // Fill gave the focused string field the long form (pattern bit 2)
	allocOn   bool
	allocLen  int64
	pool      map[string][]Value
	clock     *Term
	clockMin  *Term
	sleepWeak bool
	clockExact bool
	ranges    map[int32]urange
	assertLog []assertRec
	raceSeq   int
	oblMsg    string
	raceMark  int
	nclock    int
	ghost     map[string]Value
	havocs    map[string]bool
	curPos    token.Pos
	guardLabel []string
	havocVals map[string]*Term
	inInitOf  map[*ssa.Package]bool
	noReplay  bool
	recTag    string
	newReach  bool
	waitBudget int
	onWait    Value
	coros     []*coro
	cur       *coro
}

type inputRec struct {
	T    string  `json:"t"`
	Name string  `json:"name,omitempty"`
	N    int     `json:"n,omitempty"`
	vars []*Term
}

type assertRec struct {
	label string
	cond  *Term
}

type obsRec struct {
	tag string
	v   Value
}

type accessRec struct {
	tag   string
	cell  string
	write bool
	locks string
	pos   token.Pos
}

func (ex *Exec) abort(kind, format string, a ...interface{}) {
	panic(pathAbort{kind: kind, msg: fmt.Sprintf(format, a...)})
}

func (ex *Exec) unsupported(format string, a ...interface{}) {
	msg := fmt.Sprintf(format, a...)
	if ex.frame != nil {
		msg += " @" + ex.P.fset.Position(ex.curPos).String() + " in " + ex.frame.fn.String()
	}
	panic(pathAbort{kind: "unsupported", msg: msg})
}

func (ex *Exec) rtPanic(msg string) {
	// a Go runtime error panic: value is a runtime.Error; we carry it as an interface
	// holding an opaque runtimeError string.
	panic(targetPanic{val: IfaceV{t: rtErrType, v: ex.concStr("runtime error: " + msg)}, msg: "runtime error: " + msg, pos: ex.curPos})
}

// rtErrType stands for runtime.Error's dynamic type in the executor.
var rtErrType types.Type = types.NewNamed(types.NewTypeName(token.NoPos, nil, "runtime.errorString", nil), types.Typ[types.String], nil)

func (ex *Exec) posStr(p token.Pos) string {
	if !p.IsValid() {
		return "?"
	}
	ps := ex.P.fset.Position(p)
	f := ps.Filename
	if strings.HasPrefix(f, repoDir+"/") {
		f = f[len(repoDir)+1:] // labels do not depend on where the repository copy lives
	} else if i := strings.Index(f, "/repo/"); i >= 0 {
		f = f[i+6:]
	} else if i := strings.LastIndex(f, "/src/"); i >= 0 {
		f = f[i+5:]
	}
	return fmt.Sprintf("%s:%d", f, ps.Line)
}

// ---------- values of operands ----------

func (ex *Exec) get(fr *Frame, v ssa.Value) Value {
	switch x := v.(type) {
	case *ssa.Const:
		return ex.constVal(x)
	case *ssa.Global:
		return Ptr{obj: ex.P.globalObj(ex, x)}
	case *ssa.Function:
		return &FuncV{fn: x}
	case *ssa.Builtin:
		return &FuncV{builtin: x.Name()}
	}
	i, ok := fr.info.idx[v]
	if !ok {
		panic(fmt.Sprintf("executor: no slot for %s in %s", v.Name(), fr.fn))
	}
	return fr.locals[i]
}

func (ex *Exec) set(fr *Frame, v ssa.Value, val Value) {
	fr.locals[fr.info.idx[v]] = val
}

func (ex *Exec) constVal(c *ssa.Const) Value {
	t := c.Type()
	if c.Value == nil {
		return ex.zero(t)
	}
	switch u := t.Underlying().(type) {
	case *types.Basic:
		if u.Info()&types.IsString != 0 {
			return ex.concStr(constant.StringVal(c.Value))
		}
		if u.Info()&types.IsBoolean != 0 {
			return ex.tc.Bool(constant.BoolVal(c.Value))
		}
		w, _, fl := basicWidth(u)
		if fl {
			f, _ := constant.Float64Val(constant.ToFloat(c.Value))
			if w == 32 {
				return ex.tc.Const(32, uint64(math.Float32bits(float32(f))))
			}
			return ex.tc.Const(64, math.Float64bits(f))
		}
		if w < 0 {
			ex.unsupported("const of type %v", t)
		}
		iv := constant.ToInt(c.Value)
		if i, ok := constant.Int64Val(iv); ok {
			return ex.tc.Const(w, uint64(i))
		}
		if ui, ok := constant.Uint64Val(iv); ok {
			return ex.tc.Const(w, ui)
		}
		ex.unsupported("const %v", c)
	}
	ex.unsupported("const of type %v", t)
	return nil
}

func (P *Program) globalObj(ex *Exec, g *ssa.Global) *Object {
	P.gmu.Lock()
	o, ok := P.globals[g]
	if !ok {
		// zero-valued global of a package whose init we do not run
		saved := ex.initMode
		ex.initMode = true
		o = ex.newObject(ex.zero(g.Type().(*types.Pointer).Elem()), g.Type().(*types.Pointer).Elem(), "global "+g.String())
		ex.initMode = saved
		P.globals[g] = o
	}
	P.gmu.Unlock()
	return o
}

// ---------- calls ----------

func (ex *Exec) callFunction(fn *ssa.Function, args []Value, bind []Value, site token.Pos) (ret Value) {
	if len(ex.P.stubFns) > 0 && !ex.initMode && (ex.job == nil || ex.job.NoStub == "" || (ex.job.NoStub != "1" && !strings.Contains(fn.String(), ex.job.NoStub))) {
		if z, ok := ex.P.stubFns[fn.String()]; ok {
			pass := strings.HasSuffix(z, "+") // "+": the stub receives the function's arguments
			z = strings.TrimSuffix(z, "+")
			h := intrinsics["github.com/whatap/golib/zzvf."+z]
			ex.stub(fn.String() + " (replaced by zzvf." + z + ")")
			if h == nil {
				// an environment model written in Go (zzvf/env.go): execute it
				var tgt *ssa.Function
				if zp := ex.P.prog.ImportedPackage(repoMod + "/zzvf"); zp != nil {
					tgt = zp.Func(z)
				}
				if tgt == nil {
					ex.unsupported("stub target zzvf.%s unknown", z)
				}
				if pass {
					return ex.callFunction(tgt, args, nil, site)
				}
				return ex.callFunction(tgt, nil, nil, site)
			}
			if pass {
				return h(ex, fn, args, site)
			}
			return h(ex, fn, nil, site)
		}
	}
	if !ex.initMode {
		if tgt := ex.P.redirectFor(fn); tgt != nil {
			ex.stub(fn.String() + " (environment model: zzvf " + tgt.Name() + ")")
			return ex.callFunction(tgt, args, nil, site)
		}
	}
	if r, handled := ex.intrinsic(fn, args, site); handled {
		return r
	}
	if fn.Blocks == nil {
		ex.unsupported("call to function without body: %s", fn.String())
	}
	if ex.initMode && fn.Synthetic == "package initializer" && fn.Pkg != nil {
		if !ex.P.initAllowed(fn.Pkg) {
			return nil
		}
		if !ex.inInitOf[fn.Pkg] {
			// isolate: a failure inside a dependency's init must not abort the importer's
			ex.inInitOf[fn.Pkg] = true
			ex.P.initDone[fn.Pkg] = true
			savedFrame, savedDepth := ex.frame, ex.depth
			func() {
				defer func() {
					if r := recover(); r != nil {
						ex.frame, ex.depth = savedFrame, savedDepth
						switch x := r.(type) {
						case pathAbort:
							ex.P.initErrs = append(ex.P.initErrs, fn.Pkg.Pkg.Path()+": "+x.kind+": "+x.msg)
						case targetPanic:
							ex.P.initErrs = append(ex.P.initErrs, fn.Pkg.Pkg.Path()+": panic: "+x.msg)
						case internalCrash:
							ex.P.initErrs = append(ex.P.initErrs, fn.Pkg.Pkg.Path()+": executor crash: "+x.String())
						default:
							panic(r)
						}
					}
				}()
				ex.callFunction(fn, args, bind, site)
			}()
			return nil
		}
	}
	if ex.funcs != nil {
		ex.funcs[fn.String()] = true
	}
	if !ex.initMode && len(args) > 0 && len(bind) == 0 {
		sym := false
		for _, a := range args {
			if t, ok := a.(*Term); ok && !t.IsConst() {
				sym = true
				break
			}
		}
		if sym {
			if pi := ex.P.pure(fn); pi.ok {
				return ex.callMerged(fn, pi, args)
			}
		}
	}
	ex.depth++
	if ex.depth > 400 {
		ex.abort("unwind", "call depth > 400 in %s", fn.String())
	}
	fi := ex.P.info(fn)
	fr := &Frame{fn: fn, info: fi, locals: make([]Value, fi.n), caller: ex.frame}
	for i, p := range fn.Params {
		fr.locals[fi.idx[p]] = args[i]
	}
	for i, fv := range fn.FreeVars {
		fr.locals[fi.idx[fv]] = bind[i]
	}
	savedFrame := ex.frame
	ex.frame = fr
	defer func() {
		ex.frame = savedFrame
		ex.depth--
	}()
	fr.block = fn.Blocks[0]
	for {
		ex.runFrame(fr)
		if fr.block == nil {
			break
		}
	}
	return fr.result
}

// runFrame executes until return; a target panic runs the frame's defers and either
// resumes at the Recover block or propagates.
func (ex *Exec) runFrame(fr *Frame) {
	defer func() {
		if fr.block == nil {
			return // normal return
		}
		r := recover()
		if r == nil {
			return
		}
		tp, ok := r.(targetPanic)
		if !ok {
			switch r.(type) {
			case pathAbort, internalCrash, coKill:
				panic(r)
			}
			panic(internalCrash{r: r, stack: ex.stackStr()})
		}
		fr.panicking = true
		fr.panicVal = tp.val
		savedFrame := ex.frame
		ex.frame = fr
		ex.runDefers(fr)
		ex.frame = savedFrame
		if fr.panicking {
			panic(targetPanic{val: fr.panicVal, msg: tp.msg, pos: tp.pos})
		}
		// recovered
		fr.block = fr.fn.Recover
		if fr.block == nil {
			// no named results: return zero values
			fr.result = ex.zeroResults(fr.fn)
		}
	}()
	for fr.block != nil {
		ex.runBlock(fr)
	}
}

func (ex *Exec) zeroResults(fn *ssa.Function) Value {
	res := fn.Signature.Results()
	switch res.Len() {
	case 0:
		return nil
	case 1:
		return ex.zero(res.At(0).Type())
	}
	return ex.zero(res)
}

func (ex *Exec) runDefers(fr *Frame) {
	for len(fr.defers) > 0 {
		d := fr.defers[len(fr.defers)-1]
		fr.defers = fr.defers[:len(fr.defers)-1]
		ex.callValue(d.fn, d.args, d.instr.Pos())
	}
}

func (ex *Exec) callValue(f Value, args []Value, site token.Pos) Value {
	fv, _ := f.(*FuncV)
	if fv == nil {
		ex.rtPanic("invalid memory address or nil pointer dereference (nil func)")
	}
	if fv.builtin != "" {
		return ex.callBuiltin(fv.builtin, args, nil, site)
	}
	return ex.callFunction(fv.fn, args, fv.bind, site)
}

func (ex *Exec) runBlock(fr *Frame) {
	b := fr.block
	if fr.visits == nil {
		fr.visits = map[*ssa.BasicBlock]int{}
	}
	fr.visits[b]++
	if ex.cutVisits > 0 && fr.visits[b] > ex.cutVisits && !ex.initMode && strings.Contains(fr.fn.String(), repoMod) && !strings.Contains(fr.fn.String(), "ZZ_") {
		ex.assumptions[fmt.Sprintf("paths on which a loop of the code under test iterates more than %d times are cut (outside the claim)", ex.cutVisits)] = true
		ex.abort("cut", "loop bound %d in %s", ex.cutVisits, fr.fn.String())
	}
	if ex.maxVisits > 0 && fr.visits[b] > ex.maxVisits && !ex.initMode {
		ex.abort("unwind", "block %d of %s visited > %d times", b.Index, fr.fn.String(), ex.maxVisits)
	}
	// phi nodes are evaluated IN PARALLEL: all incoming values are read before any phi is
	// assigned (a phi may name another phi of the same block as its operand)
	nphi := 0
	for nphi < len(b.Instrs) {
		if _, ok := b.Instrs[nphi].(*ssa.Phi); !ok {
			break
		}
		nphi++
	}
	if nphi > 0 {
		vals := make([]Value, nphi)
		for k := 0; k < nphi; k++ {
			x := b.Instrs[k].(*ssa.Phi)
			if mp := fr.mergePhi; mp != nil && mp.join == b {
				var vt, vf Value
				for i, pred := range b.Preds {
					if pred == mp.predT {
						vt = ex.get(fr, x.Edges[i])
					}
					if pred == mp.predF {
						vf = ex.get(fr, x.Edges[i])
					}
				}
				tt, ok1 := vt.(*Term)
				tf, ok2 := vf.(*Term)
				if !ok1 || !ok2 {
					panic("if-conversion: non-scalar phi")
				}
				vals[k] = ex.tc.Ite(mp.cond, tt, tf)
				continue
			}
			for i, pred := range b.Preds {
				if pred == fr.prev {
					vals[k] = ex.get(fr, x.Edges[i])
					break
				}
			}
		}
		for k := 0; k < nphi; k++ {
			x := b.Instrs[k].(*ssa.Phi)
			ex.set(fr, x, vals[k])
			if len(ex.havocs) > 0 {
				ex.maybeHavoc(fr, x)
			}
		}
		ex.steps += int64(nphi)
		if mp := fr.mergePhi; mp != nil && mp.join == b {
			fr.mergePhi = nil
		}
	}
	for _, in := range b.Instrs {
		ex.steps++
		if ex.steps > ex.maxSteps {
			ex.abort("unwind", "step cap %d exceeded in %s", ex.maxSteps, fr.fn.String())
		}
		if p := in.Pos(); p.IsValid() {
			ex.curPos = p
		}
		switch x := in.(type) {
		case *ssa.Phi:
			// handled in parallel at block entry
		case *ssa.If:
			c := ex.get(fr, x.Cond).(*Term)
			var taken bool
			if c.IsConst() {
				taken = c.val != 0
			} else if join := ex.tryIfConvert(fr, b, c); join != nil {
				// both arms were evaluated and merged with ite at the join's phis
				fr.block = join
				return
			} else {
				taken = ex.fork(c)
			}
			fr.prev = b
			if taken {
				fr.block = b.Succs[0]
			} else {
				fr.block = b.Succs[1]
			}
			return
		case *ssa.Jump:
			fr.prev = b
			fr.block = b.Succs[0]
			return
		case *ssa.Return:
			switch len(x.Results) {
			case 0:
			case 1:
				fr.result = ex.get(fr, x.Results[0])
			default:
				tv := make(TupleV, len(x.Results))
				for i, r := range x.Results {
					tv[i] = ex.get(fr, r)
				}
				fr.result = tv
			}
			if fr.panicking {
				// return from Recover block
			}
			fr.block = nil
			return
		case *ssa.RunDefers:
			ex.runDefers(fr)
		case *ssa.Panic:
			v := ex.get(fr, x.X)
			panic(targetPanic{val: v, msg: ex.panicMsg(v), pos: x.Pos()})
		default:
			ex.exec(fr, in)
		}
	}
	panic("executor: block without terminator")
}

func (ex *Exec) panicMsg(v Value) string {
	if iv, ok := v.(IfaceV); ok {
		if s, ok := iv.v.(*StrV); ok {
			if s.Concrete() {
				return s.s
			}
			return "<symbolic string>"
		}
		if iv.t != nil {
			return "panic(" + iv.t.String() + ")"
		}
		return "panic(nil)"
	}
	return describe(v)
}

func (ex *Exec) exec(fr *Frame, in ssa.Instruction) {
	switch x := in.(type) {
	case *ssa.DebugRef:
	case *ssa.Alloc:
		t := x.Type().(*types.Pointer).Elem()
		o := ex.newObject(ex.zero(t), t, x.Comment)
		ex.set(fr, x, Ptr{obj: o})
	case *ssa.UnOp:
		ex.set(fr, x, ex.unop(fr, x))
	case *ssa.BinOp:
		ex.set(fr, x, ex.binop(x.Op, x.X.Type(), ex.get(fr, x.X), ex.get(fr, x.Y), x.Y.Type()))
	case *ssa.Store:
		ex.store(ex.get(fr, x.Addr).(Ptr), ex.get(fr, x.Val))
	case *ssa.FieldAddr:
		p := ex.get(fr, x.X).(Ptr)
		if p.obj == nil {
			ex.rtPanic("invalid memory address or nil pointer dereference")
		}
		ex.set(fr, x, extendPath(p, x.Field))
	case *ssa.Field:
		s := ex.get(fr, x.X).(*StructV)
		ex.set(fr, x, copyVal(s.f[x.Field]))
	case *ssa.IndexAddr:
		ex.set(fr, x, ex.indexAddr(fr, x))
	case *ssa.Index:
		ex.set(fr, x, ex.index(fr, x))
	case *ssa.Call:
		ex.set(fr, x, ex.doCall(fr, &x.Call, x.Pos()))
	case *ssa.Defer:
		fn, args := ex.prepareCall(fr, &x.Call)
		fr.defers = append(fr.defers, deferred{fn: fn, args: args, instr: x})
	case *ssa.Go:
		if ex.spawn(fr, x) {
			break
		}
		ex.skippedGo = append(ex.skippedGo, callName(&x.Call)+" @"+ex.posStr(x.Pos()))
	case *ssa.Convert:
		ex.set(fr, x, ex.convert(x.X.Type(), x.Type(), ex.get(fr, x.X)))
	case *ssa.ChangeType:
		ex.set(fr, x, ex.get(fr, x.X))
	case *ssa.ChangeInterface:
		ex.set(fr, x, ex.get(fr, x.X))
	case *ssa.MakeInterface:
		ex.set(fr, x, IfaceV{t: x.X.Type(), v: ex.get(fr, x.X)})
	case *ssa.TypeAssert:
		ex.set(fr, x, ex.typeAssert(x, ex.get(fr, x.X).(IfaceV)))
	case *ssa.Extract:
		ex.set(fr, x, ex.get(fr, x.Tuple).(TupleV)[x.Index])
	case *ssa.Slice:
		ex.set(fr, x, ex.sliceOp(fr, x))
	case *ssa.MakeSlice:
		n := ex.concretizeSize(ex.get(fr, x.Len).(*Term), x.Type().Underlying().(*types.Slice).Elem(), x.Pos())
		c := ex.concretizeSize(ex.get(fr, x.Cap).(*Term), x.Type().Underlying().(*types.Slice).Elem(), x.Pos())
		if n < 0 || n > c {
			ex.rtPanic("makeslice: len out of range")
		}
		if c > 1<<26 {
			ex.abort("unwind", "makeslice of %d elements", c)
		}
		ex.set(fr, x, ex.makeSlice(x.Type().Underlying().(*types.Slice).Elem(), int(n), int(c)))
	case *ssa.MakeMap:
		o := ex.newObject(&MapData{}, x.Type(), "map")
		ex.set(fr, x, &MapV{obj: o})
	case *ssa.MakeChan:
		ex.nextObj++
		ex.set(fr, x, &ChanV{id: ex.nextObj, cap: int(ex.argInt(ex.get(fr, x.Size)))})
	case *ssa.MakeClosure:
		bind := make([]Value, len(x.Bindings))
		for i, b := range x.Bindings {
			bind[i] = ex.get(fr, b)
		}
		ex.set(fr, x, &FuncV{fn: x.Fn.(*ssa.Function), bind: bind})
	case *ssa.MapUpdate:
		ex.mapUpdate(ex.get(fr, x.Map).(*MapV), ex.get(fr, x.Key), ex.get(fr, x.Value))
	case *ssa.Lookup:
		ex.set(fr, x, ex.lookup(fr, x))
	case *ssa.Range:
		ex.set(fr, x, ex.rangeIter(ex.get(fr, x.X)))
	case *ssa.Next:
		ex.set(fr, x, ex.next(x, ex.get(fr, x.Iter).(*iterV)))
	case *ssa.SliceToArrayPointer:
		s := ex.get(fr, x.X).(SliceV)
		n := int(x.Type().(*types.Pointer).Elem().Underlying().(*types.Array).Len())
		if s.len < n {
			ex.rtPanic("cannot convert slice to array pointer: length too short")
		}
		if s.off != 0 {
			ex.unsupported("slice to array pointer with offset")
		}
		ex.set(fr, x, s.arr)
	case *ssa.Send:
		ch, _ := ex.get(fr, x.Chan).(*ChanV)
		ex.chanSend(ch, ex.get(fr, x.X))
	case *ssa.Select:
		ex.set(fr, x, ex.selectOp(fr, x))
	default:
		ex.unsupported("instruction %T", in)
	}
}

func callName(c *ssa.CallCommon) string {
	if c.IsInvoke() {
		return "invoke " + c.Method.FullName()
	}
	if f := c.StaticCallee(); f != nil {
		return f.String()
	}
	return c.Value.Name()
}

func (ex *Exec) prepareCall(fr *Frame, c *ssa.CallCommon) (Value, []Value) {
	var args []Value
	var fn Value
	if c.IsInvoke() {
		recv := ex.get(fr, c.Value).(IfaceV)
		if recv.t == nil {
			ex.rtPanic("invalid memory address or nil pointer dereference (nil interface method call)")
		}
		m := ex.lookupMethod(recv.t, c.Method)
		fn = &FuncV{fn: m}
		args = append(args, recv.v)
	} else {
		fn = ex.get(fr, c.Value)
	}
	for _, a := range c.Args {
		args = append(args, ex.get(fr, a))
	}
	return fn, args
}

func (ex *Exec) lookupMethod(t types.Type, m *types.Func) *ssa.Function {
	if t == rtErrType {
		ex.unsupported("method %s on runtime error", m.Name())
	}
	f := ex.P.prog.LookupMethod(t, m.Pkg(), m.Name())
	if f == nil {
		ex.unsupported("no method %s on %v", m.Name(), t)
	}
	return f
}

func (ex *Exec) doCall(fr *Frame, c *ssa.CallCommon, site token.Pos) Value {
	if b, ok := c.Value.(*ssa.Builtin); ok && !c.IsInvoke() {
		args := make([]Value, len(c.Args))
		for i, a := range c.Args {
			args[i] = ex.get(fr, a)
		}
		return ex.callBuiltin(b.Name(), args, c, site)
	}
	fn, args := ex.prepareCall(fr, c)
	// runtime error method calls (err.Error() on a recovered runtime panic)
	if c.IsInvoke() {
		if recv := ex.get(fr, c.Value).(IfaceV); recv.t == rtErrType && c.Method.Name() == "Error" {
			return recv.v
		}
	}
	return ex.callValue(fn, args, site)
}

// ---------- indexing ----------

// concretize makes a symbolic integer concrete by forking over its feasible values.
func (ex *Exec) concretize(t *Term, signed bool, what string) int64 {
	if t.IsConst() {
		if signed {
			return sext64(t.val, t.w)
		}
		return int64(t.val)
	}
	v := ex.forkValue(t, what)
	if signed {
		return sext64(uint64(v), t.w)
	}
	return v
}

func (ex *Exec) concretizeSize(t *Term, elem types.Type, pos token.Pos) int64 {
	if t.IsConst() {
		return sext64(t.val, t.w)
	}
	// negative sizes panic in make: one fork, no enumeration of the negative range
	neg := ex.tc.Cmp(OSlt, t, ex.tc.Const(int(t.w), 0))
	if !neg.IsConst() {
		if ex.fork(neg) {
			ex.rtPanic("makeslice: len out of range")
		}
	} else if neg.val != 0 {
		ex.rtPanic("makeslice: len out of range")
	}
	ex.checkAlloc(t, elem, pos)
	return ex.concretize(t, true, "make size")
}

func (ex *Exec) boundsCheck(idx *Term, n int, what string) {
	// idx is a 64-bit (or narrower) integer term; signedness: Go indices of signed type
	// are checked >= 0; we treat the term as signed if width is 64 (int), else by caller.
	inb := ex.tc.Cmp(OUlt, idx, ex.tc.Const(int(idx.w), uint64(n)))
	if inb.IsConst() {
		if inb.val == 0 {
			ex.rtPanic(fmt.Sprintf("index out of range [%s] with length %d", what, n))
		}
		return
	}
	if !ex.fork(inb) {
		ex.rtPanic(fmt.Sprintf("index out of range [sym] with length %d", n))
	}
}

func (ex *Exec) idxTerm(fr *Frame, v ssa.Value) *Term {
	t := ex.get(fr, v).(*Term)
	_, signed, _ := typeWidth(v.Type())
	return ex.tc.Resize(t, 64, signed)
}

func (ex *Exec) indexAddr(fr *Frame, x *ssa.IndexAddr) Value {
	base := ex.get(fr, x.X)
	idx := ex.idxTerm(fr, x.Index)
	var arrPtr Ptr
	var off, n int
	var elem types.Type
	switch b := base.(type) {
	case Ptr: // *array
		if b.obj == nil {
			ex.rtPanic("invalid memory address or nil pointer dereference")
		}
		at := x.X.Type().Underlying().(*types.Pointer).Elem().Underlying().(*types.Array)
		arrPtr, off, n, elem = b, 0, int(at.Len()), at.Elem()
	case SliceV:
		arrPtr, off, n = b.arr, b.off, b.len
		elem = x.X.Type().Underlying().(*types.Slice).Elem()
	default:
		ex.unsupported("IndexAddr on %T", base)
	}
	ex.boundsCheck(idx, n, "")
	if idx.IsConst() {
		return extendPath(arrPtr, off+int(idx.val))
	}
	if isScalarType(elem) && n <= 1024 {
		if off != 0 {
			idx = ex.tc.Bin(OAdd, idx, ex.tc.Const(64, uint64(off)))
		}
		return Ptr{obj: arrPtr.obj, path: arrPtr.path, sym: idx, symN: off + n}
	}
	i := ex.concretize(idx, false, "index")
	return extendPath(arrPtr, off+int(i))
}

func (ex *Exec) index(fr *Frame, x *ssa.Index) Value {
	base := ex.get(fr, x.X)
	idx := ex.idxTerm(fr, x.Index)
	switch b := base.(type) {
	case *ArrV:
		ex.boundsCheck(idx, len(b.e), "")
		if idx.IsConst() {
			return copyVal(b.e[idx.val])
		}
		if len(b.e) > 0 {
			if _, ok := b.e[0].(*Term); ok {
				var r *Term
				for i := len(b.e) - 1; i >= 0; i-- {
					e := b.e[i].(*Term)
					if r == nil {
						r = e
					} else {
						r = ex.tc.Ite(ex.tc.Eq(idx, ex.tc.Const(64, uint64(i))), e, r)
					}
				}
				return r
			}
		}
		i := ex.concretize(idx, false, "index")
		return copyVal(b.e[i])
	case *StrV:
		return ex.strIndex(b, idx)
	}
	ex.unsupported("Index on %T", base)
	return nil
}

func (ex *Exec) strIndex(s *StrV, idx *Term) Value {
	ex.boundsCheck(idx, s.Len(), "")
	ex.checkOpaque(s)
	if idx.IsConst() {
		if s.Concrete() {
			return ex.tc.Const(8, uint64(s.s[idx.val]))
		}
		return s.sym[idx.val]
	}
	bs := ex.strBytes(s)
	var r *Term
	for i := len(bs) - 1; i >= 0; i-- {
		if r == nil {
			r = bs[i]
		} else {
			r = ex.tc.Ite(ex.tc.Eq(idx, ex.tc.Const(64, uint64(i))), bs[i], r)
		}
	}
	return r
}

const opaqueMark = "\x00<opaque-fmt>\x00"

func (ex *Exec) checkOpaque(s *StrV) {
	if s.Concrete() && strings.Contains(s.s, opaqueMark) {
		ex.unsupported("content of a formatted string with symbolic arguments is observed")
	}
}

func (ex *Exec) sliceOp(fr *Frame, x *ssa.Slice) Value {
	base := ex.get(fr, x.X)
	getI := func(v ssa.Value, def int) int {
		if v == nil {
			return def
		}
		t := ex.idxTerm(fr, v)
		return int(ex.concretize(t, true, "slice bound"))
	}
	switch b := base.(type) {
	case *StrV:
		lo := getI(x.Low, 0)
		hi := getI(x.High, b.Len())
		if lo < 0 || hi < lo || hi > b.Len() {
			ex.rtPanic(fmt.Sprintf("slice bounds out of range [%d:%d] with length %d", lo, hi, b.Len()))
		}
		if b.Concrete() {
			return &StrV{s: b.s[lo:hi]}
		}
		return ex.mkStr(b.sym[lo:hi])
	case SliceV:
		lo := getI(x.Low, 0)
		hi := getI(x.High, b.len)
		mx := getI(x.Max, b.cap)
		if lo < 0 || hi < lo || mx < hi || mx > b.cap {
			ex.rtPanic(fmt.Sprintf("slice bounds out of range [%d:%d:%d] with capacity %d", lo, hi, mx, b.cap))
		}
		if b.arr.obj == nil {
			return SliceV{}
		}
		return SliceV{arr: b.arr, off: b.off + lo, len: hi - lo, cap: mx - lo}
	case Ptr: // *array
		if b.obj == nil {
			ex.rtPanic("invalid memory address or nil pointer dereference")
		}
		n := int(x.X.Type().Underlying().(*types.Pointer).Elem().Underlying().(*types.Array).Len())
		lo := getI(x.Low, 0)
		hi := getI(x.High, n)
		mx := getI(x.Max, n)
		if lo < 0 || hi < lo || mx < hi || mx > n {
			ex.rtPanic(fmt.Sprintf("slice bounds out of range [%d:%d:%d] with capacity %d", lo, hi, mx, n))
		}
		return SliceV{arr: b, off: lo, len: hi - lo, cap: mx - lo}
	}
	ex.unsupported("Slice on %T", base)
	return nil
}

// ---------- maps ----------

func (ex *Exec) mapData(m *MapV, write bool) *MapData {
	if m == nil || m.obj == nil {
		if write {
			ex.rtPanic("assignment to entry in nil map")
		}
		return &MapData{}
	}
	if ex.recording {
		ex.recordAccess(Ptr{obj: m.obj}, write) // the map as one cell (Go maps are not safe for concurrent use)
	}
	if write {
		return ex.writeObj(m.obj).val.(*MapData)
	}
	o, foreign := ex.readObj(m.obj)
	if foreign {
		// import lazily: cloning is simplest and safe
		return ex.writeObj(m.obj).val.(*MapData)
	}
	return o.val.(*MapData)
}

func (ex *Exec) mapFind(d *MapData, key Value) int {
	for i, k := range d.keys {
		c := ex.valEq(k, key)
		if c.IsConst() {
			if c.val != 0 {
				return i
			}
			continue
		}
		if ex.fork(c) {
			return i
		}
	}
	return -1
}

func (ex *Exec) mapUpdate(m *MapV, key, val Value) {
	d := ex.mapData(m, true)
	if i := ex.mapFind(d, key); i >= 0 {
		d.vals[i] = copyVal(val)
		return
	}
	d.keys = append(d.keys, copyVal(key))
	d.vals = append(d.vals, copyVal(val))
}

func (ex *Exec) mapDelete(m *MapV, key Value) {
	if m == nil || m.obj == nil {
		return
	}
	d := ex.mapData(m, true)
	if i := ex.mapFind(d, key); i >= 0 {
		d.keys = append(d.keys[:i:i], d.keys[i+1:]...)
		d.vals = append(d.vals[:i:i], d.vals[i+1:]...)
	}
}

func (ex *Exec) lookup(fr *Frame, x *ssa.Lookup) Value {
	base := ex.get(fr, x.X)
	switch b := base.(type) {
	case *StrV:
		return ex.strIndex(b, ex.idxTerm(fr, x.Index))
	case *MapV:
		d := ex.mapData(b, false)
		i := ex.mapFind(d, ex.get(fr, x.Index))
		var v Value
		if i >= 0 {
			v = copyVal(d.vals[i])
		} else {
			v = ex.zero(x.X.Type().Underlying().(*types.Map).Elem())
		}
		if x.CommaOk {
			return TupleV{v, ex.tc.Bool(i >= 0)}
		}
		return v
	}
	ex.unsupported("Lookup on %T", base)
	return nil
}

type iterV struct {
	keys []Value
	vals []Value
	str  *StrV
	pos  int
}

func (ex *Exec) rangeIter(v Value) Value {
	switch b := v.(type) {
	case *MapV:
		d := ex.mapData(b, false)
		it := &iterV{keys: append([]Value(nil), d.keys...), vals: append([]Value(nil), d.vals...)}
		return it
	case *StrV:
		return &iterV{str: b}
	}
	ex.unsupported("Range on %T", v)
	return nil
}

func (ex *Exec) next(x *ssa.Next, it *iterV) Value {
	if x.IsString {
		if it.pos >= it.str.Len() {
			return TupleV{ex.tc.False, ex.tc.Const(64, 0), ex.tc.Const(32, 0)}
		}
		i := it.pos
		if it.str.Concrete() {
			// decode UTF-8 concretely
			for j, r := range it.str.s[i:] {
				_ = j
				sz := len(string(r))
				if r == 0xFFFD {
					sz = 1
				}
				it.pos += sz
				return TupleV{ex.tc.True, ex.tc.Const(64, uint64(i)), ex.tc.Const(32, uint64(r))}
			}
		}
		// symbolic bytes: decode with the REAL unicode/utf8.DecodeRuneInString (forks on the
		// encoding class; invalid sequences yield U+FFFD, width 1, as in Go)
		pkg := ex.P.prog.ImportedPackage("unicode/utf8")
		if pkg == nil || pkg.Func("DecodeRuneInString") == nil {
			ex.unsupported("range over a symbolic string needs unicode/utf8")
		}
		rest := ex.mkStr(it.str.sym[i:])
		res := ex.callFunction(pkg.Func("DecodeRuneInString"), []Value{rest}, nil, token.NoPos).(TupleV)
		sz := ex.concretize(res[1].(*Term), true, "utf-8 sequence width")
		if sz < 1 {
			sz = 1
		}
		it.pos += int(sz)
		return TupleV{ex.tc.True, ex.tc.Const(64, uint64(i)), res[0]}
	}
	if it.pos >= len(it.keys) {
		tt := x.Type().(*types.Tuple)
		return TupleV{ex.tc.False, ex.zero(tt.At(1).Type()), ex.zero(tt.At(2).Type())}
	}
	k, v := it.keys[it.pos], it.vals[it.pos]
	it.pos++
	return TupleV{ex.tc.True, copyVal(k), copyVal(v)}
}

// ---------- type assertion ----------

func (ex *Exec) typeAssert(x *ssa.TypeAssert, iv IfaceV) Value {
	ok := false
	var res Value
	if iv.t != nil {
		if it, isI := x.AssertedType.Underlying().(*types.Interface); isI {
			if iv.t == rtErrType {
				ok = it.NumMethods() == 0 || (it.NumMethods() == 1 && it.Method(0).Name() == "Error")
			} else {
				ok = types.Implements(iv.t, it)
			}
			res = iv
		} else {
			ok = types.Identical(iv.t, x.AssertedType)
			res = iv.v
		}
	}
	if x.CommaOk {
		if !ok {
			res = ex.zero(x.AssertedType)
		}
		return TupleV{res, ex.tc.Bool(ok)}
	}
	if !ok {
		if iv.t == nil {
			ex.rtPanic(fmt.Sprintf("interface conversion: interface is nil, not %v", x.AssertedType))
		}
		ex.rtPanic(fmt.Sprintf("interface conversion: interface {} is %v, not %v", iv.t, x.AssertedType))
	}
	return res
}

func (ex *Exec) stackStr() string {
	var sb strings.Builder
	for f := ex.frame; f != nil; f = f.caller {
		fmt.Fprintf(&sb, "   in %s (%s)\n", f.fn.String(), ex.posStr(ex.curPos))
	}
	return sb.String()
}
