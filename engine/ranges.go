package main

// Cheap interval reasoning used before calling a solver: ranges of input variables
// learnt from assumptions / decided branches; a branch condition that is decided by
// interval arithmetic alone needs no query.

type urange struct{ lo, hi uint64 }

func (ex *Exec) rangeOf(t *Term) urange {
	m := mask(t.w)
	switch t.op {
	case OConst:
		return urange{t.val, t.val}
	case OVar:
		if r, ok := ex.ranges[t.id]; ok {
			return r
		}
	case OZExt:
		return ex.rangeOf(t.args[0])
	case OSExt:
		r := ex.rangeOf(t.args[0])
		if r.hi < uint64(1)<<(t.args[0].w-1) {
			return r
		}
	case OExtract:
		if t.val&0xff == 0 {
			r := ex.rangeOf(t.args[0])
			if r.hi <= m {
				return r
			}
		}
	case OAdd:
		a, b := ex.rangeOf(t.args[0]), ex.rangeOf(t.args[1])
		if a.hi <= m && b.hi <= m-a.hi {
			return urange{a.lo + b.lo, a.hi + b.hi}
		}
	case OIte:
		a, b := ex.rangeOf(t.args[1]), ex.rangeOf(t.args[2])
		if b.lo < a.lo {
			a.lo = b.lo
		}
		if b.hi > a.hi {
			a.hi = b.hi
		}
		return a
	case OURem, OBAnd, OUDiv:
		return urange{0, ubound(t)}
	}
	return urange{0, m}
}

// signedRange converts an unsigned interval that does not cross the sign boundary.
func signedRange(r urange, w uint8) (lo, hi int64, ok bool) {
	half := uint64(1) << (w - 1)
	switch {
	case r.hi < half:
		return int64(r.lo), int64(r.hi), true
	case r.lo >= half:
		return sext64(r.lo, w), sext64(r.hi, w), true
	}
	return 0, 0, false
}

// quickDecide: is the Bool term decided by intervals?
func (ex *Exec) quickDecide(c *Term) (val bool, known bool) {
	switch c.op {
	case OConst:
		return c.val != 0, true
	case ONot:
		v, k := ex.quickDecide(c.args[0])
		return !v, k
	case OAnd:
		v1, k1 := ex.quickDecide(c.args[0])
		v2, k2 := ex.quickDecide(c.args[1])
		if k1 && !v1 || k2 && !v2 {
			return false, true
		}
		if k1 && k2 {
			return true, true
		}
	case OOr:
		v1, k1 := ex.quickDecide(c.args[0])
		v2, k2 := ex.quickDecide(c.args[1])
		if k1 && v1 || k2 && v2 {
			return true, true
		}
		if k1 && k2 {
			return false, true
		}
	case OEq:
		if c.args[0].w == 0 {
			return false, false
		}
		a, b := ex.rangeOf(c.args[0]), ex.rangeOf(c.args[1])
		if a.hi < b.lo || b.hi < a.lo {
			return false, true
		}
		if a.lo == a.hi && b.lo == b.hi && a.lo == b.lo {
			return true, true
		}
	case OUlt, OUle:
		a, b := ex.rangeOf(c.args[0]), ex.rangeOf(c.args[1])
		if c.op == OUlt {
			if a.hi < b.lo {
				return true, true
			}
			if a.lo >= b.hi {
				return false, true
			}
		} else {
			if a.hi <= b.lo {
				return true, true
			}
			if a.lo > b.hi {
				return false, true
			}
		}
	case OSlt, OSle:
		w := c.args[0].w
		al, ah, ok1 := signedRange(ex.rangeOf(c.args[0]), w)
		bl, bh, ok2 := signedRange(ex.rangeOf(c.args[1]), w)
		if !ok1 || !ok2 {
			return false, false
		}
		if c.op == OSlt {
			if ah < bl {
				return true, true
			}
			if al >= bh {
				return false, true
			}
		} else {
			if ah <= bl {
				return true, true
			}
			if al > bh {
				return false, true
			}
		}
	}
	return false, false
}

func (ex *Exec) setRange(v *Term, lo, hi uint64) {
	r, ok := ex.ranges[v.id]
	if !ok {
		r = urange{0, mask(v.w)}
	}
	if lo > r.lo {
		r.lo = lo
	}
	if hi < r.hi {
		r.hi = hi
	}
	if r.lo <= r.hi {
		ex.ranges[v.id] = r
	}
}

// learn narrows variable ranges from a constraint that now holds on the path.
func (ex *Exec) learn(c *Term) {
	switch c.op {
	case OAnd:
		ex.learn(c.args[0])
		ex.learn(c.args[1])
	case OUle, OUlt:
		a, b := c.args[0], c.args[1]
		d := uint64(0)
		if c.op == OUlt {
			d = 1
		}
		if a.op == OConst && b.op == OVar {
			ex.setRange(b, a.val+d, mask(b.w))
		} else if b.op == OConst && a.op == OVar && b.val >= d {
			ex.setRange(a, 0, b.val-d)
		}
	case OSle, OSlt:
		a, b := c.args[0], c.args[1]
		d := uint64(0)
		if c.op == OSlt {
			d = 1
		}
		half := uint64(1) << (a.w - 1)
		if a.op == OConst && b.op == OVar && a.val < half {
			// k <= v (signed, k >= 0)  =>  v in [k, 2^(w-1)-1]
			ex.setRange(b, a.val+d, half-1)
		} else if b.op == OConst && a.op == OVar && b.val < half && b.val >= d {
			// v <= k with k >= 0: only useful when v is already known non-negative
			if r, ok := ex.ranges[a.id]; ok && r.hi < half {
				ex.setRange(a, 0, b.val-d)
			}
		}
	case OEq:
		a, b := c.args[0], c.args[1]
		if a.op == OConst && b.op == OVar {
			ex.setRange(b, a.val, a.val)
		} else if b.op == OConst && a.op == OVar {
			ex.setRange(a, b.val, b.val)
		}
	}
}
