package main

import (
	"encoding/json"
	"flag"
	"fmt"
	"go/ast"
	"go/parser"
	"go/token"
	"os"
	"path/filepath"
	"regexp"
	"sort"
	"strconv"
	"strings"
	"sync"
	"time"

	"golang.org/x/tools/go/packages"
	"golang.org/x/tools/go/ssa"
	"golang.org/x/tools/go/ssa/ssautil"
)

const repoMod = "github.com/whatap/golib"

var (
	repoDir  = "/repo"
	verifDir = "/verif"
)

type HarnessFile struct {
	Path    string // /verif/harness/C01/x.go
	Dir     string // repo-relative package dir
	Virtual string // /repo/<dir>/zz_verif_C01_x.go
	Src     []byte
	Funcs   []HarnessFunc
	PkgName string
	Stubs   [][2]string // (repo function full name, zzvf function) pairs
	GoRun   []string    // `//vf:go <substring>`: go statements run as cooperative coroutines
	Imports []ImportRw  // `//vf:import <pkgdir> <from> <to> native|both`
}

// ImportRw substitutes an environment package for a standard-library import in every
// non-test file of one repo package (overlay copies regenerated from /repo's current
// source): natively only ("native": crash-injecting wrapper around the real os) or in
// both the symbolic load and the native replay ("both": in-memory network model).
type ImportRw struct {
	Dir, From, To string
	Both          bool
}

type HarnessFunc struct {
	Name string
	Dirs map[string]string // directives
}

var dirRe = regexp.MustCompile(`(?m)^//vf:dir\s+(\S+)`)
var importRe = regexp.MustCompile(`(?m)^//vf:import\s+(\S+)\s+(\S+)\s+(\S+)\s+(native|both)`)
var goRunRe = regexp.MustCompile(`(?m)^//vf:go\s+(\S+)`)
var stubRe = regexp.MustCompile(`(?m)^//vf:stub\s+(\S+)\s+(\S+)`)
var useRe = regexp.MustCompile(`(?m)^//vf:use\s+(\S+)`)

func loadHarnessFiles(prop string) ([]*HarnessFile, error) {
	files, _ := filepath.Glob(filepath.Join(verifDir, "harness", prop, "*.go"))
	sort.Strings(files)
	var out []*HarnessFile
	seenUse := map[string]bool{}
	for i := 0; i < len(files); i++ {
		f := files[i]
		if src, err := os.ReadFile(f); err == nil {
			for _, m := range useRe.FindAllSubmatch(src, -1) {
				u := filepath.Join(verifDir, "harness", "shared", string(m[1]))
				if !seenUse[u] {
					seenUse[u] = true
					files = append(files, u)
				}
			}
		}
	}
	for _, f := range files {
		src, err := os.ReadFile(f)
		if err != nil {
			return nil, err
		}
		m := dirRe.FindSubmatch(src)
		if m == nil {
			return nil, fmt.Errorf("%s: missing //vf:dir directive", f)
		}
		hf := &HarnessFile{Path: f, Dir: string(m[1]), Src: src}
		hf.Virtual = filepath.Join(repoDir, hf.Dir, "zz_verif_"+prop+"_"+filepath.Base(f))
		if strings.Contains(f, "/harness/shared/") {
			hf.Virtual = filepath.Join(repoDir, hf.Dir, "zz_verif_shared_"+filepath.Base(f))
		}
		fset := token.NewFileSet()
		af, err := parser.ParseFile(fset, f, src, parser.ParseComments)
		if err != nil {
			return nil, err
		}
		hf.PkgName = af.Name.Name
		for _, m := range stubRe.FindAllSubmatch(src, -1) {
			hf.Stubs = append(hf.Stubs, [2]string{string(m[1]), string(m[2])})
		}
		for _, m := range goRunRe.FindAllSubmatch(src, -1) {
			hf.GoRun = append(hf.GoRun, string(m[1]))
		}
		for _, m := range importRe.FindAllSubmatch(src, -1) {
			hf.Imports = append(hf.Imports, ImportRw{Dir: string(m[1]), From: string(m[2]), To: string(m[3]), Both: string(m[4]) == "both"})
		}
		for _, d := range af.Decls {
			fd, ok := d.(*ast.FuncDecl)
			if !ok || fd.Recv != nil || !strings.HasPrefix(fd.Name.Name, "ZZ_"+prop+"_") {
				continue
			}
			h := HarnessFunc{Name: fd.Name.Name, Dirs: map[string]string{}}
			if fd.Doc != nil {
				for _, c := range fd.Doc.List {
					if strings.HasPrefix(c.Text, "//vf:") {
						for _, kv := range strings.Fields(strings.TrimPrefix(c.Text, "//vf:")) {
							if i := strings.Index(kv, "="); i > 0 {
								h.Dirs[kv[:i]] = kv[i+1:]
							} else {
								h.Dirs[kv] = "1"
							}
						}
					}
				}
			}
			hf.Funcs = append(hf.Funcs, h)
		}
		out = append(out, hf)
	}
	return out, nil
}

func goEnv() []string {
	env := os.Environ()
	env = append(env, "GOFLAGS=-mod=mod", "GOPROXY=off", "GOSUMDB=off", "GOTOOLCHAIN=local", "GOWORK=off")
	return env
}

// zzvfFiles maps the virtual location (under /repo/zzvf) of every file of the harness
// library (package zzvf and its sub-packages) to its real location under /verif/harness/zzvf.
func zzvfFiles() map[string]string {
	out := map[string]string{}
	root := filepath.Join(verifDir, "harness", "zzvf")
	filepath.Walk(root, func(p string, fi os.FileInfo, err error) error {
		if err == nil && !fi.IsDir() && strings.HasSuffix(p, ".go") {
			rel, _ := filepath.Rel(root, p)
			out[filepath.Join(repoDir, "zzvf", rel)] = p
		}
		return nil
	})
	return out
}

func overlayMap(hfs []*HarnessFile) (map[string][]byte, error) {
	ov := map[string][]byte{}
	for virt, real := range zzvfFiles() {
		b, err := os.ReadFile(real)
		if err != nil {
			return nil, err
		}
		ov[virt] = b
	}
	for _, h := range hfs {
		ov[h.Virtual] = h.Src
	}
	for _, h := range hfs {
		for _, rw := range h.Imports {
			if !rw.Both {
				continue
			}
			files, err := repoGoFiles(rw.Dir)
			if err != nil {
				return nil, err
			}
			for _, f := range files {
				src, ok := ov[f]
				if !ok {
					if src, err = os.ReadFile(f); err != nil {
						return nil, err
					}
				}
				if out, changed := rewriteImport(src, rw.From, rw.To); changed {
					ov[f] = out
				}
			}
		}
	}
	return ov, nil
}

func repoGoFiles(dir string) ([]string, error) {
	es, err := os.ReadDir(filepath.Join(repoDir, dir))
	if err != nil {
		return nil, err
	}
	var out []string
	for _, e := range es {
		n := e.Name()
		if !e.IsDir() && strings.HasSuffix(n, ".go") && !strings.HasSuffix(n, "_test.go") && !strings.HasPrefix(n, "zz_") {
			out = append(out, filepath.Join(repoDir, dir, n))
		}
	}
	return out, nil
}

// rewriteImport replaces the import of path `from` by `to`, keeping the local name the
// file uses for it (the last element of `from` unless the file names it itself).
func rewriteImport(src []byte, from, to string) ([]byte, bool) {
	fset := token.NewFileSet()
	af, err := parser.ParseFile(fset, "", src, parser.ImportsOnly)
	if err != nil {
		return src, false
	}
	for _, im := range af.Imports {
		if im.Path.Value != strconv.Quote(from) {
			continue
		}
		lo, hi := fset.Position(im.Pos()).Offset, fset.Position(im.End()).Offset
		name := from[strings.LastIndex(from, "/")+1:]
		if im.Name != nil {
			name = im.Name.Name
		}
		out := append([]byte{}, src[:lo]...)
		out = append(out, []byte(name+" "+strconv.Quote(to))...)
		out = append(out, src[hi:]...)
		return out, true
	}
	return src, false
}

func loadProgram(hfs []*HarnessFile) (*Program, map[string]*ssa.Package, error) {
	ov, err := overlayMap(hfs)
	if err != nil {
		return nil, nil, err
	}
	dirs := map[string]bool{}
	var pats []string
	for _, h := range hfs {
		if !dirs[h.Dir] {
			dirs[h.Dir] = true
			pats = append(pats, "./"+h.Dir)
		}
	}
	fset := token.NewFileSet()
	cfg := &packages.Config{Mode: packages.LoadAllSyntax, Dir: repoDir, Overlay: ov, Env: goEnv(), Fset: fset}
	pkgs, err := packages.Load(cfg, pats...)
	if err != nil {
		return nil, nil, err
	}
	nerr := 0
	packages.Visit(pkgs, nil, func(p *packages.Package) {
		for _, e := range p.Errors {
			if strings.HasPrefix(p.PkgPath, repoMod) {
				fmt.Fprintf(os.Stderr, "load error: %s: %v\n", p.PkgPath, e)
				nerr++
			}
		}
	})
	if nerr > 0 {
		return nil, nil, fmt.Errorf("%d package load errors (does /repo build?)", nerr)
	}
	prog, spkgs := ssautil.AllPackages(pkgs, ssa.InstantiateGenerics)
	prog.Build()
	P := &Program{prog: prog, fset: fset, globals: map[*ssa.Global]*Object{}, initDone: map[*ssa.Package]bool{}, repoPrefix: repoMod}
	P.stubFns = map[string]string{}
	for _, h := range hfs {
		for _, st := range h.Stubs {
			P.stubFns[st[0]] = st[1]
		}
		P.goRun = append(P.goRun, h.GoRun...)
	}
	byDir := map[string]*ssa.Package{}
	for i, p := range pkgs {
		rel := strings.TrimPrefix(strings.TrimPrefix(p.PkgPath, repoMod), "/")
		byDir[rel] = spkgs[i]
	}
	return P, byDir, nil
}

// ---------- package initialisation ----------

var initAllowStd = map[string]bool{"errors": true, "io": true, "bytes": true, "strings": true, "strconv": true, "unicode/utf8": true, "math/bits": true, "math": true, "sort": true,
	"bufio": true, "path/filepath": true, "container/list": true, "path": true, "internal/itoa": true, "context": true, "time": true, "unicode": false, "slices": true, "cmp": true, "hash/crc32": true, "compress/flate": true, "compress/gzip": true, "encoding/binary": true}

func (P *Program) initAllowed(pkg *ssa.Package) bool {
	path := pkg.Pkg.Path()
	if strings.HasPrefix(path, repoMod) {
		return true
	}
	return initAllowStd[path]
}

func (P *Program) runInits(pkgs []*ssa.Package) {
	tc := NewTermCtx()
	ex := newExec(P, tc, nil)
	ex.initMode = true
	ex.funcs = nil
	ex.inInitOf = map[*ssa.Package]bool{}
	for _, p := range pkgs {
		P.runInit(ex, p)
	}
}

func (P *Program) runInit(ex *Exec, p *ssa.Package) {
	if P.initDone[p] {
		return
	}
	fn := p.Func("init")
	if fn == nil {
		return
	}
	// pre-create globals (zero) so that they are frozen objects
	func() {
		defer func() {
			if r := recover(); r != nil {
				var msg string
				switch x := r.(type) {
				case pathAbort:
					msg = x.kind + ": " + x.msg
				case targetPanic:
					msg = "panic: " + x.msg
				default:
					fmt.Fprintf(os.Stderr, "executor crash during init of %s: %v\n", p.Pkg.Path(), r)
					os.Exit(2)
				}
				P.initErrs = append(P.initErrs, p.Pkg.Path()+": "+msg)
			}
		}()
		ex.frame = nil
		ex.depth = 0
		ex.callFunction(fn, nil, nil, token.NoPos)
	}()
}

// ---------- check driver ----------

type KnownFindings struct {
	Open  []KF `json:"open"`
	Fixed []KF `json:"fixed"`
}
type KF struct {
	Property string `json:"property"`
	Label    string `json:"label"`
	What     string `json:"what"`
	Commit   string `json:"commit,omitempty"`
}

func loadKnown() KnownFindings {
	var k KnownFindings
	b, err := os.ReadFile(filepath.Join(verifDir, "known_findings.json"))
	if err == nil {
		json.Unmarshal(b, &k)
	}
	return k
}

func atoiDef(s string, def int) int {
	if s == "" {
		return def
	}
	n, err := strconv.Atoi(s)
	if err != nil {
		return def
	}
	return n
}

func main() {
	// the verification directory is where this binary lives (<dir>/bin/gosym): a snapshot
	// of /verif elsewhere (vp run) uses its own harnesses; /repo is always the real tree
	if exe, err := os.Executable(); err == nil {
		if d := filepath.Dir(filepath.Dir(exe)); d != "" {
			if _, err := os.Stat(filepath.Join(d, "harness", "zzvf", "vf.go")); err == nil {
				verifDir = d
			}
		}
	}
	if r := os.Getenv("VERIF_REPO"); r != "" {
		repoDir = r
	}
	if len(os.Args) < 2 {
		fmt.Fprintln(os.Stderr, "usage: gosym check|selftest|replay ...")
		os.Exit(2)
	}
	switch os.Args[1] {
	case "check":
		os.Exit(cmdCheck(os.Args[2:]))
	case "selftest":
		os.Exit(cmdSelftest(os.Args[2:]))
	case "replay":
		os.Exit(cmdReplay(os.Args[2:]))
	}
	fmt.Fprintln(os.Stderr, "unknown command")
	os.Exit(2)
}

func cmdCheck(args []string) int {
	fs := flag.NewFlagSet("check", flag.ExitOnError)
	prop := fs.String("prop", "", "property id")
	tier := fs.String("tier", "quick", "quick|thorough")
	only := fs.String("harness", "", "regexp filter on harness names")
	verbose := fs.Bool("v", false, "verbose")
	noEvidence := fs.Bool("no-evidence", false, "do not write evidence")
	workers := fs.Int("workers", 16, "worker slots")
	strict := fs.Bool("strict", false, "exit 1 on any inconclusive item (self-test)")
	fs.Parse(args)
	if t := os.Getenv("VERIF_TIER"); t != "" && !flagSet(fs, "tier") {
		*tier = t
	}
	seed, _ := strconv.Atoi(os.Getenv("VERIF_SEED"))
	t0 := time.Now()
	hfs, err := loadHarnessFiles(*prop)
	if err != nil || len(hfs) == 0 {
		fmt.Fprintf(os.Stderr, "no harnesses for %s: %v\n", *prop, err)
		return 2
	}
	P, byDir, err := loadProgram(hfs)
	if err != nil {
		fmt.Fprintf(os.Stderr, "cannot load /repo: %v\n", err)
		return 2
	}
	tLoad := time.Since(t0)
	var initPkgs []*ssa.Package
	for _, h := range hfs {
		if p := byDir[h.Dir]; p != nil {
			initPkgs = append(initPkgs, p)
		}
	}
	P.runInits(initPkgs)
	for _, e := range P.initErrs {
		fmt.Printf("INIT-WARNING %s\n", e)
	}
	tInit := time.Since(t0) - tLoad

	var filter *regexp.Regexp
	if *only != "" {
		filter = regexp.MustCompile(*only)
	}
	var jobs []*Job
	for _, h := range hfs {
		pkg := byDir[h.Dir]
		if pkg == nil {
			fmt.Fprintf(os.Stderr, "package %s not loaded\n", h.Dir)
			return 2
		}
		for _, f := range h.Funcs {
			if filter != nil && !filter.MatchString(f.Name) {
				continue
			}
			if f.Dirs["tier"] == "thorough" && *tier != "thorough" {
				continue
			}
			fn := pkg.Func(f.Name)
			if fn == nil {
				fmt.Fprintf(os.Stderr, "harness %s not found in SSA\n", f.Name)
				return 2
			}
			cfg := JobCfg{MaxPaths: 20000, MaxSteps: 3000000, MaxVisits: 600, MaxFan: 64, QTimeout: 5 * time.Second, Solvers: []string{"z3new", "cvc5int", "z3"}, Workers: 8, Witnesses: 1, Tier: *tier, Deadline: 240 * time.Second}
			if *tier == "thorough" {
				cfg.MaxPaths = 400000
				cfg.QTimeout = 30 * time.Second
				cfg.Confirm = true
				cfg.Witnesses = 3
				cfg.MaxSteps = 20000000
				cfg.Deadline = 40 * time.Minute
			}
			d := f.Dirs
			if *tier == "thorough" {
				for k, v := range f.Dirs {
					if strings.HasPrefix(k, "t.") {
						d[k[2:]] = v
					}
				}
			}
			cfg.MaxPaths = atoiDef(d["paths"], cfg.MaxPaths)
			cfg.MaxSteps = int64(atoiDef(d["steps"], int(cfg.MaxSteps)))
			cfg.MaxVisits = atoiDef(d["visits"], cfg.MaxVisits)
			cfg.MaxFan = atoiDef(d["fan"], cfg.MaxFan)
			cfg.Cut = atoiDef(d["cut"], 0)
			cfg.Witnesses = atoiDef(d["witnesses"], cfg.Witnesses)
			if s := d["deadline"]; s != "" {
				if dd, err := time.ParseDuration(s); err == nil {
					cfg.Deadline = dd
				}
			}
			if s := d["solvers"]; s != "" {
				cfg.Solvers = strings.Split(s, ",")
			}
			if s := d["qtimeout"]; s != "" {
				if dd, err := time.ParseDuration(s); err == nil {
					cfg.QTimeout = dd
				}
			}
			j := NewJob(P, *prop, f.Name, h.Dir, fn, cfg)
			j.NoStub = d["nostub"] // this harness runs the real functions that other harnesses of the property stub ("1": all, else: those whose name contains the value)
			jobs = append(jobs, j)
		}
	}
	if len(jobs) == 0 {
		fmt.Fprintln(os.Stderr, "no harness selected")
		return 2
	}
	// run jobs: a few concurrently, path executions limited by global slots
	slots = make(chan struct{}, *workers)
	var wg sync.WaitGroup
	jobSem := make(chan struct{}, 4)
	// VERIF_SEED permutes job order only
	if seed != 0 {
		for i := range jobs {
			k := (i*7919 + seed) % len(jobs)
			if k < 0 {
				k = -k
			}
			jobs[i], jobs[k] = jobs[k], jobs[i]
		}
	}
	for _, j := range jobs {
		wg.Add(1)
		jobSem <- struct{}{}
		go func(j *Job) {
			defer wg.Done()
			defer func() { <-jobSem }()
			j.Run()
			if *verbose {
				fmt.Printf("  job %s: paths=%d completed=%d steps=%d ends=%v wall=%.1fs queries=%v\n", j.Name, j.Paths, j.Completed, j.Steps, j.Ends, j.Wall, j.Solver.Queries)
			}
		}(j)
	}
	wg.Wait()
	tRun := time.Since(t0) - tLoad - tInit

	rep := newReplayer(*prop, *tier, hfs)
	rep.P = P
	defer rep.cleanup()
	strictMode = *strict || *prop == "SELF"
	code := report(*prop, *tier, seed, jobs, rep, P, time.Since(t0), !*noEvidence, *verbose, map[string]float64{"load_s": tLoad.Seconds(), "init_s": tInit.Seconds(), "explore_s": tRun.Seconds()})
	return code
}

var slots chan struct{}
var strictMode bool

func flagSet(fs *flag.FlagSet, name string) bool {
	found := false
	fs.Visit(func(f *flag.Flag) {
		if f.Name == name {
			found = true
		}
	})
	return found
}
