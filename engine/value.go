package main

// Executor values.
//
//   *Term            bool / integer / float scalars (floats as IEEE bit patterns)
//   *StrV            string (immutable; bytes possibly symbolic)
//   Ptr              pointer to a heap cell (object + path)
//   *StructV, *ArrV  aggregates (value semantics: copied on load/store)
//   SliceV           (array pointer, off, len, cap)
//   IfaceV           (dynamic type, value); nil interface has T == nil
//   *MapV            reference to map data held in a heap object
//   *FuncV           function / closure / bound method
//   TupleV           multiple results
//   *ChanV           channel (creation only)
//   NativeV          opaque native Go value (stdlib objects passed to modelled calls)

import (
	"fmt"
	"go/types"
	"strings"

	"golang.org/x/tools/go/ssa"
)

type Value interface{}

type StrV struct {
	s   string  // concrete content when sym == nil
	sym []*Term // 8-bit terms, len == length of string
}

func (s *StrV) Len() int {
	if s.sym != nil {
		return len(s.sym)
	}
	return len(s.s)
}
func (s *StrV) Concrete() bool { return s.sym == nil }

type Object struct {
	id     int
	val    Value
	typ    types.Type
	frozen bool // belongs to the shared post-init global heap
	label  string
}

type Ptr struct {
	obj  *Object
	path []int
	sym  *Term // symbolic final index (scalar cells only); nil otherwise
	symN int   // number of elements the symbolic index ranges over
}

func (p Ptr) IsNil() bool { return p.obj == nil }

type StructV struct{ f []Value }
type ArrV struct{ e []Value }

type SliceV struct {
	arr Ptr // pointer to an ArrV cell; arr.obj == nil for nil slice
	off int
	len int
	cap int
}

type IfaceV struct {
	t types.Type
	v Value
}

type MapData struct {
	keys []Value
	vals []Value
}
type MapV struct {
	obj *Object // obj.val is *MapData; nil obj => nil map
}

type FuncV struct {
	fn   *ssa.Function
	bind []Value
	recv Value // bound method receiver (for $bound)
	builtin string
}

type TupleV []Value

type ChanV struct {
	id     int
	cap    int
	buf    []Value
	closed bool
}

type NativeV struct{ v interface{} }

func copyVal(v Value) Value {
	switch x := v.(type) {
	case *StructV:
		n := &StructV{f: make([]Value, len(x.f))}
		for i, e := range x.f {
			n.f[i] = copyVal(e)
		}
		return n
	case *ArrV:
		n := &ArrV{e: make([]Value, len(x.e))}
		for i, e := range x.e {
			n.e[i] = copyVal(e)
		}
		return n
	}
	return v
}

func isScalarType(t types.Type) bool {
	b, ok := t.Underlying().(*types.Basic)
	if !ok {
		return false
	}
	return b.Info()&(types.IsBoolean|types.IsInteger|types.IsFloat) != 0
}

func basicWidth(b *types.Basic) (w int, signed bool, float bool) {
	switch b.Kind() {
	case types.Bool, types.UntypedBool:
		return 0, false, false
	case types.Int8:
		return 8, true, false
	case types.Uint8:
		return 8, false, false
	case types.Int16:
		return 16, true, false
	case types.Uint16:
		return 16, false, false
	case types.Int32, types.UntypedRune:
		return 32, true, false
	case types.Uint32:
		return 32, false, false
	case types.Int, types.Int64, types.UntypedInt:
		return 64, true, false
	case types.Uint, types.Uint64, types.Uintptr:
		return 64, false, false
	case types.Float32:
		return 32, true, true
	case types.Float64, types.UntypedFloat:
		return 64, true, true
	}
	return -1, false, false
}

func typeWidth(t types.Type) (w int, signed bool, float bool) {
	if b, ok := t.Underlying().(*types.Basic); ok {
		return basicWidth(b)
	}
	if _, ok := t.Underlying().(*types.TypeParam); ok {
		panic("type param")
	}
	return -1, false, false
}

func (ex *Exec) zero(t types.Type) Value {
	switch u := t.Underlying().(type) {
	case *types.Basic:
		if u.Info()&types.IsString != 0 {
			return &StrV{}
		}
		if u.Kind() == types.UnsafePointer {
			return Ptr{}
		}
		if u.Kind() == types.UntypedNil || u.Kind() == types.Invalid {
			return nil // (go/ssa types a blank range key/value as invalid)
		}
		w, _, _ := basicWidth(u)
		if w < 0 {
			panic(fmt.Sprintf("zero: unsupported basic %v", u))
		}
		return ex.tc.Const(w, 0)
	case *types.Pointer:
		return Ptr{}
	case *types.Struct:
		s := &StructV{f: make([]Value, u.NumFields())}
		for i := range s.f {
			s.f[i] = ex.zero(u.Field(i).Type())
		}
		return s
	case *types.Array:
		n := int(u.Len())
		a := &ArrV{e: make([]Value, n)}
		if n > 0 {
			if isScalarType(u.Elem()) {
				z := ex.zero(u.Elem())
				for i := range a.e {
					a.e[i] = z
				}
			} else {
				for i := range a.e {
					a.e[i] = ex.zero(u.Elem())
				}
			}
		}
		return a
	case *types.Slice:
		return SliceV{}
	case *types.Interface:
		return IfaceV{}
	case *types.Map:
		return &MapV{}
	case *types.Signature:
		return (*FuncV)(nil)
	case *types.Chan:
		return (*ChanV)(nil)
	case *types.Tuple:
		tv := make(TupleV, u.Len())
		for i := range tv {
			tv[i] = ex.zero(u.At(i).Type())
		}
		return tv
	}
	panic(fmt.Sprintf("zero: unsupported type %v", t))
}

func (ex *Exec) concStr(s string) *StrV { return &StrV{s: s} }

// strBytes returns the byte terms of a string.
func (ex *Exec) strBytes(s *StrV) []*Term {
	if s.sym != nil {
		return s.sym
	}
	out := make([]*Term, len(s.s))
	for i := 0; i < len(s.s); i++ {
		out[i] = ex.tc.Const(8, uint64(s.s[i]))
	}
	return out
}

func (ex *Exec) mkStr(bs []*Term) *StrV {
	conc := true
	for _, b := range bs {
		if !b.IsConst() {
			conc = false
			break
		}
	}
	if conc {
		var sb strings.Builder
		for _, b := range bs {
			sb.WriteByte(byte(b.val))
		}
		return &StrV{s: sb.String()}
	}
	cp := make([]*Term, len(bs))
	copy(cp, bs)
	return &StrV{sym: cp}
}

func (ex *Exec) strEq(a, b *StrV) *Term {
	if a.Len() != b.Len() {
		return ex.tc.False
	}
	if a.Concrete() && b.Concrete() {
		return ex.tc.Bool(a.s == b.s)
	}
	ab, bb := ex.strBytes(a), ex.strBytes(b)
	r := ex.tc.True
	for i := range ab {
		r = ex.tc.And(r, ex.tc.Eq(ab[i], bb[i]))
	}
	return r
}

// strLess: lexicographic a < b as a Bool term.
func (ex *Exec) strLess(a, b *StrV) *Term {
	if a.Concrete() && b.Concrete() {
		return ex.tc.Bool(a.s < b.s)
	}
	ab, bb := ex.strBytes(a), ex.strBytes(b)
	n := len(ab)
	if len(bb) < n {
		n = len(bb)
	}
	// from the end: res = len(a) < len(b)
	r := ex.tc.Bool(len(ab) < len(bb))
	for i := n - 1; i >= 0; i-- {
		r = ex.tc.Ite(ex.tc.Eq(ab[i], bb[i]), r, ex.tc.Cmp(OUlt, ab[i], bb[i]))
	}
	return r
}

func describe(v Value) string {
	switch x := v.(type) {
	case nil:
		return "<nil>"
	case *Term:
		return x.String()
	case *StrV:
		if x.Concrete() {
			return fmt.Sprintf("%q", x.s)
		}
		return fmt.Sprintf("str[%d sym]", len(x.sym))
	case Ptr:
		if x.obj == nil {
			return "nilptr"
		}
		return fmt.Sprintf("&obj%d%v", x.obj.id, x.path)
	case *StructV:
		return fmt.Sprintf("struct{%d}", len(x.f))
	case *ArrV:
		return fmt.Sprintf("arr[%d]", len(x.e))
	case SliceV:
		return fmt.Sprintf("slice(len=%d cap=%d)", x.len, x.cap)
	case IfaceV:
		if x.t == nil {
			return "iface(nil)"
		}
		return fmt.Sprintf("iface(%v: %s)", x.t, describe(x.v))
	case *MapV:
		return "map"
	case *FuncV:
		if x == nil {
			return "func(nil)"
		}
		if x.fn != nil {
			return "func " + x.fn.String()
		}
		return "builtin " + x.builtin
	case TupleV:
		return fmt.Sprintf("tuple%d", len(x))
	}
	return fmt.Sprintf("%T", v)
}
