package main

// Ghost state: locks, condition variables, lockset recording, allocation monitor,
// structural equality (zzvf.Same), dependency test (zzvf.DependsOn), loop-head havoc.

import (
	"fmt"
	"go/token"
	"go/types"
	"sort"
	"strings"

	"golang.org/x/tools/go/ssa"
)

func (ex *Exec) cellName(p Ptr) string {
	if p.obj == nil {
		return "nil"
	}
	var sb strings.Builder
	fmt.Fprintf(&sb, "o%d", p.obj.id)
	for _, i := range p.path {
		fmt.Fprintf(&sb, ".%d", i)
	}
	if p.sym != nil {
		sb.WriteString(".*")
	}
	return sb.String()
}

func (ex *Exec) event(s string) {
	ex.events = append(ex.events, s)
}

func (ex *Exec) deadlock(what string, site token.Pos) {
	label := "deadlock"
	if len(ex.guardLabel) > 0 {
		label = ex.guardLabel[len(ex.guardLabel)-1]
	}
	panic(pathAbort{kind: "deadlock", msg: label + "\x00" + what + " @" + ex.posStr(site)})
}

func (ex *Exec) lock(p Ptr, read bool, site token.Pos) {
	if p.obj == nil {
		ex.rtPanic("invalid memory address or nil pointer dereference")
	}
	k := ex.cellName(p)
	if read {
		if ex.locks[k] > 0 {
			ex.deadlock("RLock of a mutex write-locked by the same goroutine", site)
		}
		ex.rlocks[k]++
		ex.event("rlock " + k)
		return
	}
	if ex.locks[k] > 0 || ex.rlocks[k] > 0 {
		ex.deadlock("Lock of a mutex already held by the same goroutine", site)
	}
	ex.locks[k] = 1
	ex.event("lock " + k)
}

func (ex *Exec) tryLock(p Ptr) bool {
	k := ex.cellName(p)
	if ex.locks[k] > 0 || ex.rlocks[k] > 0 {
		return false
	}
	ex.locks[k] = 1
	ex.event("lock " + k)
	return true
}

func (ex *Exec) unlock(p Ptr, read bool, site token.Pos) {
	if p.obj == nil {
		ex.rtPanic("invalid memory address or nil pointer dereference")
	}
	k := ex.cellName(p)
	if read {
		if ex.rlocks[k] == 0 {
			panic(pathAbort{kind: "fatal", msg: "sync: RUnlock of unlocked RWMutex @" + ex.posStr(site)})
		}
		ex.rlocks[k]--
		ex.event("runlock " + k)
		return
	}
	if ex.locks[k] == 0 {
		panic(pathAbort{kind: "fatal", msg: "sync: unlock of unlocked mutex @" + ex.posStr(site)})
	}
	delete(ex.locks, k)
	ex.event("unlock " + k)
}

func (ex *Exec) snapshotLocks() map[string]int {
	m := map[string]int{}
	for k, v := range ex.locks {
		m[k] = v
	}
	return m
}

// condWait: sync.Cond.Wait on the single logical thread. The Locker L (field 1 of
// sync.Cond) must be held; it is released while "another thread" (the harness's OnWait
// closure, if any) runs, and re-acquired before returning. Without a waiter budget the
// path ends as blocked.
func (ex *Exec) condWait(c Ptr, site token.Pos) {
	ex.event("wait " + ex.cellName(c))
	lv := ex.load(extendPath(c, 1)).(IfaceV) // L Locker
	lp, _ := lv.v.(Ptr)
	k := ex.cellName(lp)
	if ex.locks[k] == 0 {
		panic(pathAbort{kind: "fatal", msg: "sync: Cond.Wait without holding L @" + ex.posStr(site)})
	}
	if ex.waitBudget <= 0 {
		panic(pathAbort{kind: "blocked", msg: "Cond.Wait with no other thread to signal @" + ex.posStr(site)})
	}
	ex.waitBudget--
	delete(ex.locks, k)
	ex.event("unlock " + k)
	if ex.onWait != nil {
		f := ex.onWait
		ex.callValue(f, nil, site)
	}
	if ex.locks[k] > 0 {
		ex.deadlock("Cond.Wait cannot re-acquire L", site)
	}
	ex.locks[k] = 1
	ex.event("lock " + k)
}

func (ex *Exec) sleep(d *Term) {
	if ex.clockExact {
		// exact clock: a sleep advances the clock by exactly its (concrete) duration
		if !d.IsConst() {
			ex.unsupported("exact clock: time.Sleep of a symbolic duration")
		}
		if ms := sext64(d.val, 64) / 1000000; ms > 0 {
			ex.clock = ex.tc.Bin(OAdd, ex.clock, ex.tc.Const(64, uint64(ms)))
		}
		ex.event("sleep")
		return
	}
	if ex.sleepWeak {
		ex.event("sleep")
		return
	}
	if ex.clock == nil {
		ex.clock = ex.tc.Const(64, 0)
	}
	// d is in nanoseconds (time.Duration); the virtual clock is in milliseconds. The next
	// ClockNow() must return at least clock + d: no input is created here, so the native
	// twin (which really sleeps) consumes the same input sequence.
	var ms *Term
	if d.op == OMul && d.args[1].IsConst() && d.args[1].val == 1000000 {
		ms = d.args[0] // x * time.Millisecond (assumed not to overflow int64)
	} else if d.op == OMul && d.args[0].IsConst() && d.args[0].val == 1000000 {
		ms = d.args[1]
	} else {
		ms = ex.tc.Bin(OSDiv, d, ex.tc.Const(64, 1000000))
	}
	pos := ex.tc.Cmp(OSlt, ex.tc.Const(64, 0), ms)
	ms = ex.tc.Ite(pos, ms, ex.tc.Const(64, 0))
	base := ex.clock
	if ex.clockMin != nil {
		base = ex.clockMin
	}
	ex.clockMin = ex.tc.Bin(OAdd, base, ms)
	ex.event("sleep")
}

// ---------- lockset recording ----------

func (ex *Exec) heldLocks() string {
	var ls []string
	for k := range ex.locks {
		ls = append(ls, "W:"+k)
	}
	for k, n := range ex.rlocks {
		if n > 0 {
			ls = append(ls, "R:"+k)
		}
	}
	sort.Strings(ls)
	return strings.Join(ls, ",")
}

func (ex *Exec) recordAccess(p Ptr, write bool) {
	if !ex.recording {
		return
	}
	// RacePair: only cells that existed before the pair started are shared state
	if ex.raceMark > 0 && p.obj != nil && !p.obj.frozen && p.obj.id > ex.raceMark {
		return
	}
	ex.accesses = append(ex.accesses, accessRec{tag: ex.recTag, cell: ex.cellName(p), write: write, locks: ex.heldLocks(), pos: ex.curPos})
}

func protected(la, lb string) bool {
	as, bs := strings.Split(la, ","), strings.Split(lb, ",")
	for _, a := range as {
		if a == "" {
			continue
		}
		for _, b := range bs {
			if b == "" {
				continue
			}
			if a[2:] == b[2:] && (a[0] == 'W' || b[0] == 'W') {
				return true
			}
		}
	}
	return false
}

func (ex *Exec) conflicts(ta, tb string) (bool, string) {
	c, cell, _ := ex.conflictsSide(ta, tb)
	return c, cell
}

// conflictsSide also reports which side accessed the cell without any lock:
// "A", "B" or "AB" (both unlocked, or both locked with disjoint locks).
func (ex *Exec) conflictsSide(ta, tb string) (bool, string, string) {
	type acc struct {
		write bool
		locks string
		pos   token.Pos
	}
	byCell := map[string][]acc{}
	for _, a := range ex.accesses {
		if a.tag == ta {
			byCell[a.cell] = append(byCell[a.cell], acc{a.write, a.locks, a.pos})
		}
	}
	for _, b := range ex.accesses {
		if b.tag != tb {
			continue
		}
		for _, a := range byCell[b.cell] {
			if (a.write || b.write) && !protected(a.locks, b.locks) {
				side := "AB"
				switch {
				case a.locks == "" && b.locks != "":
					side = "A"
				case b.locks == "" && a.locks != "":
					side = "B"
				}
				return true, fmt.Sprintf("%s: %s[%s]{%s} vs %s[%s]{%s}", b.cell, ex.posStr(a.pos), rw(a.write), a.locks, ex.posStr(b.pos), rw(b.write), b.locks), side
			}
		}
	}
	return false, "", ""
}

func rw(w bool) string {
	if w {
		return "write"
	}
	return "read"
}

// ---------- allocation monitor ----------

var stdSizes = types.StdSizes{WordSize: 8, MaxAlign: 8}

func (ex *Exec) checkAlloc(size *Term, elem types.Type, pos token.Pos) {
	if !ex.allocOn {
		return
	}
	esz := stdSizes.Sizeof(elem)
	if esz <= 0 {
		esz = 1
	}
	budget := (ex.allocK*ex.allocLen + ex.allocC) / esz
	over := ex.tc.Cmp(OSlt, ex.tc.Const(int(size.w), uint64(budget)), size)
	fn := "?"
	if ex.frame != nil {
		fn = ex.frame.fn.String()
	}
	label := "alloc-bounded-by-input@" + fn
	// prefer a witness with a large allocation (>= 16 Mi elements/bytes): natively observable
	// (4 Mi .. 16 Mi elements: really allocated by the Go runtime, not refused by makeslice)
	big := ex.tc.And(ex.tc.Cmp(OSlt, ex.tc.Const(int(size.w), 1<<22), size), ex.tc.Cmp(OSle, size, ex.tc.Const(int(size.w), 1<<24)))
	ex.obligation(ex.tc.Not(big), label, "alloc", pos)
	ex.obligation(ex.tc.Not(over), label, "alloc", pos)
	// continuation: sizes above len(input)+2 are checked for the allocation bound only;
	// their continuation is cut (stated in the evidence)
	cap := ex.allocLen + 2
	ex.assume(ex.tc.Cmp(OSle, size, ex.tc.Const(int(size.w), uint64(cap))), fmt.Sprintf("after the allocation-bound check, make sizes above len(input)+2 are not explored further"))
}

// ---------- loop-head havoc ----------

func (ex *Exec) maybeHavoc(fr *Frame, phi *ssa.Phi) {
	name := strings.TrimPrefix(phi.Comment, "#")
	if name == "" {
		return
	}
	key := fr.fn.String() + "#" + name
	if !ex.havocs[key] {
		return
	}
	if fr.havoced == nil {
		fr.havoced = map[*ssa.Phi]bool{}
	}
	if fr.havoced[phi] {
		return
	}
	fr.havoced[phi] = true
	w, _, _ := typeWidth(phi.Type())
	if w <= 0 {
		ex.unsupported("havoc of non-scalar loop variable %s", name)
	}
	if t, ok := ex.havocVals[key]; ok {
		ex.set(fr, phi, ex.tc.Resize(t, w, false))
		return
	}
	ex.set(fr, phi, ex.fresh("hv", w))
}

// ---------- zzvf.Same ----------

func (ex *Exec) same(a, b Value, except map[string]bool) *Term {
	ia, ok1 := a.(IfaceV)
	ib, ok2 := b.(IfaceV)
	if !ok1 || !ok2 {
		ex.unsupported("Same on non-interface arguments")
	}
	seen := map[string]bool{}
	return ex.sameIface(ia, ib, seen, except)
}

func (ex *Exec) sameIface(a, b IfaceV, seen map[string]bool, except map[string]bool) *Term {
	if a.t == nil || b.t == nil {
		return ex.tc.Bool(a.t == nil && b.t == nil)
	}
	if a.t == rtErrType || b.t == rtErrType {
		return ex.tc.Bool(a.t == b.t)
	}
	if !types.Identical(a.t, b.t) {
		return ex.tc.False
	}
	return ex.sameT(a.t, a.v, b.v, seen, except)
}

func (ex *Exec) sameT(t types.Type, a, b Value, seen map[string]bool, except map[string]bool) *Term {
	tc := ex.tc
	switch u := t.Underlying().(type) {
	case *types.Basic:
		if u.Info()&types.IsString != 0 {
			return ex.strEq(a.(*StrV), b.(*StrV))
		}
		if u.Kind() == types.UnsafePointer {
			return tc.True
		}
		return tc.Eq(a.(*Term), b.(*Term))
	case *types.Pointer:
		pa, pb := a.(Ptr), b.(Ptr)
		if pa.obj == nil || pb.obj == nil {
			return tc.Bool(pa.obj == nil && pb.obj == nil)
		}
		k := ex.cellName(pa) + "|" + ex.cellName(pb)
		if seen[k] {
			return tc.True
		}
		seen[k] = true
		return ex.sameT(u.Elem(), ex.load(pa), ex.load(pb), seen, except)
	case *types.Struct:
		sa, sb := a.(*StructV), b.(*StructV)
		r := tc.True
		for i := 0; i < u.NumFields(); i++ {
			if except[u.Field(i).Name()] {
				continue
			}
			r = tc.And(r, ex.sameT(u.Field(i).Type(), sa.f[i], sb.f[i], seen, except))
			if r == tc.False {
				return r
			}
		}
		return r
	case *types.Array:
		aa, ab := a.(*ArrV), b.(*ArrV)
		r := tc.True
		for i := range aa.e {
			r = tc.And(r, ex.sameT(u.Elem(), aa.e[i], ab.e[i], seen, except))
		}
		return r
	case *types.Slice:
		sa, sb := a.(SliceV), b.(SliceV)
		if sa.len != sb.len {
			return tc.False
		}
		r := tc.True
		for i := 0; i < sa.len; i++ {
			r = tc.And(r, ex.sameT(u.Elem(), ex.sliceGet(sa, i), ex.sliceGet(sb, i), seen, except))
			if r == tc.False {
				return r
			}
		}
		return r
	case *types.Map:
		ma, mb := a.(*MapV), b.(*MapV)
		da, db := ex.mapData(ma, false), ex.mapData(mb, false)
		if len(da.keys) != len(db.keys) {
			return tc.False
		}
		r := tc.True
		for i, k := range da.keys {
			found := tc.False
			for j, k2 := range db.keys {
				found = tc.Or(found, tc.And(ex.valEq(k, k2), ex.sameT(u.Elem(), da.vals[i], db.vals[j], seen, except)))
			}
			r = tc.And(r, found)
		}
		return r
	case *types.Interface:
		return ex.sameIface(a.(IfaceV), b.(IfaceV), seen, except)
	case *types.Signature, *types.Chan:
		return tc.True
	}
	ex.unsupported("Same on type %v", t)
	return nil
}

// ---------- zzvf.DependsOn ----------

func (ex *Exec) collectVars(v Value, set map[*Term]bool, seenObj map[*Object]bool) {
	switch x := v.(type) {
	case *Term:
		ex.tc.VarsOf([]*Term{x}, set)
	case *StrV:
		if x.sym != nil {
			ex.tc.VarsOf(x.sym, set)
		}
	case IfaceV:
		ex.collectVars(x.v, set, seenObj)
	case *StructV:
		for _, f := range x.f {
			ex.collectVars(f, set, seenObj)
		}
	case *ArrV:
		for _, f := range x.e {
			ex.collectVars(f, set, seenObj)
		}
	case SliceV:
		for i := 0; i < x.len; i++ {
			ex.collectVars(ex.sliceGet(x, i), set, seenObj)
		}
	case Ptr:
		if x.obj == nil || seenObj[x.obj] {
			return
		}
		seenObj[x.obj] = true
		ex.collectVars(ex.load(Ptr{obj: x.obj}), set, seenObj)
	case *MapV:
		if x == nil || x.obj == nil {
			return
		}
		d := ex.mapData(x, false)
		for i := range d.keys {
			ex.collectVars(d.keys[i], set, seenObj)
			ex.collectVars(d.vals[i], set, seenObj)
		}
	case TupleV:
		for _, f := range x {
			ex.collectVars(f, set, seenObj)
		}
	}
}

func (ex *Exec) dependsOn(bytes, v Value) bool {
	bs := map[*Term]bool{}
	ex.collectVars(bytes, bs, map[*Object]bool{})
	vs := map[*Term]bool{}
	ex.collectVars(v, vs, map[*Object]bool{})
	for t := range vs {
		if bs[t] {
			return true
		}
	}
	return false
}

// ---------- environment redirects ----------
//
// Calls of these standard-library functions are executed, under the executor, by the
// environment models of /verif/harness/zzvf/env.go (ghost file system, log.Logger model).
// The models are ordinary Go code and go through the same symbolic execution; natively
// nothing is redirected (the replay runs against the real operating system).

var redirects = map[string]string{
	"os.Stat": "GfsStat", "os.Lstat": "GfsStat", "os.IsNotExist": "GfsIsNotExist", "os.IsExist": "GfsIsExist",
	"os.Mkdir": "GfsMkdir", "os.MkdirAll": "GfsMkdirAll", "os.OpenFile": "GfsOpenFile", "os.Open": "GfsOpen", "os.Create": "GfsCreate",
	"os.Remove": "GfsRemove", "os.CreateTemp": "GfsCreateTemp", "io/ioutil.TempFile": "GfsCreateTemp", "os.Rename": "GfsRename", "os.ReadFile": "GfsReadFile", "os.WriteFile": "GfsWriteFile", "os.Chtimes": "GfsChtimes", "os.Chmod": "GfsChmod", "(*os.File).Chmod": "GFile.Chmod",
	"io/ioutil.ReadDir": "GfsReadDir", "io/ioutil.ReadFile": "GfsReadFile", "io/ioutil.WriteFile": "GfsWriteFile",
	"(*os.File).Name": "GFile.Name", "(*os.File).Write": "GFile.Write", "(*os.File).WriteString": "GFile.WriteString", "(*os.File).Read": "GFile.Read",
	"(*os.File).ReadAt": "GFile.ReadAt", "(*os.File).Seek": "GFile.Seek", "(*os.File).Truncate": "GFile.Truncate", "(*os.File).Sync": "GFile.Sync",
	"(*os.File).Close": "GFile.Close", "(*os.File).Stat": "GFile.Stat",
	"log.New": "GlogNew", "(*log.Logger).SetOutput": "GLogger.SetOutput", "(*log.Logger).SetFlags": "GLogger.SetFlags", "(*log.Logger).SetPrefix": "GLogger.SetPrefix",
	"(*log.Logger).Flags": "GLogger.Flags", "(*log.Logger).Prefix": "GLogger.Prefix", "(*log.Logger).Writer": "GLogger.Writer",
	"(*log.Logger).Println": "GLogger.Println", "(*log.Logger).Print": "GLogger.Print", "(*log.Logger).Printf": "GLogger.Printf", "(*log.Logger).Output": "GLogger.Output",
}

type redirKey struct{ fn *ssa.Function }

func (P *Program) redirectFor(fn *ssa.Function) *ssa.Function {
	if fn.Pkg == nil {
		return nil
	}
	switch fn.Pkg.Pkg.Path() {
	case "os", "io/ioutil", "log":
	default:
		return nil
	}
	if v, ok := P.finfo.Load(redirKey{fn}); ok {
		t, _ := v.(*ssa.Function)
		return t
	}
	var tgt *ssa.Function
	if name, ok := redirects[fn.String()]; ok {
		if zp := P.prog.ImportedPackage(repoMod + "/zzvf"); zp != nil {
			if i := strings.Index(name, "."); i > 0 {
				if tp := zp.Type(name[:i]); tp != nil {
					tgt = P.prog.LookupMethod(types.NewPointer(tp.Type()), zp.Pkg, name[i+1:])
				}
			} else {
				tgt = zp.Func(name)
			}
		}
	}
	if tgt == nil {
		P.finfo.Store(redirKey{fn}, false)
		return nil
	}
	P.finfo.Store(redirKey{fn}, tgt)
	return tgt
}
