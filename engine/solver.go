package main

// Solver portfolio: long-lived solver processes fed SMT-LIB2 on stdin. Every term is
// defined once per process at the base level (define-fun tN), queries are
// (push)(assert ..)(check-sat)(pop). Any "(error", "unknown" or timeout is inconclusive
// and falls through to the next solver.

import (
	"os"
	"bufio"
	"fmt"
	"io"
	"os/exec"
	"strconv"
	"strings"
	"sync/atomic"
	"time"
)

type Result int

const (
	Unsat Result = iota
	Sat
	Unknown
)

func (r Result) String() string { return [...]string{"unsat", "sat", "unknown"}[r] }

type proc struct {
	name    string
	argv    []string
	cmd     *exec.Cmd
	in      io.WriteCloser
	out     *bufio.Reader
	defined map[int32]bool
	ndef    int
	noFP    bool
	timeout time.Duration
	lines   chan string
	queries int
	wall    time.Duration
}

type SolverStats struct {
	Queries   map[string]int
	Wall      map[string]float64
	CacheHits int
	Unknowns  int
}

type Solvers struct {
	ctx     *TermCtx
	procs   []*proc
	cache   map[string]cacheEnt
	stats   SolverStats
	timeout time.Duration
	confirm bool // re-ask unsat of a second solver
	auto    bool // choose first solver by query shape
	fast    *proc
	fastMiss int
	rescues  map[string]int
	classStats map[int]*classStat
	Disagreements int
}

type cacheEnt struct {
	res Result
	m   Model
}

var solverSeq int64

func solverArgv(name string, timeoutMs int) ([]string, bool) {
	switch name {
	case "z3new":
		return []string{"z3-new", "-in", fmt.Sprintf("-t:%d", timeoutMs)}, false
	case "z3":
		return []string{"z3", "-in", fmt.Sprintf("-t:%d", timeoutMs)}, false
	case "cvc5int":
		return []string{"cvc5", "--incremental", "--produce-models", "--solve-bv-as-int=sum", fmt.Sprintf("--tlimit-per=%d", timeoutMs), "--lang=smt2"}, true
	case "cvc5":
		return []string{"cvc5", "--incremental", "--produce-models", fmt.Sprintf("--tlimit-per=%d", timeoutMs), "--lang=smt2"}, true
	}
	panic("unknown solver " + name)
}

func NewSolvers(ctx *TermCtx, order []string, timeout time.Duration, confirm bool) *Solvers {
	s := &Solvers{ctx: ctx, cache: map[string]cacheEnt{}, timeout: timeout, confirm: confirm, auto: true, rescues: map[string]int{}, classStats: map[int]*classStat{}}
	s.stats.Queries = map[string]int{}
	s.stats.Wall = map[string]float64{}
	for _, n := range order {
		argv, nofp := solverArgv(n, int(timeout/time.Millisecond))
		s.procs = append(s.procs, &proc{name: n, argv: argv, noFP: nofp, timeout: timeout})
	}
	if len(order) > 0 && order[0] == "z3new" {
		argv, _ := solverArgv("cvc5int", 300)
		s.fast = &proc{name: "cvc5int-fast", argv: argv, noFP: true, timeout: 300 * time.Millisecond}
	}
	return s
}

func (s *Solvers) Close() {
	for _, p := range s.procs {
		p.kill()
	}
	if s.fast != nil {
		s.fast.kill()
	}
}

func (p *proc) start() error {
	p.cmd = exec.Command(p.argv[0], p.argv[1:]...)
	in, err := p.cmd.StdinPipe()
	if err != nil {
		return err
	}
	out, err := p.cmd.StdoutPipe()
	if err != nil {
		return err
	}
	p.cmd.Stderr = p.cmd.Stdout
	if err := p.cmd.Start(); err != nil {
		return err
	}
	p.in = in
	p.out = bufio.NewReaderSize(out, 1<<20)
	p.defined = map[int32]bool{}
	p.ndef = 0
	p.lines = make(chan string, 1024)
	go func(r *bufio.Reader, ch chan string) {
		for {
			l, err := r.ReadString('\n')
			if l != "" {
				ch <- strings.TrimRight(l, "\r\n")
			}
			if err != nil {
				close(ch)
				return
			}
		}
	}(p.out, p.lines)
	atomic.AddInt64(&solverSeq, 1)
	fmt.Fprintln(p.in, "(set-option :produce-models true)")
	if strings.HasPrefix(p.name, "cvc5") {
		fmt.Fprintln(p.in, "(set-logic ALL)")
	}
	return nil
}

func (p *proc) kill() {
	if p.cmd != nil {
		p.in.Close()
		p.cmd.Process.Kill()
		p.cmd.Wait()
		p.cmd = nil
	}
}

// define ensures all sub-terms of ts are defined in this process; returns false if a
// term is not expressible for this solver.
func (p *proc) define(sb *strings.Builder, ts []*Term) {
	var walk func(t *Term)
	walk = func(t *Term) {
		if t.op == OConst || p.defined[t.id] {
			return
		}
		for _, a := range t.args {
			walk(a)
		}
		p.defined[t.id] = true
		p.ndef++
		if t.op == OVar {
			fmt.Fprintf(sb, "(declare-const %s %s)\n", t.name, sortOf(t.w))
			if t.ranged {
				// the declared range is part of the variable: asserted at the base level
				fmt.Fprintf(sb, "(assert (and (bvule %s %s) (bvule %s %s)))\n", constStr(t.w, t.rlo), t.name, t.name, constStr(t.w, t.rhi))
			}
			return
		}
		fmt.Fprintf(sb, "(define-fun t%d () %s %s)\n", t.id, sortOf(t.w), t.expr())
	}
	for _, t := range ts {
		walk(t)
	}
}

// readUntil reads lines until the marker; returns lines and ok=false on timeout/EOF.
func (p *proc) readUntil(marker string, d time.Duration) ([]string, bool) {
	var ls []string
	timer := time.NewTimer(d)
	defer timer.Stop()
	for {
		select {
		case l, ok := <-p.lines:
			if !ok {
				return ls, false
			}
			if l == marker || l == "\""+marker+"\"" {
				return ls, true
			}
			ls = append(ls, l)
		case <-timer.C:
			return ls, false
		}
	}
}

func (p *proc) check(asserts []*Term, vars []*Term) (Result, Model, string) {
	if p.cmd == nil {
		if err := p.start(); err != nil {
			return Unknown, nil, "start: " + err.Error()
		}
	}
	if p.ndef > 150000 {
		p.kill()
		if err := p.start(); err != nil {
			return Unknown, nil, "start: " + err.Error()
		}
	}
	var sb strings.Builder
	p.define(&sb, asserts)
	p.define(&sb, vars)
	sb.WriteString("(push 1)\n")
	for _, a := range asserts {
		fmt.Fprintf(&sb, "(assert %s)\n", a.ref())
	}
	// z3 switches to a much slower incremental core after the first push/pop; an explicit
	// tactic restores the bit-blasting pipeline (probe: CRC step 9 s -> 0.26 s)
	switch {
	case strings.HasPrefix(p.name, "z3") && hasFPTerm(asserts):
		sb.WriteString("(check-sat-using qffpbv)\n(echo \"ZZDONE\")\n")
	case strings.HasPrefix(p.name, "z3"):
		sb.WriteString("(check-sat-using qfbv)\n(echo \"ZZDONE\")\n")
	default:
		sb.WriteString("(check-sat)\n(echo \"ZZDONE\")\n")
	}
	t0 := time.Now()
	if d := os.Getenv("GOSYM_DUMP"); d != "" {
		n := atomic.AddInt64(&solverSeq, 1)
		os.WriteFile(fmt.Sprintf("%s/q%05d-%s.smt2", d, n, p.name), []byte(sb.String()), 0644)
	}
	// the write itself can block (full pipe while the solver is busy): bound it too
	werr := make(chan error, 1)
	go func(w io.Writer, txt string) {
		_, e := io.WriteString(w, txt)
		werr <- e
	}(p.in, sb.String())
	select {
	case err := <-werr:
		if err != nil {
			p.kill()
			return Unknown, nil, "write: " + err.Error()
		}
	case <-time.After(p.timeout*2 + 10*time.Second):
		p.kill()
		return Unknown, nil, "write timeout"
	}
	ls, ok := p.readUntil("ZZDONE", p.timeout*2+10*time.Second)
	p.queries++
	p.wall += time.Since(t0)
	if !ok {
		p.kill()
		return Unknown, nil, "timeout/eof " + strings.Join(ls, "|")
	}
	res := Unknown
	why := ""
	for _, l := range ls {
		switch {
		case strings.Contains(l, "(error"):
			io.WriteString(p.in, "(pop 1)\n")
			return Unknown, nil, l
		case l == "sat":
			res = Sat
		case l == "unsat":
			res = Unsat
		case l == "unknown" || l == "timeout":
			res = Unknown
			why = l
		}
	}
	var m Model
	if res == Sat && len(vars) > 0 {
		var q strings.Builder
		q.WriteString("(get-value (")
		for _, v := range vars {
			q.WriteString(v.name + " ")
		}
		q.WriteString("))\n(echo \"ZZDONE\")\n")
		io.WriteString(p.in, q.String())
		ls, ok := p.readUntil("ZZDONE", 20*time.Second)
		if !ok {
			p.kill()
			return Unknown, nil, "model timeout"
		}
		txt := strings.Join(ls, " ")
		if strings.Contains(txt, "(error") {
			io.WriteString(p.in, "(pop 1)\n")
			return Unknown, nil, txt
		}
		m = parseModel(txt)
	}
	io.WriteString(p.in, "(pop 1)\n")
	return res, m, why
}

func parseModel(txt string) Model {
	m := Model{}
	// ((v0 #x00) (v1 true) (v2 #b0101))
	f := strings.FieldsFunc(txt, func(r rune) bool { return r == '(' || r == ')' || r == ' ' || r == '\t' })
	for i := 0; i+1 < len(f); i += 2 {
		name, val := f[i], f[i+1]
		switch {
		case val == "true":
			m[name] = 1
		case val == "false":
			m[name] = 0
		case strings.HasPrefix(val, "#x"):
			v, _ := strconv.ParseUint(val[2:], 16, 64)
			m[name] = v
		case strings.HasPrefix(val, "#b"):
			v, _ := strconv.ParseUint(val[2:], 2, 64)
			m[name] = v
		case val == "_":
			// (_ bv5 32)
			if i+3 < len(f) && strings.HasPrefix(f[i+2], "bv") {
				v, _ := strconv.ParseUint(f[i+2][2:], 10, 64)
				m[name] = v
				i += 2
			}
		}
	}
	return m
}

func queryKey(asserts []*Term) string {
	ids := make([]int, len(asserts))
	for i, a := range asserts {
		ids[i] = int(a.id)
	}
	// order-insensitive
	for i := 1; i < len(ids); i++ {
		for j := i; j > 0 && ids[j] < ids[j-1]; j-- {
			ids[j], ids[j-1] = ids[j-1], ids[j]
		}
	}
	var sb strings.Builder
	for _, id := range ids {
		sb.WriteString(strconv.Itoa(id))
		sb.WriteByte(',')
	}
	return sb.String()
}

// Check decides satisfiability of the conjunction of asserts. If wantModel, a model for
// all free variables of asserts is returned for Sat.
func (s *Solvers) Check(asserts []*Term, wantModel bool) (Result, Model, string) {
	// trivial cases
	var as []*Term
	for _, a := range asserts {
		if a == s.ctx.False {
			return Unsat, nil, ""
		}
		if a != s.ctx.True {
			as = append(as, a)
		}
	}
	if len(as) == 0 {
		return Sat, Model{}, ""
	}
	key := queryKey(as)
	if e, ok := s.cache[key]; ok && (!wantModel || e.res != Sat || e.m != nil) {
		s.stats.CacheHits++
		return e.res, e.m, ""
	}
	var vars []*Term
	if wantModel {
		set := map[*Term]bool{}
		s.ctx.VarsOf(as, set)
		for _, v := range s.ctx.vars {
			if set[v] {
				vars = append(vars, v)
			}
		}
	}
	hasFP := false
	for _, a := range as {
		if a.hasFP {
			hasFP = true
		}
	}
	why := ""
	// Empirical portfolio order per query class (has bitwise ops? has mul/div?): each of the
	// first two solvers is tried first a few times, then the one with the lower mean cost
	// (time to a definite answer; a miss counts as its timeout) goes first; re-sampled
	// every 150 queries. (Probes: hmap bucket queries 43 ms bit-blasted vs 1.6 ms
	// int-blasted; CRC/shift-heavy queries the other way round.)
	procs := s.procs
	cls := 0
	for _, a := range as {
		if a.hasBit {
			cls |= 1
		}
		if a.hasDiv {
			cls |= 2
		}
	}
	st := s.classStats[cls]
	if st == nil {
		st = &classStat{}
		s.classStats[cls] = st
	}
	if !hasFP && s.auto && len(s.procs) >= 2 {
		st.n++
		first := 0
		switch {
		case st.cnt[0] < 3 || st.cnt[1] < 3:
			if st.cnt[1] < st.cnt[0] {
				first = 1
			}
		case st.n%150 == 0:
			first = 1 - st.best()
		default:
			first = st.best()
		}
		if first == 1 {
			procs = append([]*proc{s.procs[1], s.procs[0]}, s.procs[2:]...)
		}
	}
	for pi, p := range procs {
		if hasFP && p.noFP {
			continue
		}
		t0 := time.Now()
		r, m, w := p.check(as, vars)
		dt := time.Since(t0).Seconds()
		s.stats.Queries[p.name]++
		s.stats.Wall[p.name] += dt
		if pi == 0 && !hasFP && s.auto && len(s.procs) >= 2 {
			k := 0
			if p == s.procs[1] {
				k = 1
			}
			cost := dt
			if r == Unknown {
				cost = s.timeout.Seconds() * 2
			}
			st.cnt[k]++
			st.sum[k] += cost
		}
		if r == Unknown {
			why += p.name + ":" + w + "; "
			continue
		}
		if r == Unsat && s.confirm {
			for _, p2 := range s.procs {
				if p2 == p || hasFP && p2.noFP {
					continue
				}
				t1 := time.Now()
				r2, _, _ := p2.check(as, nil)
				s.stats.Queries[p2.name]++
				s.stats.Wall[p2.name] += time.Since(t1).Seconds()
				if r2 == Sat {
					s.Disagreements++
					return Unknown, nil, "solver disagreement " + p.name + "/" + p2.name
				}
				if r2 == Unsat {
					break
				}
			}
		}
		s.cache[key] = cacheEnt{r, m}
		return r, m, ""
	}
	s.stats.Unknowns++
	if d := os.Getenv("GOSYM_DUMP"); d != "" {
		var sb strings.Builder
		tmp := &proc{defined: map[int32]bool{}}
		tmp.define(&sb, as)
		for _, a := range as {
			fmt.Fprintf(&sb, "(assert %s)\n", a.ref())
		}
		sb.WriteString("(check-sat)\n")
		os.WriteFile(fmt.Sprintf("%s/unknown-%d.smt2", d, atomic.AddInt64(&solverSeq, 1)), []byte(sb.String()), 0644)
	}
	return Unknown, nil, why
}

func hasFPTerm(ts []*Term) bool {
	for _, t := range ts {
		if t.hasFP {
			return true
		}
	}
	return false
}

type classStat struct {
	n   int
	cnt [2]int
	sum [2]float64
}

func (c *classStat) best() int {
	if c.cnt[0] == 0 || c.cnt[1] == 0 {
		return 0
	}
	if c.sum[1]/float64(c.cnt[1]) < c.sum[0]/float64(c.cnt[0]) {
		return 1
	}
	return 0
}
