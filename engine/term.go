package main

// Hash-consed SMT term DAG (bit-vectors of width 1..64 and Bool) with eager constant
// folding, evaluation under a model, and SMT-LIB2 printing. Floats are carried as the
// bit-vector of their IEEE pattern; FP operators convert on demand.

import (
	"fmt"
	"math"
	"math/bits"
	"strings"
)

type Op uint8

const (
	OConst Op = iota
	OVar
	// bool
	ONot
	OAnd
	OOr
	OEq // bv,bv -> bool  (or bool,bool)
	OUlt
	OUle
	OSlt
	OSle
	// bv
	OAdd
	OSub
	OMul
	OUDiv
	OSDiv
	OURem
	OSRem
	OBAnd
	OBOr
	OBXor
	OBNot
	ONeg
	OShl
	OLShr
	OAShr
	OConcat
	OExtract // val = hi<<8|lo
	OZExt
	OSExt
	OIte
	// fp (operands / results are IEEE bit patterns)
	OFAdd
	OFSub
	OFMul
	OFDiv
	OFNeg
	OFLt
	OFLe
	OFEq
	OFIsNaN
	OSToF // signed int -> float of width w
	OUToF
	OFToS // float -> signed int of width w (RTZ)
	OFToU
	OFToF // float width change
)

var opNames = map[Op]string{OConst: "const", OVar: "var", ONot: "not", OAnd: "and", OOr: "or", OEq: "=", OUlt: "bvult", OUle: "bvule", OSlt: "bvslt", OSle: "bvsle",
	OAdd: "bvadd", OSub: "bvsub", OMul: "bvmul", OUDiv: "bvudiv", OSDiv: "bvsdiv", OURem: "bvurem", OSRem: "bvsrem", OBAnd: "bvand", OBOr: "bvor", OBXor: "bvxor", OBNot: "bvnot", ONeg: "bvneg",
	OShl: "bvshl", OLShr: "bvlshr", OAShr: "bvashr", OConcat: "concat", OExtract: "extract", OZExt: "zext", OSExt: "sext", OIte: "ite",
	OFAdd: "fp.add", OFSub: "fp.sub", OFMul: "fp.mul", OFDiv: "fp.div", OFNeg: "fp.neg", OFLt: "fp.lt", OFLe: "fp.leq", OFEq: "fp.eq", OFIsNaN: "fp.isNaN", OSToF: "stof", OUToF: "utof", OFToS: "ftos", OFToU: "ftou", OFToF: "ftof"}

// Term: w==0 means Bool sort, otherwise a bit-vector of width w.
type Term struct {
	op   Op
	w    uint8
	id   int32
	val  uint64 // const value / extract hi<<8|lo
	name string // var
	args []*Term
	hasFP bool
	hasDiv bool
	hasBit bool
	ranged bool   // variable declared with a value range (asserted once per solver process)
	rlo, rhi uint64
	rngDone bool
	sv      *Term // the only variable t depends on (nil: none); multi = true if more than one
	multi   bool
	depth   int32
	canon   *Term // result of small-domain canonicalisation (cache)
	rngLo, rngHi uint64
}

func (t *Term) IsConst() bool { return t.op == OConst }
func (t *Term) IsBool() bool  { return t.w == 0 }
func (t *Term) Width() int    { return int(t.w) }

type tkey struct {
	op      Op
	w       uint8
	val     uint64
	a, b, c int32
	name    string
}

type TermCtx struct {
	tab   map[tkey]*Term
	terms []*Term
	vars  []*Term
	True  *Term
	False *Term
	varCache map[int32][]int32
}

func NewTermCtx() *TermCtx {
	c := &TermCtx{tab: map[tkey]*Term{}, varCache: map[int32][]int32{}}
	c.True = c.mk(OConst, 0, 1, "", nil)
	c.False = c.mk(OConst, 0, 0, "", nil)
	return c
}

func (c *TermCtx) mk(op Op, w uint8, val uint64, name string, args []*Term) *Term {
	k := tkey{op: op, w: w, val: val, name: name, a: -1, b: -1, c: -1}
	if len(args) > 0 {
		k.a = args[0].id
	}
	if len(args) > 1 {
		k.b = args[1].id
	}
	if len(args) > 2 {
		k.c = args[2].id
	}
	if len(args) > 3 {
		panic("term arity")
	}
	if t, ok := c.tab[k]; ok {
		return t
	}
	t := &Term{op: op, w: w, val: val, name: name, args: args, id: int32(len(c.terms))}
	if op == OVar {
		t.sv = t
	}
	for _, a := range args {
		if a.depth+1 > t.depth {
			t.depth = a.depth + 1
		}
		if a.multi {
			t.multi = true
		} else if a.sv != nil {
			if t.sv == nil {
				t.sv = a.sv
			} else if t.sv != a.sv {
				t.multi = true
			}
		}
		if a.hasFP {
			t.hasFP = true
		}
		if a.hasDiv {
			t.hasDiv = true
		}
		if a.hasBit {
			t.hasBit = true
		}
	}
	if op >= OFAdd {
		t.hasFP = true
	}
	switch op {
	case OBAnd, OBOr, OBXor, OBNot, OShl, OLShr, OAShr:
		t.hasBit = true
	}
	if op == OUDiv || op == OSDiv || op == OURem || op == OSRem || op == OMul {
		t.hasDiv = true
	}
	c.tab[k] = t
	c.terms = append(c.terms, t)
	if op == OVar {
		c.vars = append(c.vars, t)
	}
	return t
}

func mask(w uint8) uint64 {
	if w >= 64 {
		return ^uint64(0)
	}
	return (uint64(1) << w) - 1
}

func sext64(v uint64, w uint8) int64 {
	if w >= 64 {
		return int64(v)
	}
	sh := 64 - uint(w)
	return int64(v<<sh) >> sh
}

func (c *TermCtx) Const(w int, v uint64) *Term {
	if w == 0 {
		if v != 0 {
			return c.True
		}
		return c.False
	}
	return c.mk(OConst, uint8(w), v&mask(uint8(w)), "", nil)
}
func (c *TermCtx) Bool(b bool) *Term {
	if b {
		return c.True
	}
	return c.False
}
func (c *TermCtx) Var(name string, w int) *Term { return c.mk(OVar, uint8(w), 0, name, nil) }

// VarRanged declares a variable whose unsigned value lies in [lo,hi]; the range is part
// of the variable (asserted once at declaration in every solver process) and is used by
// the term simplifier.
func (c *TermCtx) VarRanged(name string, w int, lo, hi uint64) *Term {
	t := c.mk(OVar, uint8(w), 0, name, nil)
	t.ranged, t.rlo, t.rhi = true, lo, hi
	return t
}

// ---------- folding ----------

func f32(v uint64) float32 { return math.Float32frombits(uint32(v)) }
func f64(v uint64) float64 { return math.Float64frombits(v) }

// foldOp evaluates op on constant args. ok=false if the result is not defined by us
// (e.g. out-of-range float->int).
func foldOp(op Op, w uint8, extra uint64, aw []uint8, a []uint64) (uint64, bool) {
	m := mask(w)
	switch op {
	case ONot:
		return a[0] ^ 1, true
	case OAnd:
		return a[0] & a[1], true
	case OOr:
		return a[0] | a[1], true
	case OEq:
		return b2u(a[0] == a[1]), true
	case OUlt:
		return b2u(a[0] < a[1]), true
	case OUle:
		return b2u(a[0] <= a[1]), true
	case OSlt:
		return b2u(sext64(a[0], aw[0]) < sext64(a[1], aw[1])), true
	case OSle:
		return b2u(sext64(a[0], aw[0]) <= sext64(a[1], aw[1])), true
	case OAdd:
		return (a[0] + a[1]) & m, true
	case OSub:
		return (a[0] - a[1]) & m, true
	case OMul:
		return (a[0] * a[1]) & m, true
	case OUDiv:
		if a[1] == 0 {
			return m, true
		}
		return (a[0] / a[1]) & m, true
	case OURem:
		if a[1] == 0 {
			return a[0], true
		}
		return (a[0] % a[1]) & m, true
	case OSDiv:
		x, y := sext64(a[0], w), sext64(a[1], w)
		if y == 0 {
			if x >= 0 {
				return m, true
			}
			return 1, true
		}
		if y == -1 {
			return uint64(-x) & m, true
		}
		return uint64(x/y) & m, true
	case OSRem:
		x, y := sext64(a[0], w), sext64(a[1], w)
		if y == 0 {
			return a[0], true
		}
		if y == -1 {
			return 0, true
		}
		return uint64(x%y) & m, true
	case OBAnd:
		return a[0] & a[1], true
	case OBOr:
		return a[0] | a[1], true
	case OBXor:
		return a[0] ^ a[1], true
	case OBNot:
		return ^a[0] & m, true
	case ONeg:
		return (-a[0]) & m, true
	case OShl:
		if a[1] >= uint64(w) {
			return 0, true
		}
		return (a[0] << a[1]) & m, true
	case OLShr:
		if a[1] >= uint64(w) {
			return 0, true
		}
		return (a[0] >> a[1]) & m, true
	case OAShr:
		x := sext64(a[0], w)
		s := a[1]
		if s >= uint64(w) {
			s = uint64(w) - 1
		}
		return uint64(x>>s) & m, true
	case OConcat:
		return (a[0]<<aw[1] | a[1]) & m, true
	case OExtract:
		lo := extra & 0xff
		return (a[0] >> lo) & m, true
	case OZExt:
		return a[0], true
	case OSExt:
		return uint64(sext64(a[0], aw[0])) & m, true
	case OIte:
		if a[0] != 0 {
			return a[1], true
		}
		return a[2], true
	case OFAdd, OFSub, OFMul, OFDiv:
		if w == 32 {
			x, y := f32(a[0]), f32(a[1])
			var r float32
			switch op {
			case OFAdd:
				r = x + y
			case OFSub:
				r = x - y
			case OFMul:
				r = x * y
			case OFDiv:
				r = x / y
			}
			return uint64(math.Float32bits(r)), true
		}
		x, y := f64(a[0]), f64(a[1])
		var r float64
		switch op {
		case OFAdd:
			r = x + y
		case OFSub:
			r = x - y
		case OFMul:
			r = x * y
		case OFDiv:
			r = x / y
		}
		return math.Float64bits(r), true
	case OFNeg:
		if w == 32 {
			return a[0] ^ (1 << 31), true
		}
		return a[0] ^ (1 << 63), true
	case OFLt, OFLe, OFEq:
		var x, y float64
		if aw[0] == 32 {
			x, y = float64(f32(a[0])), float64(f32(a[1]))
		} else {
			x, y = f64(a[0]), f64(a[1])
		}
		switch op {
		case OFLt:
			return b2u(x < y), true
		case OFLe:
			return b2u(x <= y), true
		}
		return b2u(x == y), true
	case OFIsNaN:
		if aw[0] == 32 {
			return b2u(f32(a[0]) != f32(a[0])), true
		}
		return b2u(f64(a[0]) != f64(a[0])), true
	case OSToF:
		x := sext64(a[0], aw[0])
		if w == 32 {
			return uint64(math.Float32bits(float32(x))), true
		}
		return math.Float64bits(float64(x)), true
	case OUToF:
		if w == 32 {
			return uint64(math.Float32bits(float32(a[0]))), true
		}
		return math.Float64bits(float64(a[0])), true
	case OFToS:
		var x float64
		if aw[0] == 32 {
			x = float64(f32(a[0]))
		} else {
			x = f64(a[0])
		}
		if x != x {
			return 0, false
		}
		x = math.Trunc(x)
		lim := math.Ldexp(1, int(w)-1)
		if x >= lim || x < -lim {
			return 0, false
		}
		return uint64(int64(x)) & m, true
	case OFToU:
		var x float64
		if aw[0] == 32 {
			x = float64(f32(a[0]))
		} else {
			x = f64(a[0])
		}
		if x != x {
			return 0, false
		}
		x = math.Trunc(x)
		lim := math.Ldexp(1, int(w))
		if x >= lim || x < 0 {
			return 0, false
		}
		return uint64(x) & m, true
	case OFToF:
		if w == 32 {
			return uint64(math.Float32bits(float32(f64(a[0])))), true
		}
		return math.Float64bits(float64(f32(a[0]))), true
	}
	panic("foldOp: " + opNames[op])
}

func b2u(b bool) uint64 {
	if b {
		return 1
	}
	return 0
}

func (c *TermCtx) op(op Op, w int, extra uint64, args ...*Term) *Term {
	allc := true
	for _, a := range args {
		if a.op != OConst {
			allc = false
			break
		}
	}
	if allc {
		aw := make([]uint8, len(args))
		av := make([]uint64, len(args))
		for i, a := range args {
			aw[i] = a.w
			av[i] = a.val
		}
		if v, ok := foldOp(op, uint8(w), extra, aw, av); ok {
			return c.Const(w, v)
		}
	}
	t := c.mk(op, uint8(w), extra, "", args)
	return c.smallDomain(t)
}

// smallDomain: a bit-vector term that depends on ONE ranged variable with at most 64 values
// and is built from division / remainder / multiplication / nested selects is replaced by
// its canonical form over that domain — a constant, an affine function a*v+b, or a select
// chain on v — obtained by evaluating it on every value of the domain. (Sound: the range
// is part of the variable and asserted in every solver process.) This is what makes digit
// round trips (format then parse of a small-range number) fold without the solver.
func (c *TermCtx) smallDomain(t *Term) *Term {
	if t.w == 0 || t.multi || t.sv == nil || !t.sv.ranged || t.hasFP {
		return t
	}
	switch t.op {
	case OUDiv, OURem, OSDiv, OSRem, OMul:
	case OAdd, OSub, OIte, OExtract, OZExt, OSExt, OConcat:
		if t.depth < 4 {
			return t
		}
	default:
		return t
	}
	if t.canon != nil {
		return t.canon
	}
	v := t.sv
	n := v.rhi - v.rlo
	if n >= 64 {
		return t
	}
	vals := make([]uint64, n+1)
	for i := uint64(0); i <= n; i++ {
		val, ok := c.Eval(t, Model{v.name: v.rlo + i})
		if !ok {
			return t
		}
		vals[i] = val
	}
	w := int(t.w)
	var res *Term
	// constant?
	same := true
	for _, x := range vals {
		if x != vals[0] {
			same = false
			break
		}
	}
	vv := v
	var vw *Term // v resized to the term's width
	if int(v.w) == w {
		vw = v
	} else if int(v.w) < w {
		vw = c.mk(OZExt, uint8(w), 0, "", []*Term{v})
	} else {
		vw = c.mk(OExtract, uint8(w), uint64(w-1)<<8, "", []*Term{v})
	}
	_ = vv
	switch {
	case same:
		res = c.Const(w, vals[0])
	default:
		// affine a*v+b (mod 2^w)?
		m := mask(uint8(w))
		a := (vals[1] - vals[0]) & m
		aff := true
		for i := uint64(0); i <= n; i++ {
			if (vals[0]+a*i)&m != vals[i] {
				aff = false
				break
			}
		}
		if aff && (v.rhi <= m) {
			b := (vals[0] - a*v.rlo) & m
			res = c.fromAffine(w, a, vw, b)
		} else {
			res = c.Const(w, vals[n])
			for i := int64(n) - 1; i >= 0; i-- {
				cond := c.mk(OEq, 0, 0, "", orderArgs(c.Const(int(v.w), v.rlo+uint64(i)), v))
				if res.op == OConst && res.val == vals[i] {
					continue
				}
				res = c.mk(OIte, uint8(w), 0, "", []*Term{cond, c.Const(w, vals[i]), res})
				res.canon = res
			}
		}
	}
	t.canon = res
	res.canon = res
	return res
}

func orderArgs(a, b *Term) []*Term {
	if a.id > b.id {
		return []*Term{b, a}
	}
	return []*Term{a, b}
}

// ---------- constructors with simplification ----------

func (c *TermCtx) Not(a *Term) *Term {
	if a.op == ONot {
		return a.args[0]
	}
	return c.op(ONot, 0, 0, a)
}
func (c *TermCtx) And(a, b *Term) *Term {
	if a == c.True {
		return b
	}
	if b == c.True {
		return a
	}
	if a == c.False || b == c.False {
		return c.False
	}
	if a == b {
		return a
	}
	return c.op(OAnd, 0, 0, a, b)
}
func (c *TermCtx) Or(a, b *Term) *Term {
	if a == c.False {
		return b
	}
	if b == c.False {
		return a
	}
	if a == c.True || b == c.True {
		return c.True
	}
	if a == b {
		return a
	}
	return c.op(OOr, 0, 0, a, b)
}
func (c *TermCtx) Eq(a, b *Term) *Term {
	if a == b {
		return c.True
	}
	if a.w != b.w {
		panic(fmt.Sprintf("Eq width mismatch %d %d", a.w, b.w))
	}
	if a.w == 0 {
		if a == c.True {
			return b
		}
		if b == c.True {
			return a
		}
		if a == c.False {
			return c.Not(b)
		}
		if b == c.False {
			return c.Not(a)
		}
	}
	if a.w > 0 && (a.op != OConst || b.op != OConst) {
		if v, ok := cmpFold(OEq, a, b); ok {
			return c.Bool(v)
		}
	}
	if a.id > b.id {
		a, b = b, a
	}
	// ite(c, k1, k2) == k  with constants
	if a.op == OConst && b.op == OIte && b.args[1].op == OConst && b.args[2].op == OConst {
		t, e := b.args[1].val == a.val, b.args[2].val == a.val
		switch {
		case t && e:
			return c.True
		case t:
			return b.args[0]
		case e:
			return c.Not(b.args[0])
		default:
			return c.False
		}
	}
	return c.op(OEq, 0, 0, a, b)
}
// rng: static unsigned interval of t (from declared variable ranges and operator
// structure); cached per term.
func rng(t *Term) (uint64, uint64) {
	if t.rngDone {
		return t.rngLo, t.rngHi
	}
	lo, hi := rngCompute(t)
	t.rngDone, t.rngLo, t.rngHi = true, lo, hi
	return lo, hi
}

func rngCompute(t *Term) (uint64, uint64) {
	m := mask(t.w)
	if t.w == 0 {
		return 0, 1
	}
	switch t.op {
	case OConst:
		return t.val, t.val
	case OVar:
		if t.ranged {
			return t.rlo, t.rhi
		}
	case OZExt:
		return rng(t.args[0])
	case OSExt:
		lo, hi := rng(t.args[0])
		if hi < uint64(1)<<(t.args[0].w-1) {
			return lo, hi
		}
	case OExtract:
		lo, hi := rng(t.args[0])
		sh := t.val & 0xff
		if sh == 0 {
			if hi <= m {
				return lo, hi
			}
		} else if t.val>>8 == uint64(t.args[0].w)-1 { // top bits: x >> sh
			return lo >> sh, hi >> sh
		}
	case OConcat:
		// x ++ zeros = x << k
		if t.args[1].op == OConst && t.args[1].val == 0 {
			lo, hi := rng(t.args[0])
			k := uint(t.args[1].w)
			return lo << k, hi << k
		}
		alo, ahi := rng(t.args[0])
		blo, bhi := rng(t.args[1])
		k := uint(t.args[1].w)
		return alo<<k + blo, ahi<<k + bhi
	case OAdd:
		alo, ahi := rng(t.args[0])
		blo, bhi := rng(t.args[1])
		if ahi <= m && bhi <= m-ahi {
			return alo + blo, ahi + bhi
		}
	case OSub:
		alo, ahi := rng(t.args[0])
		blo, bhi := rng(t.args[1])
		if alo >= bhi {
			return alo - bhi, ahi - blo
		}
	case OMul:
		alo, ahi := rng(t.args[0])
		blo, bhi := rng(t.args[1])
		if ahi == 0 || bhi <= m/ahi {
			return alo * blo, ahi * bhi
		}
	case OUDiv, OSDiv:
		if t.args[1].op == OConst && t.args[1].val > 0 {
			alo, ahi := rng(t.args[0])
			if t.op == OUDiv || (ahi < uint64(1)<<(t.w-1) && t.args[1].val < uint64(1)<<(t.w-1)) {
				return alo / t.args[1].val, ahi / t.args[1].val
			}
		}
	case OURem, OSRem:
		if t.args[1].op == OConst && t.args[1].val > 0 {
			cc := t.args[1].val
			alo, ahi := rng(t.args[0])
			if t.op == OURem || (ahi < uint64(1)<<(t.w-1) && cc < uint64(1)<<(t.w-1)) {
				if alo/cc == ahi/cc {
					return alo % cc, ahi % cc
				}
				return 0, cc - 1
			}
		}
	case OBAnd:
		_, ahi := rng(t.args[0])
		_, bhi := rng(t.args[1])
		if bhi < ahi {
			ahi = bhi
		}
		return 0, ahi
	case OIte:
		alo, ahi := rng(t.args[1])
		blo, bhi := rng(t.args[2])
		if blo < alo {
			alo = blo
		}
		if bhi > ahi {
			ahi = bhi
		}
		return alo, ahi
	}
	return 0, m
}

// ubound: upper bound on the unsigned value of t.
func ubound(t *Term) uint64 {
	_, hi := rng(t)
	return hi
}

// cmpFold decides a comparison from static ranges; ok=false if undecided.
func cmpFold(op Op, a, b *Term) (val bool, ok bool) {
	alo, ahi := rng(a)
	blo, bhi := rng(b)
	switch op {
	case OUlt:
		if ahi < blo {
			return true, true
		}
		if alo >= bhi {
			return false, true
		}
	case OUle:
		if ahi <= blo {
			return true, true
		}
		if alo > bhi {
			return false, true
		}
	case OSlt, OSle:
		half := uint64(1) << (a.w - 1)
		// both intervals on one side of the sign boundary
		sa, oka := sideOf(alo, ahi, half)
		sb, okb := sideOf(blo, bhi, half)
		if !oka || !okb {
			return false, false
		}
		if sa != sb {
			// negative < non-negative
			return sa == 1, true
		}
		if op == OSlt {
			return cmpFold(OUlt, a, b)
		}
		return cmpFold(OUle, a, b)
	case OEq:
		if ahi < blo || bhi < alo {
			return false, true
		}
		if alo == ahi && blo == bhi && alo == blo {
			return true, true
		}
	}
	return false, false
}

// sideOf: 0 = whole interval non-negative (signed), 1 = whole interval negative.
func sideOf(lo, hi, half uint64) (int, bool) {
	if hi < half {
		return 0, true
	}
	if lo >= half {
		return 1, true
	}
	return 0, false
}

// affine: t == a*v + b over the integers (no wrap-around, by static ranges) for a single
// variable-like term v (a ranged variable, possibly extended); v == nil means constant.
func affine(t *Term) (a uint64, v *Term, b uint64, ok bool) {
	switch t.op {
	case OConst:
		return 0, nil, t.val, true
	case OVar:
		if t.ranged {
			return 1, t, 0, true
		}
	case OZExt, OSExt:
		in := t.args[0]
		if in.op == OVar && in.ranged {
			if t.op == OZExt || in.rhi < uint64(1)<<(in.w-1) {
				return 1, t, 0, true // the extension itself acts as the variable
			}
		}
	case OAdd:
		a1, v1, b1, ok1 := affine(t.args[0])
		a2, v2, b2, ok2 := affine(t.args[1])
		if ok1 && ok2 && (v1 == nil || v2 == nil || v1 == v2) {
			if _, hi := rng(t); hi < mask(t.w) || true {
				// the static range of an Add is only known when it cannot overflow
				alo, ahi := rng(t.args[0])
				_, bhi := rng(t.args[1])
				_ = alo
				if ahi <= mask(t.w) && bhi <= mask(t.w)-ahi {
					v := v1
					if v == nil {
						v = v2
					}
					return a1 + a2, v, b1 + b2, true
				}
			}
		}
	case OMul:
		a1, v1, b1, ok1 := affine(t.args[0])
		a2, v2, b2, ok2 := affine(t.args[1])
		if ok1 && ok2 {
			_, ahi := rng(t.args[0])
			_, bhi := rng(t.args[1])
			if ahi != 0 && bhi > mask(t.w)/ahi {
				return 0, nil, 0, false
			}
			if v1 == nil {
				return a2 * b1, v2, b2 * b1, true
			}
			if v2 == nil {
				return a1 * b2, v1, b1 * b2, true
			}
		}
	case OSub:
		a1, v1, b1, ok1 := affine(t.args[0])
		_, v2, b2, ok2 := affine(t.args[1])
		if ok1 && ok2 && v2 == nil && b1 >= b2 {
			return a1, v1, b1 - b2, true
		}
	}
	return 0, nil, 0, false
}

func (c *TermCtx) fromAffine(w int, a uint64, v *Term, b uint64) *Term {
	if v == nil || a == 0 {
		return c.Const(w, b)
	}
	var t *Term = v
	if a != 1 {
		t = c.mk(OMul, uint8(w), 0, "", []*Term{v, c.Const(w, a)})
		t.canon = t
	}
	if b != 0 {
		t = c.mk(OAdd, uint8(w), 0, "", []*Term{t, c.Const(w, b)})
		t.canon = t
	}
	return t
}

// divRemFold simplifies x / k and x % k for a constant k when x is affine in one ranged
// variable: exact when the coefficient is a multiple of k, or when the whole range of x
// lies in one quotient bucket.
func (c *TermCtx) divRemFold(op Op, x *Term, k uint64) *Term {
	w := int(x.w)
	lo, hi := rng(x)
	signed := op == OSDiv || op == OSRem
	if signed && (hi >= uint64(1)<<(x.w-1) || k >= uint64(1)<<(x.w-1)) {
		return nil
	}
	isDiv := op == OUDiv || op == OSDiv
	if lo/k == hi/k {
		q := lo / k
		if isDiv {
			return c.Const(w, q)
		}
		if q == 0 {
			return x
		}
		if a, v, b, ok := affine(x); ok && b >= q*k {
			return c.fromAffine(w, a, v, b-q*k)
		}
		return c.op(OSub, w, 0, x, c.Const(w, q*k))
	}
	if a, v, b, ok := affine(x); ok && v != nil && a%k == 0 {
		if isDiv {
			return c.fromAffine(w, a/k, v, b/k)
		}
		return c.Const(w, b%k)
	}
	return nil
}

func (c *TermCtx) Cmp(op Op, a, b *Term) *Term {
	if a.w != b.w {
		panic(fmt.Sprintf("cmp width mismatch %d %d", a.w, b.w))
	}
	if a.op != OConst || b.op != OConst {
		if v, ok := cmpFold(op, a, b); ok {
			return c.Bool(v)
		}
	}
	if a == b {
		if op == OUle || op == OSle {
			return c.True
		}
		if op == OUlt || op == OSlt {
			return c.False
		}
	}
	return c.op(op, 0, 0, a, b)
}
type seg struct {
	lo, w int
	t     *Term // nil = zero bits
}

// segs decomposes t into ascending bit segments through concat / zero-extension / zero
// constants, so that sums and ors of disjoint byte lanes can be rebuilt as one concat.
func (c *TermCtx) segs(t *Term) []seg {
	switch t.op {
	case OConst:
		if t.val == 0 {
			return []seg{{0, int(t.w), nil}}
		}
	case OZExt:
		in := c.segs(t.args[0])
		return append(in, seg{int(t.args[0].w), int(t.w) - int(t.args[0].w), nil})
	case OConcat:
		lo := c.segs(t.args[1])
		for _, s := range c.segs(t.args[0]) {
			lo = append(lo, seg{s.lo + int(t.args[1].w), s.w, s.t})
		}
		return lo
	}
	return []seg{{0, int(t.w), t}}
}

// mergeDisjoint returns a|b (== a+b) as a single concat when the non-zero segments of a
// and b do not overlap; nil otherwise.
func (c *TermCtx) mergeDisjoint(a, b *Term) *Term {
	sa, sb := c.segs(a), c.segs(b)
	if len(sa) == 1 && sa[0].t != nil || len(sb) == 1 && sb[0].t != nil {
		return nil
	}
	w := int(a.w)
	cuts := map[int]bool{0: true, w: true}
	for _, s := range sa {
		cuts[s.lo] = true
	}
	for _, s := range sb {
		cuts[s.lo] = true
	}
	bounds := make([]int, 0, len(cuts))
	for k := range cuts {
		bounds = append(bounds, k)
	}
	for i := 1; i < len(bounds); i++ {
		for j := i; j > 0 && bounds[j] < bounds[j-1]; j-- {
			bounds[j], bounds[j-1] = bounds[j-1], bounds[j]
		}
	}
	piece := func(ss []seg, lo, hi int) (*Term, bool) { // term for bits [lo,hi) ; zero => nil,true
		for _, s := range ss {
			if lo >= s.lo && hi <= s.lo+s.w {
				if s.t == nil {
					return nil, true
				}
				return c.Extract(s.t, hi-1-s.lo, lo-s.lo), true
			}
		}
		return nil, false
	}
	var res *Term
	for i := 0; i+1 < len(bounds); i++ {
		lo, hi := bounds[i], bounds[i+1]
		pa, oka := piece(sa, lo, hi)
		pb, okb := piece(sb, lo, hi)
		if !oka || !okb {
			return nil
		}
		var p *Term
		switch {
		case pa == nil && pb == nil:
			p = c.Const(hi-lo, 0)
		case pa == nil:
			p = pb
		case pb == nil:
			p = pa
		default:
			return nil
		}
		if res == nil {
			res = p
		} else {
			res = c.Concat(p, res)
		}
	}
	return res
}

func (c *TermCtx) Bin(op Op, a, b *Term) *Term {
	if a.w != b.w {
		panic(fmt.Sprintf("bin %s width mismatch %d %d", opNames[op], a.w, b.w))
	}
	w := int(a.w)
	if (op == OUDiv || op == OSDiv || op == OURem || op == OSRem) && b.op == OConst && b.val > 1 && a.op != OConst {
		if r := c.divRemFold(op, a, b.val); r != nil {
			return r
		}
	}
	if (op == OAdd || op == OBOr || op == OBXor) && a.op != OConst && b.op != OConst {
		if m := c.mergeDisjoint(a, b); m != nil {
			return m
		}
	}
	switch op {
	case OAdd:
		if a.op == OConst && a.val == 0 {
			return b
		}
		if b.op == OConst && b.val == 0 {
			return a
		}
	case OSub:
		if b.op == OConst && b.val == 0 {
			return a
		}
		if a == b {
			return c.Const(w, 0)
		}
	case OBOr, OBXor:
		if a.op == OConst && a.val == 0 {
			return b
		}
		if b.op == OConst && b.val == 0 {
			return a
		}
		if op == OBOr && a == b {
			return a
		}
		if op == OBXor && a == b {
			return c.Const(w, 0)
		}
	case OBAnd:
		if a.op == OConst && a.val == 0 || b.op == OConst && b.val == 0 {
			return c.Const(w, 0)
		}
		if a.op == OConst && a.val == mask(a.w) {
			return b
		}
		if b.op == OConst && b.val == mask(a.w) {
			return a
		}
		if a == b {
			return a
		}
		// (zext x) & mask where mask covers x's width
		if b.op == OConst && a.op == OZExt && b.val&mask(a.args[0].w) == mask(a.args[0].w) {
			return a
		}
	case OMul:
		if a.op == OConst && a.val == 1 {
			return b
		}
		if b.op == OConst && b.val == 1 {
			return a
		}
		if a.op == OConst && a.val == 0 || b.op == OConst && b.val == 0 {
			return c.Const(w, 0)
		}
		// multiply by power of two -> shift (helps bit-blasters)
		if b.op == OConst && bits.OnesCount64(b.val) == 1 {
			return c.Bin(OShl, a, c.Const(w, uint64(bits.TrailingZeros64(b.val))))
		}
		if a.op == OConst && bits.OnesCount64(a.val) == 1 {
			return c.Bin(OShl, b, c.Const(w, uint64(bits.TrailingZeros64(a.val))))
		}
	case OShl, OLShr, OAShr:
		if b.op == OConst && b.val == 0 {
			return a
		}
		if b.op == OConst && op != OAShr && b.val >= uint64(w) {
			return c.Const(w, 0)
		}
		// shifts by constant: express as extract/concat so byte plumbing folds
		if b.op == OConst && b.val < uint64(w) {
			s := int(b.val)
			switch op {
			case OLShr:
				return c.ZExt(c.Extract(a, w-1, s), w)
			case OShl:
				return c.Concat(c.Extract(a, w-1-s, 0), c.Const(s, 0))
			case OAShr:
				return c.SExt(c.Extract(a, w-1, s), w)
			}
		}
	case OUDiv:
		if b.op == OConst && b.val == 1 {
			return a
		}
		// small numerator range: a threshold chain is far cheaper than a divider circuit
		if b.op == OConst && b.val > 1 && bits.OnesCount64(b.val) != 1 {
			if ub := ubound(a); ub/b.val <= 48 && ub < mask(a.w) {
				r := c.Const(w, ub/b.val)
				for q := ub / b.val; q >= 1; q-- {
					r = c.Ite(c.Cmp(OUlt, a, c.Const(w, q*b.val)), c.Const(w, q-1), r)
				}
				return r
			}
		}
		if b.op == OConst && bits.OnesCount64(b.val) == 1 {
			return c.Bin(OLShr, a, c.Const(w, uint64(bits.TrailingZeros64(b.val))))
		}
	case OURem:
		if b.op == OConst && bits.OnesCount64(b.val) == 1 {
			return c.Bin(OBAnd, a, c.Const(w, b.val-1))
		}
		if b.op == OConst && b.val > 1 {
			if ub := ubound(a); ub/b.val <= 48 && ub < mask(a.w) {
				r := c.Bin(OSub, a, c.Const(w, (ub/b.val)*b.val))
				for q := ub / b.val; q >= 1; q-- {
					r = c.Ite(c.Cmp(OUlt, a, c.Const(w, q*b.val)), c.Bin(OSub, a, c.Const(w, (q-1)*b.val)), r)
				}
				return r
			}
		}
	}
	return c.op(op, w, 0, a, b)
}
func (c *TermCtx) Un(op Op, a *Term) *Term {
	if (op == OBNot || op == ONeg) && a.op == op {
		return a.args[0]
	}
	return c.op(op, int(a.w), 0, a)
}
func (c *TermCtx) Extract(a *Term, hi, lo int) *Term {
	if lo == 0 && hi == int(a.w)-1 {
		return a
	}
	if hi < lo || hi >= int(a.w) {
		panic(fmt.Sprintf("bad extract %d %d of w%d", hi, lo, a.w))
	}
	w := hi - lo + 1
	switch a.op {
	case OExtract:
		l0 := int(a.val & 0xff)
		return c.Extract(a.args[0], hi+l0, lo+l0)
	case OConcat:
		lw := int(a.args[1].w)
		if hi < lw {
			return c.Extract(a.args[1], hi, lo)
		}
		if lo >= lw {
			return c.Extract(a.args[0], hi-lw, lo-lw)
		}
		return c.Concat(c.Extract(a.args[0], hi-lw, 0), c.Extract(a.args[1], lw-1, lo))
	case OZExt:
		iw := int(a.args[0].w)
		if hi < iw {
			return c.Extract(a.args[0], hi, lo)
		}
		if lo >= iw {
			return c.Const(w, 0)
		}
		return c.ZExt(c.Extract(a.args[0], iw-1, lo), w)
	case OSExt:
		iw := int(a.args[0].w)
		if hi < iw {
			return c.Extract(a.args[0], hi, lo)
		}
		if lo < iw {
			return c.SExt(c.Extract(a.args[0], iw-1, lo), w)
		}
	case OAdd, OSub, OMul:
		// low bits of modular arithmetic depend only on the low bits of the operands
		if lo == 0 {
			return c.Bin(a.op, c.Extract(a.args[0], hi, 0), c.Extract(a.args[1], hi, 0))
		}
	case ONeg:
		if lo == 0 {
			return c.Un(ONeg, c.Extract(a.args[0], hi, 0))
		}
	case OBNot:
		return c.Un(OBNot, c.Extract(a.args[0], hi, lo))
	case OBAnd, OBOr, OBXor:
		// push extract through bitwise ops when one side is constant (mask plumbing)
		if a.args[0].op == OConst || a.args[1].op == OConst {
			return c.Bin(a.op, c.Extract(a.args[0], hi, lo), c.Extract(a.args[1], hi, lo))
		}
	case OIte:
		if a.args[1].op == OConst && a.args[2].op == OConst {
			return c.Ite(a.args[0], c.Extract(a.args[1], hi, lo), c.Extract(a.args[2], hi, lo))
		}
	}
	return c.op(OExtract, w, uint64(hi)<<8|uint64(lo), a)
}
func (c *TermCtx) Concat(a, b *Term) *Term {
	w := int(a.w) + int(b.w)
	if w > 64 {
		panic("concat > 64")
	}
	// adjacent extracts of the same term
	if a.op == OExtract && b.op == OExtract && a.args[0] == b.args[0] {
		alo, bhi := int(a.val&0xff), int(b.val>>8)
		if alo == bhi+1 {
			return c.Extract(a.args[0], int(a.val>>8), int(b.val&0xff))
		}
	}
	if a.op == OConst && a.val == 0 {
		return c.ZExt(b, w)
	}
	// concat(x, concat(y,z)) keep; concat(concat(x,y),z) -> try merging y,z
	if a.op == OConcat {
		inner := c.Concat(a.args[1], b)
		if inner.op != OConcat || inner.args[0] != a.args[1] {
			return c.Concat(a.args[0], inner)
		}
	}
	return c.op(OConcat, w, 0, a, b)
}
func (c *TermCtx) ZExt(a *Term, w int) *Term {
	if int(a.w) == w {
		return a
	}
	if int(a.w) > w {
		panic("zext narrower")
	}
	if a.op == OZExt {
		return c.ZExt(a.args[0], w)
	}
	return c.op(OZExt, w, 0, a)
}
func (c *TermCtx) SExt(a *Term, w int) *Term {
	if int(a.w) == w {
		return a
	}
	if int(a.w) > w {
		panic("sext narrower")
	}
	if a.op == OSExt {
		return c.SExt(a.args[0], w)
	}
	if a.op == OZExt {
		return c.ZExt(a.args[0], w)
	}
	return c.op(OSExt, w, 0, a)
}
func (c *TermCtx) Ite(cond, a, b *Term) *Term {
	if cond == c.True {
		return a
	}
	if cond == c.False {
		return b
	}
	if a == b {
		return a
	}
	if a.w != b.w {
		panic("ite width mismatch")
	}
	if a.w == 0 {
		if a == c.True && b == c.False {
			return cond
		}
		if a == c.False && b == c.True {
			return c.Not(cond)
		}
		if a == c.True {
			return c.Or(cond, b)
		}
		if b == c.False {
			return c.And(cond, a)
		}
		if a == c.False {
			return c.And(c.Not(cond), b)
		}
		if b == c.True {
			return c.Or(c.Not(cond), a)
		}
	}
	if cond.op == ONot {
		return c.Ite(cond.args[0], b, a)
	}
	return c.op(OIte, int(a.w), 0, cond, a, b)
}

// Resize converts integer width with sign- or zero-extension / truncation.
func (c *TermCtx) Resize(a *Term, w int, signed bool) *Term {
	if int(a.w) == w {
		return a
	}
	if int(a.w) > w {
		return c.Extract(a, w-1, 0)
	}
	if signed {
		return c.SExt(a, w)
	}
	return c.ZExt(a, w)
}

// BoolToBV / BVToBool
func (c *TermCtx) B2BV(b *Term, w int) *Term { return c.Ite(b, c.Const(w, 1), c.Const(w, 0)) }

func (c *TermCtx) FBin(op Op, a, b *Term) *Term { return c.op(op, int(a.w), 0, a, b) }
func (c *TermCtx) FCmp(op Op, a, b *Term) *Term { return c.op(op, 0, 0, a, b) }
func (c *TermCtx) FNeg(a *Term) *Term {
	return c.Bin(OBXor, a, c.Const(int(a.w), uint64(1)<<(a.w-1)))
}
func (c *TermCtx) FIsNaN(a *Term) *Term     { return c.op(OFIsNaN, 0, 0, a) }
func (c *TermCtx) Conv(op Op, a *Term, w int) *Term { return c.op(op, w, 0, a) }

// ---------- evaluation under a model ----------

type Model map[string]uint64

func (c *TermCtx) Eval(t *Term, m Model) (uint64, bool) {
	memo := map[int32]uint64{}
	okAll := true
	var ev func(t *Term) uint64
	ev = func(t *Term) uint64 {
		switch t.op {
		case OConst:
			return t.val
		case OVar:
			if v, ok := m[t.name]; ok {
				return v & maskB(t.w)
			}
			if t.ranged {
				return t.rlo
			}
			return 0
		}
		if v, ok := memo[t.id]; ok {
			return v
		}
		aw := make([]uint8, len(t.args))
		av := make([]uint64, len(t.args))
		if t.op == OIte {
			// lazy
			cv := ev(t.args[0])
			var r uint64
			if cv != 0 {
				r = ev(t.args[1])
			} else {
				r = ev(t.args[2])
			}
			memo[t.id] = r
			return r
		}
		for i, a := range t.args {
			aw[i] = a.w
			av[i] = ev(a)
		}
		v, ok := foldOp(t.op, t.w, t.val, aw, av)
		if !ok {
			okAll = false
		}
		memo[t.id] = v
		return v
	}
	v := ev(t)
	return v, okAll
}

func maskB(w uint8) uint64 {
	if w == 0 {
		return 1
	}
	return mask(w)
}

// Vars collects free variables of t into set.
func (c *TermCtx) VarsOf(ts []*Term, set map[*Term]bool) {
	seen := map[int32]bool{}
	var walk func(t *Term)
	walk = func(t *Term) {
		if seen[t.id] {
			return
		}
		seen[t.id] = true
		if t.op == OVar {
			set[t] = true
		}
		for _, a := range t.args {
			walk(a)
		}
	}
	for _, t := range ts {
		walk(t)
	}
}

// ---------- SMT-LIB printing ----------

func sortOf(w uint8) string {
	if w == 0 {
		return "Bool"
	}
	return fmt.Sprintf("(_ BitVec %d)", w)
}

func constStr(w uint8, v uint64) string {
	if w == 0 {
		if v != 0 {
			return "true"
		}
		return "false"
	}
	if w%4 == 0 {
		return fmt.Sprintf("#x%0*x", int(w)/4, v)
	}
	return fmt.Sprintf("#b%0*b", int(w), v)
}

func fpSort(w uint8) (int, int) {
	if w == 32 {
		return 8, 24
	}
	return 11, 53
}

func toFP(w uint8, s string) string {
	e, m := fpSort(w)
	return fmt.Sprintf("((_ to_fp %d %d) %s)", e, m, s)
}

func (t *Term) ref() string {
	switch t.op {
	case OConst:
		return constStr(t.w, t.val)
	case OVar:
		return t.name
	}
	return fmt.Sprintf("t%d", t.id)
}

// expr prints the defining expression of a non-leaf term in terms of refs of its args.
func (t *Term) expr() string {
	a := func(i int) string { return t.args[i].ref() }
	switch t.op {
	case ONot:
		return "(not " + a(0) + ")"
	case OAnd, OOr, OEq, OUlt, OUle, OSlt, OSle, OAdd, OSub, OMul, OUDiv, OSDiv, OURem, OSRem, OBAnd, OBOr, OBXor, OShl, OLShr, OAShr, OConcat:
		return "(" + opNames[t.op] + " " + a(0) + " " + a(1) + ")"
	case OBNot, ONeg:
		return "(" + opNames[t.op] + " " + a(0) + ")"
	case OExtract:
		return fmt.Sprintf("((_ extract %d %d) %s)", t.val>>8, t.val&0xff, a(0))
	case OZExt:
		return fmt.Sprintf("((_ zero_extend %d) %s)", int(t.w)-int(t.args[0].w), a(0))
	case OSExt:
		return fmt.Sprintf("((_ sign_extend %d) %s)", int(t.w)-int(t.args[0].w), a(0))
	case OIte:
		return "(ite " + a(0) + " " + a(1) + " " + a(2) + ")"
	case OFAdd, OFSub, OFMul, OFDiv:
		return fmt.Sprintf("(fp.to_ieee_bv (%s RNE %s %s))", opNames[t.op], toFP(t.w, a(0)), toFP(t.w, a(1)))
	case OFLt, OFLe, OFEq:
		return fmt.Sprintf("(%s %s %s)", opNames[t.op], toFP(t.args[0].w, a(0)), toFP(t.args[1].w, a(1)))
	case OFIsNaN:
		return fmt.Sprintf("(fp.isNaN %s)", toFP(t.args[0].w, a(0)))
	case OSToF:
		e, m := fpSort(t.w)
		return fmt.Sprintf("(fp.to_ieee_bv ((_ to_fp %d %d) RNE %s))", e, m, a(0))
	case OUToF:
		e, m := fpSort(t.w)
		return fmt.Sprintf("(fp.to_ieee_bv ((_ to_fp_unsigned %d %d) RNE %s))", e, m, a(0))
	case OFToS:
		return fmt.Sprintf("((_ fp.to_sbv %d) RTZ %s)", t.w, toFP(t.args[0].w, a(0)))
	case OFToU:
		return fmt.Sprintf("((_ fp.to_ubv %d) RTZ %s)", t.w, toFP(t.args[0].w, a(0)))
	case OFToF:
		e, m := fpSort(t.w)
		return fmt.Sprintf("(fp.to_ieee_bv ((_ to_fp %d %d) RNE %s))", e, m, toFP(t.args[0].w, a(0)))
	}
	panic("expr: " + opNames[t.op])
}

// String: human-readable (for debugging / samples), depth-limited.
func (t *Term) String() string {
	var sb strings.Builder
	var pr func(t *Term, d int)
	pr = func(t *Term, d int) {
		switch t.op {
		case OConst:
			if t.w == 0 {
				sb.WriteString(constStr(0, t.val))
			} else {
				fmt.Fprintf(&sb, "%d:%d", t.val, t.w)
			}
			return
		case OVar:
			sb.WriteString(t.name)
			return
		}
		if d > 6 {
			sb.WriteString("…")
			return
		}
		sb.WriteString("(" + opNames[t.op])
		if t.op == OExtract {
			fmt.Fprintf(&sb, "[%d:%d]", t.val>>8, t.val&0xff)
		}
		for _, a := range t.args {
			sb.WriteString(" ")
			pr(a, d+1)
		}
		sb.WriteString(")")
	}
	pr(t, 0)
	return sb.String()
}
