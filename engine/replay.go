package main

// Native replay of solver models (counterexamples and reachability witnesses) against the
// really compiled code, result classification, known-findings matching and evidence.

import (
	"go/ast"
	"go/types"

	"golang.org/x/tools/go/ssa"
	"bytes"
	"context"
	"encoding/json"
	"fmt"
	"os"
	"os/exec"
	"path/filepath"
	"sort"
	"strconv"
	"strings"
	"time"
)

type replayer struct {
	prop    string
	tier    string
	hfs     []*HarnessFile
	scratch string
	bins    map[string]string // dir -> test binary
	buildErr map[string]string
	P       *Program
}

func newReplayer(prop, tier string, hfs []*HarnessFile) *replayer {
	d, _ := os.MkdirTemp("", "gosym-replay-")
	return &replayer{prop: prop, tier: tier, hfs: hfs, scratch: d, bins: map[string]string{}, buildErr: map[string]string{}}
}

func (r *replayer) cleanup() { os.RemoveAll(r.scratch) }

// binary builds (once) the native test binary for the package in dir.
func (r *replayer) binary(dir string) (string, error) {
	if b, ok := r.bins[dir]; ok {
		return b, nil
	}
	if e, ok := r.buildErr[dir]; ok {
		return "", fmt.Errorf("%s", e)
	}
	var names []string
	pkgName := ""
	ov := zzvfFiles()
	for _, h := range r.hfs {
		if h.Dir != dir {
			continue
		}
		ov[h.Virtual] = h.Path
		pkgName = h.PkgName
		for _, f := range h.Funcs {
			names = append(names, f.Name)
		}
	}
	// function stubs: natively the body of the stubbed repo function is replaced (in an
	// overlay copy of its source file, regenerated from /repo's current source) by a call
	// to the zzvf twin, so that the replay follows the same virtual environment
	if r.P != nil {
		if err := r.stubOverlay(ov); err != nil {
			r.buildErr[dir] = err.Error()
			return "", err
		}
	}
	// import substitutions (environment shims), applied on top of the stub rewrites
	for _, h := range r.hfs {
		for _, rw := range h.Imports {
			files, err := repoGoFiles(rw.Dir)
			if err != nil {
				return "", err
			}
			for _, f := range files {
				from := f
				if t, ok := ov[f]; ok {
					from = t
				}
				src, err := os.ReadFile(from)
				if err != nil {
					return "", err
				}
				if out, changed := rewriteImport(src, rw.From, rw.To); changed {
					tmp := filepath.Join(r.scratch, "imp_"+strings.ReplaceAll(strings.TrimPrefix(f, "/"), "/", "_"))
					if err := os.WriteFile(tmp, out, 0644); err != nil {
						return "", err
					}
					ov[f] = tmp
				}
			}
		}
	}
	var tb strings.Builder
	fmt.Fprintf(&tb, "package %s\n\nimport (\n\t\"fmt\"\n\t\"os\"\n\t\"runtime\"\n\t\"testing\"\n\n\t\"github.com/whatap/golib/zzvf\"\n)\n\n", pkgName)
	tb.WriteString("func TestZZReplay(t *testing.T) {\n\tfs := map[string]func(){\n")
	for _, n := range names {
		fmt.Fprintf(&tb, "\t\t%q: %s,\n", n, n)
	}
	tb.WriteString("\t}\n\tf := fs[os.Getenv(\"ZZVF_HARNESS\")]\n\tif f == nil {\n\t\tt.Fatal(\"no harness\")\n\t}\n\tzzvf.Reset()\n")
	tb.WriteString("\tvar m0, m1 runtime.MemStats\n\truntime.ReadMemStats(&m0)\n")
	tb.WriteString("\tdefer func() {\n\t\tif r := recover(); r != nil {\n\t\t\tfmt.Printf(\"VF-PANIC %v\\n\", r)\n\t\t}\n\t\truntime.ReadMemStats(&m1)\n\t\tfmt.Printf(\"VF-ALLOC %d\\n\", m1.TotalAlloc-m0.TotalAlloc)\n\t\tfmt.Println(\"VF-END\")\n\t}()\n\tf()\n}\n")
	testFile := filepath.Join(r.scratch, strings.ReplaceAll(dir, "/", "_")+"_zz_replay_test.go")
	os.WriteFile(testFile, []byte(tb.String()), 0644)
	ov[filepath.Join(repoDir, dir, "zz_replay_test.go")] = testFile
	ovj, _ := json.Marshal(map[string]interface{}{"Replace": ov})
	ovFile := filepath.Join(r.scratch, strings.ReplaceAll(dir, "/", "_")+"_overlay.json")
	os.WriteFile(ovFile, ovj, 0644)
	bin := filepath.Join(r.scratch, strings.ReplaceAll(dir, "/", "_")+".test")
	argv := []string{"test", "-c", "-vet=off", "-overlay", ovFile, "-o", bin}
	for _, h := range r.hfs {
		if h.Dir == dir && bytes.Contains(h.Src, []byte("\n//vf:race")) {
			argv = append(argv, "-race")
			break
		}
	}
	argv = append(argv, "./"+dir)
	cmd := exec.Command("go", argv...)
	cmd.Dir = repoDir
	cmd.Env = goEnv()
	out, err := cmd.CombinedOutput()
	if err != nil {
		r.buildErr[dir] = string(out)
		return "", fmt.Errorf("native build failed: %s", out)
	}
	r.bins[dir] = bin
	return bin, nil
}

type replayResult struct {
	Out      string
	Asserts  []string
	Panic    string
	Deadlock bool
	Assume   bool
	Mismatch bool
	Obs      []string
	Ended    bool
	TimedOut bool
	Fatal    bool
	Alloc    int64
}

var replayNoStub = map[string]string{}

func (r *replayer) run(dir, harness string, v *Violation, file string) (*replayResult, error) {
	replayNoStub[harness] = harnessNoStub(r.hfs, harness)
	bin, err := r.binary(dir)
	if err != nil {
		return nil, err
	}
	b, _ := json.MarshalIndent(map[string]interface{}{"property": r.prop, "pkg": repoMod + "/" + dir, "dir": dir, "harness": harness, "label": v.Label, "kind": v.Kind, "msg": v.Msg,
		"choose": v.Choose, "inputs": v.Inputs, "derived": v.Derived, "tier": r.tier, "obs": v.Obs, "pos": v.Pos}, "", " ")
	os.MkdirAll(filepath.Dir(file), 0755)
	if err := os.WriteFile(file, b, 0644); err != nil {
		return nil, err
	}
	return runReplayBinary(bin, filepath.Join(repoDir, dir), harness, file, r.tier)
}

// harnessNoStub: the harness carries the `nostub` directive
func harnessNoStub(hfs []*HarnessFile, name string) string {
	for _, h := range hfs {
		for _, f := range h.Funcs {
			if f.Name == name {
				return f.Dirs["nostub"]
			}
		}
	}
	return ""
}

func runReplayBinary(bin, cwd, harness, file, tier string) (*replayResult, error) {
	ctx, cancel := context.WithTimeout(context.Background(), 40*time.Second)
	defer cancel()
	cmd := exec.CommandContext(ctx, bin, "-test.run", "^TestZZReplay$", "-test.v", "-test.timeout", "30s")
	cmd.Dir = cwd
	if v := replayNoStub[harness]; v != "" {
		cmd.Env = append(cmd.Env, "ZZVF_NOSTUB="+v)
	}
	cmd.Env = append(append(os.Environ(), cmd.Env...), "TMPDIR="+filepath.Dir(bin), "ZZVF_REPLAY="+file, "ZZVF_HARNESS="+harness, "ZZVF_TIER="+tier)
	var buf bytes.Buffer
	cmd.Stdout = &buf
	cmd.Stderr = &buf
	cmd.Run()
	res := &replayResult{Out: buf.String()}
	if ctx.Err() != nil {
		res.TimedOut = true
	}
	for _, l := range strings.Split(res.Out, "\n") {
		l = strings.TrimSpace(l)
		switch {
		case strings.HasPrefix(l, "VF-ASSERT "):
			res.Asserts = append(res.Asserts, strings.TrimPrefix(l, "VF-ASSERT "))
		case strings.HasPrefix(l, "VF-PANIC "):
			res.Panic = strings.TrimPrefix(l, "VF-PANIC ")
		case strings.HasPrefix(l, "VF-DEADLOCK"):
			res.Deadlock = true
		case l == "VF-ASSUME-FAIL":
			res.Assume = true
		case strings.HasPrefix(l, "VF-MISMATCH"):
			res.Mismatch = true
		case strings.HasPrefix(l, "VF-OBS "):
			res.Obs = append(res.Obs, strings.TrimPrefix(l, "VF-OBS "))
		case strings.HasPrefix(l, "VF-ALLOC "):
			fmt.Sscanf(l, "VF-ALLOC %d", &res.Alloc)
		case l == "VF-END":
			res.Ended = true
		case strings.HasPrefix(l, "fatal error:") || strings.Contains(l, "panic: test timed out"):
			res.Fatal = true
		}
	}
	return res, nil
}

func confirmed(v *Violation, rr *replayResult) (bool, string) {
	if v.Kind == "assert" && (rr.Assume || rr.Mismatch) {
		// the counterexample's path ends at the failing assertion: inputs drawn after it are
		// not part of the model (they replay as 0) and may leave the path — what counts is
		// that the assertion failed while the native run was still on the path
		for _, l := range strings.Split(rr.Out, "\n") {
			l = strings.TrimSpace(l)
			if l == "VF-ASSUME-FAIL" || strings.HasPrefix(l, "VF-MISMATCH") {
				break
			}
			if l == "VF-ASSERT "+v.Label {
				return true, ""
			}
		}
	}
	if rr.Assume || rr.Mismatch {
		return false, "native run left the executor's path (assumption failed / input mismatch)"
	}
	switch v.Kind {
	case "assert":
		for _, a := range rr.Asserts {
			if a == v.Label {
				return true, ""
			}
		}
		return false, "native assertion did not fail"
	case "panic":
		if rr.Panic != "" {
			return true, ""
		}
		return false, "native run did not panic"
	case "race":
		if strings.Contains(rr.Out, "DATA RACE") {
			return true, ""
		}
		return false, "the race detector reported nothing"
	case "deadlock":
		if rr.Deadlock || rr.TimedOut || rr.Fatal {
			return true, ""
		}
		return false, "native run did not hang"
	case "fatal":
		if rr.Fatal || (!rr.Ended && !rr.TimedOut) {
			return true, ""
		}
		return false, "native run did not die with a fatal error"
	case "alloc":
		if rr.Fatal || rr.Alloc > 1<<20 || strings.Contains(rr.Panic, "makeslice") || strings.Contains(rr.Panic, "out of memory") || strings.Contains(rr.Panic, "out of range") {
			return true, ""
		}
		return false, fmt.Sprintf("native run allocated only %d bytes", rr.Alloc)
	}
	return false, "unknown kind"
}

// ---------- reporting ----------

type harnessSample struct {
	Harness   string            `json:"harness"`
	Package   string            `json:"package"`
	Paths     int               `json:"paths"`
	Completed int               `json:"completed_paths"`
	Ends      map[string]int    `json:"path_ends"`
	Bounds    map[string]interface{} `json:"bounds"`
	Labels    []string          `json:"obligation_labels"`
	Reached   []string          `json:"reach_labels"`
	Witness   interface{}       `json:"witness,omitempty"`
	PathSample []string         `json:"path_samples,omitempty"`
}

func report(prop, tier string, seed int, jobs []*Job, rep *replayer, P *Program, wall time.Duration, writeEvidence, verbose bool, phases map[string]float64) int {
	known := loadKnown()
	openKF := map[string]KF{}
	for _, k := range known.Open {
		if k.Property == prop {
			openKF[k.Label] = k
		}
	}
	violations := 0
	var lines []string
	inconclusive := []map[string]string{}
	knownHit := []string{}
	unrepro := []string{}
	states, transitions := 0, int64(0)
	obligs, discharged, concrete := 0, 0, 0
	distinctNontrivial := 0
	tracesValidated := 0
	witnessFailed := 0
	funcs := map[string]bool{}
	stubs := map[string]bool{}
	skipped := map[string]bool{}
	assumptions := map[string]bool{}
	queries := map[string]int{}
	solverS := 0.0
	cacheHits := 0
	unwinding := 0
	vacuous := 0
	var samples []interface{}
	hitKF := map[string]bool{}
	sort.Slice(jobs, func(i, k int) bool { return jobs[i].Name < jobs[k].Name })
	for _, j := range jobs {
		states += j.Paths
		transitions += j.Steps
		for k := range j.Funcs {
			funcs[k] = true
		}
		for k := range j.Stubs {
			stubs[k] = true
		}
		for k := range j.SkippedGo {
			skipped[k] = true
		}
		for k := range j.Assumptions {
			assumptions[k] = true
		}
		for k, v := range j.Solver.Queries {
			queries[k] += v
		}
		for _, v := range j.Solver.Wall {
			solverS += v
		}
		cacheHits += j.Solver.CacheHits
		hs := harnessSample{Harness: j.Name, Package: j.Pkg, Paths: j.Paths, Completed: j.Completed, Ends: j.Ends,
			Bounds: map[string]interface{}{"max_paths": j.Cfg.MaxPaths, "max_steps_per_path": j.Cfg.MaxSteps, "max_block_visits": j.Cfg.MaxVisits, "max_fanout": j.Cfg.MaxFan, "query_timeout_s": j.Cfg.QTimeout.Seconds(), "solvers": j.Cfg.Solvers},
			PathSample: j.PathSamples}
		for _, m := range j.Unwind {
			unwinding++
			lines = append(lines, fmt.Sprintf("INCONCLUSIVE property=%s harness=%s unwinding: %s", prop, j.Name, m))
			inconclusive = append(inconclusive, map[string]string{"harness": j.Name, "reason": "unwinding: " + m})
		}
		if n := j.Ends["unwind"]; n > len(j.Unwind) {
			unwinding += n - len(j.Unwind)
		}
		for _, m := range j.Unsupported {
			lines = append(lines, fmt.Sprintf("INCONCLUSIVE property=%s harness=%s unsupported: %s", prop, j.Name, m))
			inconclusive = append(inconclusive, map[string]string{"harness": j.Name, "reason": "unsupported: " + m})
		}
		if j.Disagreements > 0 {
			lines = append(lines, fmt.Sprintf("INCONCLUSIVE property=%s harness=%s %d solver disagreements", prop, j.Name, j.Disagreements))
			inconclusive = append(inconclusive, map[string]string{"harness": j.Name, "reason": "solver disagreement"})
		}
		for l := range j.Reached {
			hs.Reached = append(hs.Reached, l)
		}
		sort.Strings(hs.Reached)
		var labels []string
		for l := range j.Obligs {
			labels = append(labels, l)
		}
		sort.Strings(labels)
		hs.Labels = labels
		for _, l := range labels {
			o := j.Obligs[l]
			obligs++
			if o.Discharged > 0 {
				distinctNontrivial++
			}
			full := j.Name + "/" + l
			switch {
			case o.Violation != nil:
				file := filepath.Join(verifDir, "replays", prop, fmt.Sprintf("%s-%s.json", j.Name, sanitize(l)))
				if o.Violation.NoReplay {
					lines = append(lines, fmt.Sprintf("INCONCLUSIVE property=%s label=%s counterexample found but harness is not natively replayable (havoc): %s", prop, full, o.Violation.Msg))
					inconclusive = append(inconclusive, map[string]string{"label": full, "reason": "counterexample not replayable"})
					continue
				}
				rr, err := rep.run(j.Pkg, j.Name, o.Violation, file)
				if err != nil {
					lines = append(lines, fmt.Sprintf("INCONCLUSIVE property=%s label=%s replay failed: %v", prop, full, err))
					inconclusive = append(inconclusive, map[string]string{"label": full, "reason": "replay build failed"})
					continue
				}
				tracesValidated++
				ok, why := confirmed(o.Violation, rr)
				if !ok {
					unrepro = append(unrepro, full)
					lines = append(lines, fmt.Sprintf("INCONCLUSIVE property=%s label=%s counterexample not reproduced natively (%s) replay=%s", prop, full, why, file))
					inconclusive = append(inconclusive, map[string]string{"label": full, "reason": "unreproduced: " + why})
					if verbose {
						lines = append(lines, "    native output: "+strings.ReplaceAll(tail(rr.Out, 600), "\n", "\n    "))
					}
					continue
				}
				if kf, isKnown := openKF[full]; isKnown {
					hitKF[full] = true
					knownHit = append(knownHit, full)
					lines = append(lines, fmt.Sprintf("KNOWN-FINDING: property=%s %s — %s", prop, full, kf.What))
					continue
				}
				violations++
				lines = append(lines, fmt.Sprintf("VIOLATION property=%s replay=%s label=%s kind=%s %s", prop, file, full, o.Violation.Kind, o.Violation.Msg))
			case len(o.Inconclusive) > 0:
				lines = append(lines, fmt.Sprintf("INCONCLUSIVE property=%s label=%s %s", prop, full, o.Inconclusive[0]))
				inconclusive = append(inconclusive, map[string]string{"label": full, "reason": o.Inconclusive[0]})
			default:
				discharged++
				if o.Discharged == 0 {
					concrete++
				}
			}
		}
		if len(j.Reached) == 0 {
			// every path ended in a panic/deadlock/fatal site that is a listed known finding:
			// the end of the harness is unreachable because of that finding, not vacuously
			blocked := j.Paths > 0
			for k, n := range j.Ends {
				if n > 0 && k != "panic" && k != "deadlock" && k != "fatal" {
					blocked = false
				}
			}
			nk := 0
			for _, l := range labels {
				if o := j.Obligs[l]; o.Violation != nil && (strings.HasPrefix(l, "panic@") || strings.HasPrefix(l, "deadlock/") || strings.HasPrefix(l, "fatal@")) {
					if hitKF[j.Name+"/"+l] {
						nk++
					} else {
						blocked = false
					}
				}
			}
			if blocked && nk > 0 {
				lines = append(lines, fmt.Sprintf("NOTE property=%s harness=%s end of harness not reached: every path ends in a listed known finding", prop, j.Name))
				hs.Reached = append(hs.Reached, "(blocked by known finding)")
			} else {
				vacuous++
				lines = append(lines, fmt.Sprintf("INCONCLUSIVE property=%s harness=%s vacuous: no Reach label was hit on a feasible path", prop, j.Name))
				inconclusive = append(inconclusive, map[string]string{"harness": j.Name, "reason": "vacuous"})
			}
		}
		// witnesses: translator validation
		for wi, w := range j.Witnesses {
			file := filepath.Join(rep.scratch, fmt.Sprintf("witness-%s-%d.json", j.Name, wi))
			rr, err := rep.run(j.Pkg, j.Name, w, file)
			if err != nil {
				lines = append(lines, fmt.Sprintf("INCONCLUSIVE property=%s harness=%s witness replay build failed: %v", prop, j.Name, err))
				inconclusive = append(inconclusive, map[string]string{"harness": j.Name, "reason": "witness replay build failed"})
				break
			}
			bad := ""
			switch {
			case rr.Assume || rr.Mismatch:
				bad = "native run left the executor's path"
			case rr.Panic != "" || !rr.Ended:
				bad = "native run panicked/did not finish: " + rr.Panic
			case !sameSet(rr.Asserts, w.ExpectFail):
				bad = fmt.Sprintf("assertion outcomes differ: native failed %v, executor expects %v", rr.Asserts, w.ExpectFail)
			case strings.Join(rr.Obs, "|") != strings.Join(w.Obs, "|"):
				bad = fmt.Sprintf("observed values differ: native %v executor %v", rr.Obs, w.Obs)
			}
			if bad != "" {
				witnessFailed++
				keep := filepath.Join(verifDir, "replays", prop, fmt.Sprintf("%s-witness%d.json", j.Name, wi))
				os.MkdirAll(filepath.Dir(keep), 0755)
				if b, err := os.ReadFile(file); err == nil {
					os.WriteFile(keep, b, 0644)
				}
				lines = append(lines, fmt.Sprintf("INCONCLUSIVE property=%s harness=%s witness trace disagrees with native execution: %s replay=%s", prop, j.Name, bad, keep))
				inconclusive = append(inconclusive, map[string]string{"harness": j.Name, "reason": "witness mismatch: " + bad})
				if verbose {
					lines = append(lines, "    native output: "+strings.ReplaceAll(tail(rr.Out, 600), "\n", "\n    "))
				}
			} else {
				tracesValidated++
				if hs.Witness == nil {
					hs.Witness = map[string]interface{}{"choose": w.Choose, "inputs": w.Inputs, "observed": w.Obs}
				}
			}
		}
		samples = append(samples, hs)
	}
	for l, kf := range openKF {
		if !hitKF[l] {
			ran := false
			for _, j := range jobs {
				if strings.HasPrefix(l, j.Name+"/") {
					ran = true
				}
			}
			if ran {
				lines = append(lines, fmt.Sprintf("STALE-FINDING property=%s %s — listed as open but did not fail: %s", prop, l, kf.What))
			}
		}
	}
	sort.Strings(lines)
	for _, l := range lines {
		fmt.Println(l)
	}
	var fl, sl, sk, as []string
	for k := range funcs {
		if strings.Contains(k, "ZZ_") || strings.Contains(k, "zzvf") {
			continue
		}
		fl = append(fl, k)
	}
	for k := range stubs {
		sl = append(sl, k)
	}
	for k := range skipped {
		sk = append(sk, k)
	}
	for k := range assumptions {
		as = append(as, k)
	}
	sort.Strings(fl)
	sort.Strings(sl)
	sort.Strings(sk)
	sort.Strings(as)
	repoFuncs := 0
	for _, f := range fl {
		if strings.Contains(f, repoMod) {
			repoFuncs++
		}
	}
	fmt.Printf("SUMMARY property=%s tier=%s harnesses=%d paths=%d ssa_steps=%d obligations=%d discharged=%d (solver-decided labels=%d) violations=%d known=%d inconclusive=%d witnesses_validated=%d repo_functions=%d queries=%v solver_s=%.1f wall_s=%.1f\n",
		prop, tier, len(jobs), states, transitions, obligs, discharged, distinctNontrivial, violations, len(knownHit), len(inconclusive), tracesValidated, repoFuncs, queries, solverS, wall.Seconds())
	if writeEvidence {
		assume := []string{"single logical thread executes the code under test; goroutine spawns are recorded and not run",
			"go/ssa translation, the executor's semantics for SSA instructions (validated per run by native witness replay), the SMT solvers",
			"bounds: container sizes, string lengths and loop trip counts are concrete per path and enumerated by the harness; nothing is claimed outside them"}
		assume = append(assume, as...)
		for _, s := range sl {
			assume = append(assume, "stub/model: "+s)
		}
		ev := map[string]interface{}{
			"property_id": prop, "tier": tier, "seed": seed, "level": "model_checking", "wall_s": wall.Seconds(), "violations": violations,
			"assumptions": assume,
			"coverage": map[string]interface{}{
				"states": max1(states), "transitions": max1(int(transitions)), "traces_validated_against_impl": tracesValidated, "samples": samples,
				"exhaustive": false, "obligations": obligs, "discharged": discharged, "evaluations": max1(obligs), "distinct_nontrivial": distinctNontrivial,
				"rule": "one obligation per assertion label / implicit panic-deadlock-alloc site per harness; non-trivial = decided by at least one solver query (unsat) over symbolic inputs rather than by constant folding",
				"functions_encoded": fl, "repo_functions_encoded": repoFuncs, "queries": queries, "cache_hits": cacheHits, "solver_s": solverS,
				"known_findings_hit": knownHit, "inconclusive": inconclusive, "unreproduced": unrepro, "stubs_used": sl, "skipped_goroutines": sk,
				"unwinding_failures": unwinding, "vacuous_harnesses": vacuous, "witness_mismatches": witnessFailed, "phases_s": phases, "init_warnings": P.initErrs,
				"technique": "bounded symbolic execution of go/ssa of /repo's working tree; each obligation decided by SMT (z3 5.1 / cvc5 int-blasting / z3 4.8) over all values of the symbolic inputs within the stated bounds",
			},
		}
		b, _ := json.MarshalIndent(ev, "", " ")
		os.MkdirAll(filepath.Join(verifDir, "evidence"), 0755)
		os.WriteFile(filepath.Join(verifDir, "evidence", prop+".json"), b, 0644)
	}
	if violations > 0 {
		return 1
	}
	if strictMode && len(inconclusive) > 0 {
		fmt.Println("SELFTEST-FAILED: inconclusive items in strict mode")
		return 1
	}
	return 0
}

func max1(n int) int {
	if n < 1 {
		return 1
	}
	return n
}

func sanitize(s string) string {
	var sb strings.Builder
	for _, r := range s {
		if r >= 'a' && r <= 'z' || r >= 'A' && r <= 'Z' || r >= '0' && r <= '9' || r == '-' || r == '_' || r == '.' {
			sb.WriteRune(r)
		} else {
			sb.WriteByte('_')
		}
	}
	return sb.String()
}

func tail(s string, n int) string {
	if len(s) > n {
		return s[len(s)-n:]
	}
	return s
}

// cmdReplay re-runs a stored replay file natively.
func cmdReplay(args []string) int {
	if len(args) < 1 {
		fmt.Fprintln(os.Stderr, "usage: gosym replay <file>")
		return 2
	}
	b, err := os.ReadFile(args[0])
	if err != nil {
		fmt.Fprintln(os.Stderr, err)
		return 2
	}
	var rf struct {
		Property, Dir, Harness, Label, Kind, Tier string
	}
	json.Unmarshal(b, &rf)
	hfs, err := loadHarnessFiles(rf.Property)
	if err != nil {
		fmt.Fprintln(os.Stderr, err)
		return 2
	}
	rep := newReplayer(rf.Property, rf.Tier, hfs)
	defer rep.cleanup()
	needP := false
	for _, h := range hfs {
		if len(h.Stubs) > 0 {
			needP = true
		}
	}
	if needP {
		P, _, err := loadProgram(hfs)
		if err != nil {
			fmt.Fprintln(os.Stderr, err)
			return 2
		}
		rep.P = P
	}
	bin, err := rep.binary(rf.Dir)
	if err != nil {
		fmt.Fprintln(os.Stderr, err)
		return 2
	}
	abs, _ := filepath.Abs(args[0])
	replayNoStub[rf.Harness] = harnessNoStub(hfs, rf.Harness)
	rr, _ := runReplayBinary(bin, filepath.Join(repoDir, rf.Dir), rf.Harness, abs, rf.Tier)
	fmt.Print(rr.Out)
	ok, why := confirmed(&Violation{Label: rf.Label, Kind: rf.Kind}, rr)
	if ok {
		fmt.Printf("VIOLATION property=%s replay=%s label=%s/%s\n", rf.Property, args[0], rf.Harness, rf.Label)
		return 1
	}
	fmt.Printf("not reproduced: %s\n", why)
	return 0
}

func (r *replayer) stubOverlay(ov map[string]string) error {
	type edit struct {
		lo, hi int
		text   string
	}
	byFile := map[string][]edit{}
	for _, h := range r.hfs {
		for _, st := range h.Stubs {
			i := strings.LastIndex(st[0], ".")
			if i < 0 {
				return fmt.Errorf("bad stub name %s", st[0])
			}
			var fn *ssa.Function
			if strings.HasPrefix(st[0], "(*") {
				// method: (*pkgpath.Type).name
				recv := st[0][2 : i-1]
				k := strings.LastIndex(recv, ".")
				if k < 0 {
					return fmt.Errorf("bad stub name %s", st[0])
				}
				pkg := r.P.prog.ImportedPackage(recv[:k])
				if pkg == nil {
					return fmt.Errorf("stub: package %s not loaded", recv[:k])
				}
				if tp := pkg.Type(recv[k+1:]); tp != nil {
					fn = r.P.prog.LookupMethod(types.NewPointer(tp.Type()), pkg.Pkg, st[0][i+1:])
				}
			} else {
				pkg := r.P.prog.ImportedPackage(st[0][:i])
				if pkg == nil {
					return fmt.Errorf("stub: package %s not loaded", st[0][:i])
				}
				fn = pkg.Func(st[0][i+1:])
			}
			if fn == nil || fn.Syntax() == nil {
				return fmt.Errorf("stub: function %s not found", st[0])
			}
			fd, ok := fn.Syntax().(*ast.FuncDecl)
			if !ok || fd.Body == nil {
				return fmt.Errorf("stub: %s has no body", st[0])
			}
			lo := r.P.fset.Position(fd.Body.Lbrace)
			dup := false
			for _, e := range byFile[lo.Filename] {
				if e.lo == lo.Offset {
					dup = true
				}
			}
			if !dup {
				// keep the original body (its imports stay used); the stub call comes first
				target := strings.TrimSuffix(st[1], "+")
				callArgs := ""
				if strings.HasSuffix(st[1], "+") && fd.Type.Params != nil {
					var names []string
					for _, f := range fd.Type.Params.List {
						for _, n := range f.Names {
							names = append(names, n.Name)
						}
					}
					callArgs = strings.Join(names, ", ")
				}
				ret := "return "
				if fd.Type.Results == nil || len(fd.Type.Results.List) == 0 {
					ret = "return; "
					byFile[lo.Filename] = append(byFile[lo.Filename], edit{lo.Offset, lo.Offset + 1, "{ if zzvfstub.StubActive(" + strconv.Quote(st[0]) + ") { zzvfstub." + target + "(" + callArgs + "); return }; "})
				} else {
					byFile[lo.Filename] = append(byFile[lo.Filename], edit{lo.Offset, lo.Offset + 1, "{ if zzvfstub.StubActive(" + strconv.Quote(st[0]) + ") { " + ret + "zzvfstub." + target + "(" + callArgs + ") }; "})
				}
			}
		}
	}
	for file, edits := range byFile {
		src, err := os.ReadFile(file)
		if err != nil {
			return err
		}
		sort.Slice(edits, func(i, k int) bool { return edits[i].lo > edits[k].lo })
		out := string(src)
		for _, e := range edits {
			out = out[:e.lo] + e.text + out[e.hi:]
		}
		// add the import right after the package clause
		pi := strings.Index(out, "\npackage ")
		if strings.HasPrefix(out, "package ") {
			pi = -1
		}
		nl := strings.Index(out[pi+1:], "\n") + pi + 1
		out = out[:nl+1] + "import zzvfstub \"github.com/whatap/golib/zzvf\"\n" + out[nl+1:]
		tmp := filepath.Join(r.scratch, "stub_"+strings.ReplaceAll(strings.TrimPrefix(file, "/"), "/", "_"))
		if err := os.WriteFile(tmp, []byte(out), 0644); err != nil {
			return err
		}
		ov[file] = tmp
	}
	return nil
}

func sameSet(a, b []string) bool {
	m := map[string]int{}
	for _, x := range a {
		m[x] |= 1
	}
	for _, x := range b {
		m[x] |= 2
	}
	for _, v := range m {
		if v != 3 {
			return false
		}
	}
	return true
}
