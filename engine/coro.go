package main

// Cooperative goroutines. A `go f(...)` whose callee matches a `//vf:go <substring>`
// directive of the harness is run as a coroutine of the path's logical thread: it is
// started lazily and only advanced when the main thread blocks on a channel it can
// serve (producer/consumer code such as a lexer feeding a parser). Scheduling is
// deterministic (creation order), so re-execution under a decision prefix reproduces the
// path. Every other `go` statement is recorded and skipped as before.
//
// Each coroutine runs the interpreter on its own host goroutine with strict hand-off
// (exactly one of them touches the Exec at any time).

import (
	"go/token"
	"go/types"
	"strings"

	"golang.org/x/tools/go/ssa"
)

const (
	coNew = iota
	coRunnable
	coBlockedSend
	coBlockedRecv
	coDone
)

type coro struct {
	id     int
	name   string
	fn     Value
	args   []Value
	pos    token.Pos
	state  int
	ch     *ChanV
	val    Value
	ok     bool
	frame  *Frame
	depth  int
	resume chan bool
	yield  chan coEvent
	live   bool // host goroutine exists
}

type coEvent struct {
	kind int // 0 blocked, 1 done, 2 panic, 3 killed
	r    interface{}
}

type coKill struct{}

func (P *Program) goRuns(name string) bool {
	for _, p := range P.goRun {
		if strings.Contains(name, p) {
			return true
		}
	}
	return false
}

func (ex *Exec) spawn(fr *Frame, x *ssa.Go) bool {
	name := callName(&x.Call)
	if ex.initMode || !ex.P.goRuns(name) {
		return false
	}
	fn, args := ex.prepareCall(fr, &x.Call)
	c := &coro{id: len(ex.coros) + 1, name: name, fn: fn, args: args, pos: x.Pos(), resume: make(chan bool), yield: make(chan coEvent)}
	ex.coros = append(ex.coros, c)
	ex.stub("go " + name + " (run as a cooperative coroutine of the logical thread)")
	return true
}

// runCoro advances coroutine c until it blocks, finishes or panics (main thread only).
func (ex *Exec) runCoro(c *coro) {
	if ex.cur != nil {
		ex.unsupported("coroutine scheduling from inside a coroutine")
	}
	mf, md, mp := ex.frame, ex.depth, ex.curPos
	ex.cur = c
	if c.state == coNew {
		c.state = coRunnable
		c.live = true
		ex.frame, ex.depth = nil, 0
		go c.host(ex)
	} else {
		ex.frame, ex.depth = c.frame, c.depth
	}
	c.resume <- true
	ev := <-c.yield
	c.frame, c.depth = ex.frame, ex.depth
	ex.frame, ex.depth, ex.curPos = mf, md, mp
	ex.cur = nil
	switch ev.kind {
	case 1:
		c.state = coDone
		c.live = false
	case 2:
		c.state = coDone
		c.live = false
		panic(ev.r) // a panic in any goroutine ends the program: surfaces on the main path
	}
}

func (c *coro) host(ex *Exec) {
	defer func() {
		r := recover()
		switch r.(type) {
		case nil:
			c.yield <- coEvent{kind: 1}
		case coKill:
			c.yield <- coEvent{kind: 3}
		default:
			c.yield <- coEvent{kind: 2, r: r}
		}
	}()
	if !<-c.resume {
		panic(coKill{})
	}
	ex.callValue(c.fn, c.args, c.pos)
}

// block parks the running coroutine until the main thread completes its channel operation.
func (ex *Exec) coBlock(c *coro) {
	c.yield <- coEvent{kind: 0}
	if !<-c.resume {
		panic(coKill{})
	}
}

// killCoros ends the host goroutines of the path's coroutines (end of path, main thread).
func (ex *Exec) killCoros() {
	for _, c := range ex.coros {
		if c.live {
			c.resume <- false
			<-c.yield
			c.live = false
		}
	}
	ex.coros = nil
	ex.cur = nil
}

func (ex *Exec) runnableCoro() *coro {
	for _, c := range ex.coros {
		if c.state == coNew || c.state == coRunnable {
			return c
		}
	}
	return nil
}

func (ex *Exec) chanRecv(ch *ChanV, elem types.Type) (Value, bool) {
	if ch == nil {
		ex.abort("deadlock", "chan-recv-nil\x00receive from nil channel blocks forever")
	}
	for {
		if len(ch.buf) > 0 {
			v := ch.buf[0]
			ch.buf = ch.buf[1:]
			return v, true
		}
		for _, c := range ex.coros {
			if c.state == coBlockedSend && c.ch == ch && c != ex.cur {
				v := c.val
				c.state = coRunnable
				return v, true
			}
		}
		if ch.closed {
			return ex.zero(elem), false
		}
		if ex.cur != nil {
			// inside a coroutine: park until the main thread sends
			c := ex.cur
			c.state, c.ch = coBlockedRecv, ch
			ex.coBlock(c)
			return c.val, c.ok
		}
		c := ex.runnableCoro()
		if c == nil {
			ex.abort("deadlock", "chan-recv\x00receive on a channel that no goroutine of the model will ever send on @"+ex.posStr(ex.curPos))
		}
		ex.runCoro(c)
	}
}

func (ex *Exec) chanSend(ch *ChanV, v Value) {
	if ch == nil {
		ex.abort("deadlock", "chan-send-nil\x00send on nil channel blocks forever")
	}
	if ch.closed {
		ex.rtPanic("send on closed channel")
	}
	for {
		for _, c := range ex.coros {
			if c.state == coBlockedRecv && c.ch == ch && c != ex.cur {
				c.val, c.ok = v, true
				c.state = coRunnable
				return
			}
		}
		if len(ch.buf) < ch.cap {
			ch.buf = append(ch.buf, v)
			return
		}
		if ex.cur != nil {
			c := ex.cur
			c.state, c.ch, c.val = coBlockedSend, ch, v
			ex.coBlock(c)
			return // the main thread took the value
		}
		c := ex.runnableCoro()
		if c == nil {
			ex.abort("deadlock", "chan-send\x00send on a channel that no goroutine of the model will ever receive from @"+ex.posStr(ex.curPos))
		}
		ex.runCoro(c)
	}
}

func (ex *Exec) chanClose(ch *ChanV) {
	if ch == nil {
		ex.rtPanic("close of nil channel")
	}
	if ch.closed {
		ex.rtPanic("close of closed channel")
	}
	ch.closed = true
	for _, c := range ex.coros {
		if c.state == coBlockedRecv && c.ch == ch {
			c.val, c.ok = nil, false
			c.state = coRunnable
		}
	}
}

// selectOp: a select whose cases can be decided without blocking (buffered data, closed
// channel, a coroutine parked on the other side); a non-blocking select takes default
// otherwise; a blocking one first lets the coroutines run.
func (ex *Exec) selectOp(fr *Frame, x *ssa.Select) Value {
	type st struct {
		ch   *ChanV
		send Value
		elem types.Type
	}
	states := make([]st, len(x.States))
	for i, s := range x.States {
		ch, _ := ex.get(fr, s.Chan).(*ChanV)
		states[i].ch = ch
		if ct, ok := s.Chan.Type().Underlying().(*types.Chan); ok {
			states[i].elem = ct.Elem()
		}
		if s.Dir == types.SendOnly {
			states[i].send = ex.get(fr, s.Send)
		}
	}
	ready := func(i int) bool {
		s := states[i]
		if s.ch == nil {
			return false
		}
		if x.States[i].Dir == types.SendOnly {
			if s.ch.closed || len(s.ch.buf) < s.ch.cap {
				return true
			}
			for _, c := range ex.coros {
				if c.state == coBlockedRecv && c.ch == s.ch && c != ex.cur {
					return true
				}
			}
			return false
		}
		if len(s.ch.buf) > 0 || s.ch.closed {
			return true
		}
		for _, c := range ex.coros {
			if c.state == coBlockedSend && c.ch == s.ch && c != ex.cur {
				return true
			}
		}
		return false
	}
	pick := -1
	for {
		for i := range states {
			if ready(i) {
				pick = i
				break
			}
		}
		if pick >= 0 || !x.Blocking {
			break
		}
		if ex.cur != nil {
			ex.unsupported("blocking select inside a coroutine")
		}
		c := ex.runnableCoro()
		if c == nil {
			ex.abort("deadlock", "select\x00blocking select with no case that any goroutine of the model will ever enable @"+ex.posStr(ex.curPos))
		}
		ex.runCoro(c)
	}
	res := TupleV{ex.tc.Const(64, uint64(int64(pick))), ex.tc.False}
	for i, s := range x.States {
		if s.Dir != types.RecvOnly {
			continue
		}
		var v Value = ex.zero(states[i].elem)
		if i == pick {
			r, ok := ex.chanRecv(states[i].ch, states[i].elem)
			if r != nil {
				v = r
			}
			res[1] = ex.tc.Bool(ok)
		}
		res = append(res, v)
	}
	if pick >= 0 && x.States[pick].Dir == types.SendOnly {
		ex.chanSend(states[pick].ch, states[pick].send)
	}
	return res
}
