package main

// Path exploration by re-execution under decision prefixes; obligations; results.

import (
	"os"
	"fmt"
	"go/token"
	"sort"
	"strconv"
	"strings"
	"sync"
	"time"

	"golang.org/x/tools/go/ssa"
)

type JobCfg struct {
	MaxPaths  int
	MaxSteps  int64
	MaxVisits int
	MaxFan    int
	QTimeout  time.Duration
	Solvers   []string
	Confirm   bool
	Workers   int
	Witnesses int
	Tier      string
	Deadline  time.Duration
	Cut       int
}

type InputVal struct {
	T string `json:"t"`
	V string `json:"v"`
}

type Violation struct {
	Label   string     `json:"label"`
	Kind    string     `json:"kind"`
	Msg     string     `json:"msg"`
	Choose  []int64    `json:"choose"`
	Inputs  []InputVal `json:"inputs"`
	Derived []bool     `json:"derived"`
	Obs     []string   `json:"obs,omitempty"`
	NoReplay bool      `json:"noreplay,omitempty"`
	ExpectFail []string `json:"expect_fail,omitempty"`
	Pos     string     `json:"pos"`
}

type Oblig struct {
	Label        string
	Discharged   int // by solver (unsat)
	Concrete     int // trivially true (no symbolic content)
	Violation    *Violation
	Inconclusive []string
	Kind         string
}

type Job struct {
	P       *Program
	Name    string
	Prop    string
	Pkg     string
	Fn      *ssa.Function
	Cfg     JobCfg

	start   time.Time
	quick   int64
	mu      sync.Mutex
	cond    *sync.Cond
	work    [][]int64
	active  int
	stopped bool

	// results
	Paths      int
	Completed  int
	Steps      int64
	Obligs     map[string]*Oblig
	Reached    map[string]bool
	Witnesses  []*Violation // replay records of reach witnesses (Kind "witness")
	Ends       map[string]int
	EndSamples map[string]string
	Funcs      map[string]bool
	Stubs      map[string]bool
	SkippedGo  map[string]bool
	Assumptions map[string]bool
	Solver     SolverStats
	Unwind     []string
	Unsupported []string
	Disagreements int
	Unconfirmed int
	Wall       float64
	NoReplay   bool
	NoStub     string
	PathSamples []string
}

func NewJob(P *Program, prop, name, pkg string, fn *ssa.Function, cfg JobCfg) *Job {
	j := &Job{P: P, Prop: prop, Name: name, Pkg: pkg, Fn: fn, Cfg: cfg, Obligs: map[string]*Oblig{}, Reached: map[string]bool{}, Ends: map[string]int{}, EndSamples: map[string]string{},
		Funcs: map[string]bool{}, Stubs: map[string]bool{}, SkippedGo: map[string]bool{}, Assumptions: map[string]bool{}}
	j.cond = sync.NewCond(&j.mu)
	j.Solver.Queries = map[string]int{}
	j.Solver.Wall = map[string]float64{}
	return j
}

func (j *Job) oblig(label, kind string) *Oblig {
	o := j.Obligs[label]
	if o == nil {
		o = &Oblig{Label: label, Kind: kind}
		j.Obligs[label] = o
	}
	return o
}

func (j *Job) push(prefix []int64) {
	j.mu.Lock()
	j.work = append(j.work, prefix)
	j.mu.Unlock()
	j.cond.Signal()
}

func (j *Job) pop() ([]int64, bool) {
	j.mu.Lock()
	defer j.mu.Unlock()
	for {
		if j.stopped {
			return nil, false
		}
		if n := len(j.work); n > 0 {
			p := j.work[n-1]
			j.work = j.work[:n-1]
			j.active++
			return p, true
		}
		if j.active == 0 {
			j.cond.Broadcast()
			return nil, false
		}
		j.cond.Wait()
	}
}

func (j *Job) done() {
	j.mu.Lock()
	j.active--
	if j.active == 0 && len(j.work) == 0 {
		j.cond.Broadcast()
	}
	j.mu.Unlock()
}

// Run explores all paths of the harness.
func (j *Job) Run() {
	t0 := time.Now()
	j.start = t0
	j.work = [][]int64{{}}
	var wg sync.WaitGroup
	nw := j.Cfg.Workers
	if nw < 1 {
		nw = 1
	}
	for w := 0; w < nw; w++ {
		wg.Add(1)
		go func() {
			defer wg.Done()
			tc := NewTermCtx()
			sv := NewSolvers(tc, j.Cfg.Solvers, j.Cfg.QTimeout, j.Cfg.Confirm)
			defer sv.Close()
			npaths := 0
			for {
				prefix, ok := j.pop()
				if !ok {
					break
				}
				// fresh term context periodically to bound memory
				if npaths > 0 && len(tc.terms) > 2000000 {
					j.mergeSolver(sv)
					sv.Close()
					tc = NewTermCtx()
					sv = NewSolvers(tc, j.Cfg.Solvers, j.Cfg.QTimeout, j.Cfg.Confirm)
				}
				if slots != nil {
					slots <- struct{}{}
				}
				j.runPath(tc, sv, prefix)
				if slots != nil {
					<-slots
				}
				npaths++
				j.done()
			}
			j.mergeSolver(sv)
		}()
	}
	wg.Wait()
	j.Wall = time.Since(t0).Seconds()
}

func (j *Job) mergeSolver(sv *Solvers) {
	j.mu.Lock()
	for k, v := range sv.stats.Queries {
		j.Solver.Queries[k] += v
	}
	for k, v := range sv.stats.Wall {
		j.Solver.Wall[k] += v
	}
	j.Solver.CacheHits += sv.stats.CacheHits
	j.Solver.Unknowns += sv.stats.Unknowns
	j.Disagreements += sv.Disagreements
	sv.stats = SolverStats{Queries: map[string]int{}, Wall: map[string]float64{}}
	sv.Disagreements = 0
	j.mu.Unlock()
}

func newExec(P *Program, tc *TermCtx, sv *Solvers) *Exec {
	return &Exec{P: P, tc: tc, sv: sv, overlay: map[*Object]*Object{}, locks: map[string]int{}, rlocks: map[string]int{}, pool: map[string][]Value{}, ghost: map[string]Value{},
		funcs: map[string]bool{}, stubs: map[string]bool{}, assumptions: map[string]bool{}, maxSteps: 1 << 62, ranges: map[int32]urange{}}
}

func (j *Job) runPath(tc *TermCtx, sv *Solvers, prefix []int64) {
	j.mu.Lock()
	if j.Cfg.Deadline > 0 && time.Since(j.start) > j.Cfg.Deadline {
		if !j.stopped {
			j.Unwind = append(j.Unwind, fmt.Sprintf("time budget %s for this harness exhausted after %d paths; exploration stopped (%d prefixes pending)", j.Cfg.Deadline, j.Paths, len(j.work)))
		}
		j.stopped = true
		j.cond.Broadcast()
		j.mu.Unlock()
		return
	}
	j.Paths++
	np := j.Paths
	if j.Cfg.MaxPaths > 0 && np > j.Cfg.MaxPaths {
		if !j.stopped {
			j.Unwind = append(j.Unwind, fmt.Sprintf("path cap %d reached; exploration stopped", j.Cfg.MaxPaths))
		}
		j.stopped = true
		j.cond.Broadcast()
		j.mu.Unlock()
		return
	}
	j.mu.Unlock()

	ex := newExec(j.P, tc, sv)
	ex.job = j
	ex.prefix = prefix
	ex.maxSteps = j.Cfg.MaxSteps
	ex.maxVisits = j.Cfg.MaxVisits
	ex.cutVisits = j.Cfg.Cut
	end, msg := ex.runHarness(j.Fn)

	j.mu.Lock()
	defer j.mu.Unlock()
	j.Steps += ex.steps
	j.Ends[end]++
	if _, ok := j.EndSamples[end]; !ok && msg != "" {
		j.EndSamples[end] = msg
	}
	for k := range ex.funcs {
		j.Funcs[k] = true
	}
	for k := range ex.stubs {
		j.Stubs[k] = true
	}
	for _, k := range ex.skippedGo {
		j.SkippedGo[k] = true
	}
	for k := range ex.assumptions {
		j.Assumptions[k] = true
	}
	if ex.unconfirmed {
		j.Unconfirmed++
	}
	if ex.noReplay {
		j.NoReplay = true
	}
	switch end {
	case "done":
		j.Completed++
	case "unwind":
		if len(j.Unwind) < 20 {
			j.Unwind = append(j.Unwind, msg)
		}
	case "unsupported":
		if len(j.Unsupported) < 20 {
			j.Unsupported = append(j.Unsupported, msg)
		}
	}
	if len(j.PathSamples) < 3 && end == "done" {
		j.PathSamples = append(j.PathSamples, fmt.Sprintf("choose=%v decisions=%d inputs=%d pc=%d", ex.chooses, len(ex.trace), len(ex.inputs), len(ex.pc)))
	}
}

// runHarness executes the harness on one path; returns how the path ended.
func (ex *Exec) runHarness(fn *ssa.Function) (end string, msg string) {
	defer ex.killCoros()
	defer func() {
		r := recover()
		if r == nil {
			return
		}
		switch p := r.(type) {
		case pathAbort:
			end, msg = p.kind, p.msg
			switch p.kind {
			case "deadlock":
				parts := strings.SplitN(p.msg, "\x00", 2)
				ex.failPath("deadlock/"+parts[0], "deadlock", parts[1])
				end = "deadlock"
			case "fatal":
				ex.failPath("fatal@"+lastAt(p.msg), "fatal", p.msg)
			}
		case targetPanic:
			end, msg = "panic", p.msg
			ex.failPath("panic@"+ex.posStr(p.pos), "panic", p.msg)
		case internalCrash:
			end, msg = "unsupported", "executor crash: "+p.String()
		default:
			panic(r)
		}
	}()
	ex.callFunction(fn, nil, nil, token.NoPos)
	ex.pathDone()
	return "done", ""
}

func lastAt(s string) string {
	if i := strings.LastIndex(s, "@"); i >= 0 {
		return s[i+1:]
	}
	return s
}

// ---------- decisions ----------

func (ex *Exec) nextDecision() (int64, bool) {
	if len(ex.trace) < len(ex.prefix) {
		d := ex.prefix[len(ex.trace)]
		ex.trace = append(ex.trace, d)
		return d, true
	}
	return 0, false
}

func (ex *Exec) pushAlt(d int64) {
	alt := make([]int64, len(ex.trace)+1)
	copy(alt, ex.trace)
	alt[len(ex.trace)] = d
	ex.job.push(alt)
}

// addPC appends a constraint to the path condition (deduplicated).
func (ex *Exec) addPC(c *Term) {
	if c == ex.tc.True {
		return
	}
	for _, p := range ex.pc {
		if p == c {
			return
		}
	}
	ex.pc = append(ex.pc, c)
	ex.learn(c)
}

func (ex *Exec) check(extra *Term, model bool) (Result, Model, string) {
	if j := ex.job; j != nil && j.Cfg.Deadline > 0 && time.Since(j.start) > j.Cfg.Deadline+30*time.Second {
		ex.abort("unwind", "time budget %s for this harness exhausted in the middle of a path", j.Cfg.Deadline)
	}
	// independent-constraint slicing: the path condition is known satisfiable (every
	// decision on this path was confirmed feasible), so constraints that share no variable
	// (transitively) with the queried condition cannot affect the answer
	if extra != nil && !model && !ex.unconfirmed && len(ex.pc) > 2 {
		as := ex.slice(extra)
		return ex.sv.Check(as, false)
	}
	as := make([]*Term, 0, len(ex.pc)+1)
	as = append(as, ex.pc...)
	if extra != nil {
		as = append(as, extra)
	}
	return ex.sv.Check(as, model)
}

func (ex *Exec) varsOf(t *Term) []int32 {
	if v, ok := ex.tc.varCache[t.id]; ok {
		return v
	}
	set := map[*Term]bool{}
	ex.tc.VarsOf([]*Term{t}, set)
	ids := make([]int32, 0, len(set))
	for v := range set {
		ids = append(ids, v.id)
	}
	ex.tc.varCache[t.id] = ids
	return ids
}

func (ex *Exec) slice(extra *Term) []*Term {
	in := map[int32]bool{}
	for _, v := range ex.varsOf(extra) {
		in[v] = true
	}
	taken := make([]bool, len(ex.pc))
	out := []*Term{}
	for changed := true; changed; {
		changed = false
		for i, c := range ex.pc {
			if taken[i] {
				continue
			}
			vs := ex.varsOf(c)
			hit := false
			for _, v := range vs {
				if in[v] {
					hit = true
					break
				}
			}
			if !hit {
				continue
			}
			taken[i] = true
			changed = true
			out = append(out, c)
			for _, v := range vs {
				in[v] = true
			}
		}
	}
	return append(out, extra)
}

// fork decides a symbolic branch condition.
var forkDebug = os.Getenv("GOSYM_FORKDBG") != ""

func (ex *Exec) fork(c *Term) bool {
	if ex.initMode {
		panic("symbolic branch during package initialisation")
	}
	if d, ok := ex.nextDecision(); ok {
		switch d {
		case 1:
			ex.addPC(c)
			return true
		case 0:
			ex.addPC(ex.tc.Not(c))
			return false
		case 3:
			return true
		default:
			return false
		}
	}
	if v, known := ex.quickDecide(c); known {
		if v {
			ex.trace = append(ex.trace, 3)
		} else {
			ex.trace = append(ex.trace, 2)
		}
		return v
	}
	rT, _, _ := ex.check(c, false)
	if rT == Unsat {
		ex.trace = append(ex.trace, 2)
		return false
	}
	rF, _, _ := ex.check(ex.tc.Not(c), false)
	if rF == Unsat {
		ex.trace = append(ex.trace, 3)
		return true
	}
	if rT == Unknown || rF == Unknown {
		ex.unconfirmed = true
	}
	ex.pushAlt(0)
	ex.trace = append(ex.trace, 1)
	ex.addPC(c)
	return true
}

// forkValue enumerates the feasible values of t (up to MaxFan) and forks over them.
func (ex *Exec) forkValue(t *Term, what string) int64 {
	if ex.initMode {
		panic("symbolic value concretised during package initialisation")
	}
	if d, ok := ex.nextDecision(); ok {
		ex.addPC(ex.tc.Eq(t, ex.tc.Const(int(t.w), uint64(d))))
		return d
	}
	var vals []uint64
	excl := ex.tc.True
	for {
		r, m, why := ex.check(excl, true)
		if r == Unsat {
			break
		}
		if r == Unknown {
			ex.abort("unwind", "cannot enumerate values of %s (%s): solver unknown: %s", what, ex.posStr(ex.curPos), why)
		}
		v, _ := ex.tc.Eval(t, m)
		vals = append(vals, v)
		excl = ex.tc.And(excl, ex.tc.Not(ex.tc.Eq(t, ex.tc.Const(int(t.w), v))))
		if len(vals) > ex.job.Cfg.MaxFan {
			ex.abort("unwind", "more than %d feasible values for %s at %s", ex.job.Cfg.MaxFan, what, ex.posStr(ex.curPos))
		}
	}
	if len(vals) == 0 {
		ex.abort("infeasible", "no feasible value for %s", what)
	}
	sort.Slice(vals, func(i, k int) bool { return vals[i] < vals[k] })
	if forkDebug {
		fmt.Fprintf(os.Stderr, "FORKVALUE %d values: %s at %s\n%s\n", len(vals), what, ex.posStr(ex.curPos), ex.stackStr())
	}
	for _, v := range vals[1:] {
		ex.pushAlt(int64(v))
	}
	ex.trace = append(ex.trace, int64(vals[0]))
	ex.addPC(ex.tc.Eq(t, ex.tc.Const(int(t.w), vals[0])))
	return int64(vals[0])
}

func (ex *Exec) choose(n int64) int64 {
	if n <= 0 {
		ex.abort("infeasible", "Choose(%d)", n)
	}
	if d, ok := ex.nextDecision(); ok {
		return d
	}
	for i := n - 1; i >= 1; i-- {
		ex.pushAlt(i)
	}
	ex.trace = append(ex.trace, 0)
	return 0
}

func (ex *Exec) assume(c *Term, why string) {
	if why != "" {
		ex.assumptions[why] = true
	}
	if c.IsConst() {
		if c.val == 0 {
			ex.abort("infeasible", "assumption false")
		}
		return
	}
	if len(ex.trace) >= len(ex.prefix) {
		if r, _, _ := ex.check(c, false); r == Unsat {
			ex.abort("infeasible", "assumption unsatisfiable")
		}
	}
	ex.addPC(c)
}

// ---------- obligations ----------

func (ex *Exec) snapshot(label, kind, msg string, m Model, pos token.Pos) *Violation {
	v := &Violation{Label: label, Kind: kind, Msg: msg, Choose: append([]int64(nil), ex.chooses...), Derived: append([]bool(nil), ex.derived...), NoReplay: ex.noReplay, Pos: ex.posStr(pos)}
	for _, in := range ex.inputs {
		if in.T == "bytes" {
			var sb strings.Builder
			for _, t := range in.vars {
				fmt.Fprintf(&sb, "%02x", m[t.name]&0xff)
			}
			v.Inputs = append(v.Inputs, InputVal{T: "bytes", V: sb.String()})
			continue
		}
		val, inModel := m[in.vars[0].name]
		if !inModel && in.vars[0].ranged {
			val = in.vars[0].rlo // unconstrained by the query: any value of its declared range
		}
		v.Inputs = append(v.Inputs, InputVal{T: in.T, V: strconv.FormatUint(val, 10)})
	}
	for _, o := range ex.observes {
		v.Obs = append(v.Obs, o.tag+"="+ex.evalObs(o.v, m))
	}
	seen := map[string]bool{}
	for _, a := range ex.assertLog {
		if val, ok := ex.tc.Eval(a.cond, m); ok && val == 0 && !seen[a.label] {
			seen[a.label] = true
			v.ExpectFail = append(v.ExpectFail, a.label)
		}
	}
	return v
}

func (ex *Exec) evalObs(v Value, m Model) string {
	if iv, ok := v.(IfaceV); ok {
		v = iv.v
	}
	switch x := v.(type) {
	case *Term:
		val, ok := ex.tc.Eval(x, m)
		if !ok {
			return "?"
		}
		if x.w == 0 {
			return strconv.FormatUint(val&1, 10)
		}
		return strconv.FormatUint(val, 10)
	case *StrV:
		var sb strings.Builder
		sb.WriteString("x")
		for _, b := range ex.strBytes(x) {
			val, _ := ex.tc.Eval(b, m)
			fmt.Fprintf(&sb, "%02x", val)
		}
		return sb.String()
	case SliceV:
		var sb strings.Builder
		sb.WriteString("x")
		for i := 0; i < x.len; i++ {
			t, ok := ex.sliceGet(x, i).(*Term)
			if !ok || t.w != 8 {
				return "?"
			}
			val, _ := ex.tc.Eval(t, m)
			fmt.Fprintf(&sb, "%02x", val)
		}
		return sb.String()
	}
	return "?"
}

// obligation checks that cond holds on every input of the current path.
func (ex *Exec) obligationMsg(cond *Term, label, kind string, pos token.Pos, msg string) {
	ex.oblMsg = msg
	ex.obligation(cond, label, kind, pos)
	ex.oblMsg = ""
}

func (ex *Exec) obligation(cond *Term, label, kind string, pos token.Pos) {
	j := ex.job
	if kind == "assert" {
		ex.assertLog = append(ex.assertLog, assertRec{label, cond})
	}
	replaying := len(ex.trace) < len(ex.prefix)
	_ = replaying
	if cond.IsConst() && cond.val != 0 {
		j.mu.Lock()
		j.oblig(label, kind).Concrete++
		j.mu.Unlock()
		return
	}
	j.mu.Lock()
	o := j.oblig(label, kind)
	already := o.Violation != nil
	j.mu.Unlock()
	if !already {
		// sliced query first (most obligations hold); the full query with a model only
		// when a counterexample exists
		r, m, why := ex.check(ex.tc.Not(cond), false)
		if r == Sat {
			r, m, why = ex.check(ex.tc.Not(cond), true)
		}
		j.mu.Lock()
		switch r {
		case Unsat:
			o.Discharged++
		case Sat:
			if o.Violation == nil {
				msg := "assertion can fail"
				if ex.oblMsg != "" {
					msg = ex.oblMsg
				}
				o.Violation = ex.snapshot(label, kind, msg, m, pos)
			}
		default:
			if len(o.Inconclusive) < 5 {
				o.Inconclusive = append(o.Inconclusive, "solver unknown: "+why)
			}
		}
		j.mu.Unlock()
	}
	// obligations never constrain the path: later assertions are checked independently
}

func (ex *Exec) assert(cond *Term, label string, pos token.Pos) {
	ex.obligation(cond, label, "assert", pos)
}

// failPath: the current (feasible) path ended in a panic / deadlock / fatal error that
// escaped the harness: an implicit obligation is violated.
func (ex *Exec) failPath(label, kind, msg string) {
	j := ex.job
	j.mu.Lock()
	o := j.oblig(label, kind)
	already := o.Violation != nil
	j.mu.Unlock()
	if already {
		return
	}
	r, m, why := ex.check(nil, true)
	j.mu.Lock()
	defer j.mu.Unlock()
	switch r {
	case Sat:
		if o.Violation == nil {
			o.Violation = ex.snapshot(label, kind, msg, m, ex.curPos)
		}
	case Unsat:
		// path was infeasible after all (unknown feasibility earlier)
	default:
		if len(o.Inconclusive) < 5 {
			o.Inconclusive = append(o.Inconclusive, "path ends in "+kind+" ("+msg+") but feasibility unknown: "+why)
		}
	}
}

func (ex *Exec) reach(label string) {
	j := ex.job
	j.mu.Lock()
	hit := j.Reached[label]
	j.mu.Unlock()
	if hit {
		return
	}
	r, _, _ := ex.check(nil, false)
	if r == Sat {
		j.mu.Lock()
		j.Reached[label] = true
		j.mu.Unlock()
		ex.newReach = true
	}
}

// pathDone: harness returned normally. Possibly record a witness for native validation.
func (ex *Exec) pathDone() {
	j := ex.job
	j.mu.Lock()
	need := len(j.Witnesses) < j.Cfg.Witnesses
	j.mu.Unlock()
	if !need || ex.noReplay {
		return
	}
	r, m, _ := ex.check(nil, true)
	if r != Sat {
		return
	}
	w := ex.snapshot("witness", "witness", "", m, token.NoPos)
	j.mu.Lock()
	if len(j.Witnesses) < j.Cfg.Witnesses {
		j.Witnesses = append(j.Witnesses, w)
	}
	j.mu.Unlock()
}
