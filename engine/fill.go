package main

// zzvf.Fill / FillCount / AssertCarried: type-directed population of a struct with
// symbolic values (focus rotation) and the per-field "carried by the writer => restored
// by the reader" obligation. The native twins in vf.go mirror the walk with reflect and
// consume the same input sequence.

import (
	"go/token"
	"go/types"
	"strings"

	"golang.org/x/tools/go/ssa"
)

// fillLongLen: length of the long string class of Fill (pattern bit 2): above the 32 KiB caps, below 2^16
const fillLongLen = 40000

type filler struct {
	ex      *Exec
	focus   int
	pattern int
	slot    int
	count   bool // count only
	rootPkg string
}

func fillablePkg(path string) bool {
	return strings.HasPrefix(path, repoMod+"/lang/pack") || strings.HasPrefix(path, repoMod+"/lang/step") || strings.HasPrefix(path, repoMod+"/lang/service")
}

func namedPkg(t types.Type) string {
	if n, ok := t.(*types.Named); ok && n.Obj().Pkg() != nil {
		return n.Obj().Pkg().Path()
	}
	return ""
}

func basicKindName(b *types.Basic) string {
	switch b.Kind() {
	case types.Int8:
		return "i8"
	case types.Int16:
		return "i16"
	case types.Int32:
		return "i32"
	case types.Int64:
		return "i64"
	case types.Int:
		return "int"
	case types.Uint8:
		return "u8"
	case types.Uint16:
		return "u16"
	case types.Uint32:
		return "u32"
	case types.Uint64:
		return "u64"
	case types.Uint:
		return "uint"
	case types.Float32:
		return "f32"
	case types.Float64:
		return "f64"
	}
	return ""
}

// fillValue returns the new value for a cell of type t (old = current value).
func (f *filler) fillValue(t types.Type, old Value, depth int) Value {
	ex := f.ex
	tc := ex.tc
	switch u := t.Underlying().(type) {
	case *types.Basic:
		switch {
		case u.Kind() == types.Bool:
			me := f.slot
			f.slot++
			if f.count {
				return old
			}
			if me == f.focus {
				v := ex.fresh("bool", 1)
				return tc.Eq(v, tc.Const(1, 1))
			}
			return tc.Bool(f.pattern&1 == 1)
		case u.Info()&types.IsString != 0:
			me := f.slot
			f.slot++
			if f.count {
				return old
			}
			n := 1
			if me == f.focus {
				if f.pattern&2 != 0 {
					// long form (pattern bit 2): fillLongLen bytes, first and last symbolic, 'a' between
					fb := ex.freshBytes(2)
					sym := make([]*Term, fillLongLen)
					a := tc.Const(8, 'a')
					for i := range sym {
						sym[i] = a
					}
					sym[0], sym[fillLongLen-1] = fb[0], fb[1]
					ex.fillLong = true
					return &StrV{sym: sym}
				}
				n = int(ex.choose(3))
				ex.chooses = append(ex.chooses, int64(n))
			}
			if n == 0 {
				return &StrV{}
			}
			return &StrV{sym: ex.freshBytes(n)}
		case u.Info()&(types.IsInteger|types.IsFloat) != 0:
			me := f.slot
			f.slot++
			if f.count {
				return old
			}
			kn := basicKindName(u)
			if kn == "" {
				return old
			}
			w, _, fl := basicWidth(u)
			if !fl && me != f.focus {
				// small class: 1..100 (one decimal length class, non-zero); the range is
				// carried by the variable, so comparisons against it fold without a query
				return ex.freshRanged(kn, w, 1, 100)
			}
			return ex.fresh(kn, w)
		}
		return old
	case *types.Struct:
		if pk := namedPkg(t); pk != "" && !fillablePkg(pk) {
			return old
		}
		sv := old.(*StructV)
		for i := 0; i < u.NumFields(); i++ {
			sv.f[i] = f.fillValue(u.Field(i).Type(), sv.f[i], depth)
		}
		return sv
	case *types.Pointer:
		el := u.Elem()
		switch eu := el.Underlying().(type) {
		case *types.Struct:
			if pk := namedPkg(el); !fillablePkg(pk) || depth >= 3 {
				return old
			}
			nv := f.fillValue(el, ex.zero(el), depth+1)
			if f.count {
				return old
			}
			o := ex.newObject(nv, el, "fill")
			return Ptr{obj: o}
		case *types.Basic:
			if eu.Info()&types.IsString != 0 { // *string
				me := f.slot
				f.slot++
				if f.count {
					return old
				}
				n := 1
				if me == f.focus {
					n = int(ex.choose(4))
					ex.chooses = append(ex.chooses, int64(n))
					if n == 3 {
						return Ptr{}
					}
				}
				var sv Value = &StrV{}
				if n > 0 {
					sv = &StrV{sym: ex.freshBytes(n)}
				}
				return Ptr{obj: ex.newObject(sv, el, "fill")}
			}
		}
		return old
	case *types.Slice:
		el := u.Elem()
		eb, isBasic := el.Underlying().(*types.Basic)
		switch {
		case isBasic && eb.Kind() == types.Uint8:
			me := f.slot
			f.slot++
			if f.count {
				return old
			}
			n := 1
			if me == f.focus {
				n = int(ex.choose(4))
				ex.chooses = append(ex.chooses, int64(n))
				if n == 3 {
					return SliceV{} // nil
				}
			}
			if n == 0 {
				return ex.makeSlice(el, 0, 0)
			}
			return ex.byteSlice(ex.freshBytes(n))
		case isBasic && eb.Info()&(types.IsInteger|types.IsFloat|types.IsString) != 0:
			me := f.slot
			f.slot++
			if f.count {
				return old
			}
			n := 1
			if me == f.focus {
				c := int(ex.choose(3))
				ex.chooses = append(ex.chooses, int64(c))
				switch c {
				case 0:
					return SliceV{}
				case 1:
					return ex.makeSlice(el, 0, 0)
				}
				n = 2
			}
			sl := ex.makeSlice(el, n, n)
			for i := 0; i < n; i++ {
				var ev Value
				if eb.Info()&types.IsString != 0 {
					ev = &StrV{sym: ex.freshBytes(1)}
				} else {
					w, _, _ := basicWidth(eb)
					ev = ex.fresh(basicKindName(eb), w)
				}
				ex.sliceSet(sl, i, ev)
			}
			return sl
		}
		// slices of structs / pointers to structs: one element
		var st types.Type = el
		ptr := false
		if p, ok := el.Underlying().(*types.Pointer); ok {
			st = p.Elem()
			ptr = true
		}
		if _, ok := st.Underlying().(*types.Struct); ok && fillablePkg(namedPkg(st)) && depth < 3 {
			nv := f.fillValue(st, ex.zero(st), depth+1)
			if f.count {
				return old
			}
			sl := ex.makeSlice(el, 1, 1)
			if ptr {
				ex.sliceSet(sl, 0, Ptr{obj: ex.newObject(nv, st, "fill")})
			} else {
				ex.sliceSet(sl, 0, nv)
			}
			return sl
		}
		return old
	}
	return old
}

func (ex *Exec) doFill(arg Value, focus, pattern int, count bool) int {
	iv, ok := arg.(IfaceV)
	if !ok || iv.t == nil {
		ex.unsupported("Fill: need a pointer to a struct")
	}
	pt, ok := iv.t.Underlying().(*types.Pointer)
	if !ok {
		ex.unsupported("Fill: need a pointer to a struct")
	}
	p := iv.v.(Ptr)
	f := &filler{ex: ex, focus: focus, pattern: pattern, count: count}
	if !count {
		ex.fillLong = false
	}
	cur := ex.load(p)
	if count {
		// count mode must not allocate inputs
		f.fillStructCount(pt.Elem(), 0)
		return f.slot
	}
	nv := f.fillValue(pt.Elem(), cur, 0)
	ex.store(p, nv)
	return f.slot
}

// fillStructCount mirrors fillValue's slot numbering without creating anything.
func (f *filler) fillStructCount(t types.Type, depth int) {
	switch u := t.Underlying().(type) {
	case *types.Basic:
		if u.Kind() == types.Bool || u.Info()&(types.IsString|types.IsInteger|types.IsFloat) != 0 {
			if u.Kind() == types.Bool || u.Info()&types.IsString != 0 || basicKindName(u) != "" {
				f.slot++
			} else {
				f.slot++
			}
		}
	case *types.Struct:
		if pk := namedPkg(t); pk != "" && !fillablePkg(pk) {
			return
		}
		for i := 0; i < u.NumFields(); i++ {
			f.fillStructCount(u.Field(i).Type(), depth)
		}
	case *types.Pointer:
		el := u.Elem()
		switch eu := el.Underlying().(type) {
		case *types.Struct:
			if pk := namedPkg(el); !fillablePkg(pk) || depth >= 3 {
				return
			}
			f.fillStructCount(el, depth+1)
		case *types.Basic:
			if eu.Info()&types.IsString != 0 {
				f.slot++
			}
		}
	case *types.Slice:
		el := u.Elem()
		if eb, ok := el.Underlying().(*types.Basic); ok {
			if eb.Kind() == types.Uint8 || eb.Info()&(types.IsInteger|types.IsFloat|types.IsString) != 0 {
				f.slot++
			}
			return
		}
		var st types.Type = el
		if p, ok := el.Underlying().(*types.Pointer); ok {
			st = p.Elem()
		}
		if _, ok := st.Underlying().(*types.Struct); ok && fillablePkg(namedPkg(st)) && depth < 3 {
			f.fillStructCount(st, depth+1)
		}
	}
}

// assertCarried: for every (flattened) field of *p whose symbolic variables occur in the
// encoded bytes, the decoded *q must hold the same value.
func (ex *Exec) assertCarried(bytes Value, pa, qa Value, prefix string, site token.Pos) {
	pi, ok1 := pa.(IfaceV)
	qi, ok2 := qa.(IfaceV)
	if !ok1 || !ok2 || pi.t == nil || qi.t == nil {
		ex.unsupported("AssertCarried: need two non-nil pointers")
	}
	if !types.Identical(pi.t, qi.t) {
		ex.derived = append(ex.derived, false)
		ex.obligation(ex.tc.False, prefix+"/same-dynamic-type", "assert", site)
		return
	}
	ex.derived = append(ex.derived, true)
	pt, ok := pi.t.Underlying().(*types.Pointer)
	if !ok {
		ex.unsupported("AssertCarried: need pointers to structs")
	}
	bs := map[*Term]bool{}
	ex.collectVars(bytes, bs, map[*Object]bool{})
	ex.carriedStruct(bs, pt.Elem(), ex.load(pi.v.(Ptr)), ex.load(qi.v.(Ptr)), prefix+"/field/", 0, site)
}

func (ex *Exec) carriedStruct(bs map[*Term]bool, t types.Type, pv, qv Value, prefix string, depth int, site token.Pos) {
	st, ok := t.Underlying().(*types.Struct)
	if !ok {
		return
	}
	ps, qs := pv.(*StructV), qv.(*StructV)
	for i := 0; i < st.NumFields(); i++ {
		fld := st.Field(i)
		ft := fld.Type()
		name := prefix + fld.Name()
		// recurse into embedded / nested structs and pointers to structs of the repo
		if _, isS := ft.Underlying().(*types.Struct); isS && fillablePkg(namedPkg(ft)) && depth < 3 {
			ex.carriedStruct(bs, ft, ps.f[i], qs.f[i], name+".", depth+1, site)
			continue
		}
		if pp, isP := ft.Underlying().(*types.Pointer); isP {
			if _, isS := pp.Elem().Underlying().(*types.Struct); isS && fillablePkg(namedPkg(pp.Elem())) && depth < 3 {
				p1, p2 := ps.f[i].(Ptr), qs.f[i].(Ptr)
				if p1.obj != nil && p2.obj != nil {
					ex.carriedStruct(bs, pp.Elem(), ex.load(p1), ex.load(p2), name+".", depth+1, site)
					continue
				}
			}
		}
		vs := map[*Term]bool{}
		ex.collectVars(ps.f[i], vs, map[*Object]bool{})
		dep := false
		for v := range vs {
			if bs[v] {
				dep = true
				break
			}
		}
		ex.derived = append(ex.derived, dep)
		if dep {
			ex.obligation(ex.sameT(ft, ps.f[i], qs.f[i], map[string]bool{}, map[string]bool{}), name, "assert", site)
		}
	}
}

func init() {
	z := "github.com/whatap/golib/zzvf."
	intrinsics[z+"FillLong"] = func(ex *Exec, fn *ssa.Function, a []Value, site token.Pos) Value {
		return ex.tc.Bool(ex.fillLong)
	}
	intrinsics[z+"Fill"] = func(ex *Exec, fn *ssa.Function, a []Value, site token.Pos) Value {
		n := ex.doFill(a[0], int(ex.argInt(a[1])), int(ex.argInt(a[2])), false)
		return ex.tc.Const(64, uint64(n))
	}
	intrinsics[z+"FillCount"] = func(ex *Exec, fn *ssa.Function, a []Value, site token.Pos) Value {
		n := ex.doFill(a[0], -1, 0, true)
		return ex.tc.Const(64, uint64(n))
	}
	intrinsics[z+"AssertCarried"] = func(ex *Exec, fn *ssa.Function, a []Value, site token.Pos) Value {
		ex.assertCarried(a[0], a[1], a[2], ex.argStr(a[3]), site)
		return nil
	}
}
