package main

// If-conversion of pure scalar functions: a call to a side-effect-free, panic-free,
// acyclic function with symbolic arguments is evaluated over all its paths at once and
// the results merged with ite — no path forks (e.g. digit classification helpers).

import (
	"go/token"
	"go/types"

	"golang.org/x/tools/go/ssa"
)

type pureInfo struct {
	ok    bool
	order []*ssa.BasicBlock
}

type pureKey struct{ fn *ssa.Function }

func (P *Program) pure(fn *ssa.Function) *pureInfo {
	if v, ok := P.finfo.Load(pureKey{fn}); ok {
		return v.(*pureInfo)
	}
	pi := &pureInfo{}
	pi.ok = analyzePure(fn, pi)
	P.finfo.Store(pureKey{fn}, pi)
	return pi
}

func scalarT(t types.Type) bool {
	b, ok := t.Underlying().(*types.Basic)
	return ok && b.Info()&(types.IsBoolean|types.IsInteger|types.IsFloat) != 0 && b.Kind() != types.UnsafePointer
}

func analyzePure(fn *ssa.Function, pi *pureInfo) bool {
	if len(fn.Blocks) == 0 || len(fn.Blocks) > 64 || fn.Recover != nil || len(fn.FreeVars) > 0 {
		return false
	}
	for _, p := range fn.Params {
		if !scalarT(p.Type()) {
			return false
		}
	}
	res := fn.Signature.Results()
	if res.Len() == 0 {
		return false
	}
	for i := 0; i < res.Len(); i++ {
		if !scalarT(res.At(i).Type()) {
			return false
		}
	}
	// acyclic + reverse postorder
	state := map[*ssa.BasicBlock]int{}
	var post []*ssa.BasicBlock
	cyclic := false
	var dfs func(b *ssa.BasicBlock)
	dfs = func(b *ssa.BasicBlock) {
		state[b] = 1
		for _, s := range b.Succs {
			switch state[s] {
			case 0:
				dfs(s)
			case 1:
				cyclic = true
			}
		}
		state[b] = 2
		post = append(post, b)
	}
	dfs(fn.Blocks[0])
	if cyclic {
		return false
	}
	for i := len(post) - 1; i >= 0; i-- {
		pi.order = append(pi.order, post[i])
	}
	for _, b := range pi.order {
		for _, in := range b.Instrs {
			switch x := in.(type) {
			case *ssa.Phi, *ssa.If, *ssa.Jump, *ssa.Return, *ssa.DebugRef:
			case *ssa.BinOp:
				if !scalarT(x.X.Type()) {
					return false
				}
				switch x.Op {
				case token.QUO, token.REM:
					_, _, fl := typeWidth(x.X.Type())
					if !fl {
						c, ok := x.Y.(*ssa.Const)
						if !ok || c.Value == nil || c.Uint64() == 0 && c.Int64() == 0 {
							return false
						}
					}
				case token.SHL, token.SHR:
					_, signed, _ := typeWidth(x.Y.Type())
					if _, isC := x.Y.(*ssa.Const); signed && !isC {
						return false
					}
				}
			case *ssa.UnOp:
				if x.Op != token.SUB && x.Op != token.XOR && x.Op != token.NOT {
					return false
				}
			case *ssa.Convert:
				if !scalarT(x.X.Type()) || !scalarT(x.Type()) {
					return false
				}
				_, _, ffl := typeWidth(x.X.Type())
				_, _, tfl := typeWidth(x.Type())
				if ffl && !tfl {
					return false
				}
			case *ssa.ChangeType:
				if !scalarT(x.X.Type()) {
					return false
				}
			default:
				return false
			}
		}
	}
	return true
}

// callMerged evaluates a pure function on symbolic arguments without forking.
func (ex *Exec) callMerged(fn *ssa.Function, pi *pureInfo, args []Value) Value {
	tc := ex.tc
	fi := ex.P.info(fn)
	fr := &Frame{fn: fn, info: fi, locals: make([]Value, fi.n)}
	for i, p := range fn.Params {
		fr.locals[fi.idx[p]] = args[i]
	}
	guard := map[*ssa.BasicBlock]*Term{fn.Blocks[0]: tc.True}
	edge := map[[2]*ssa.BasicBlock]*Term{}
	type ret struct {
		g *Term
		v []Value
	}
	var rets []ret
	for _, b := range pi.order {
		g := guard[b]
		if b != fn.Blocks[0] {
			g = tc.False
			for _, p := range b.Preds {
				if e, ok := edge[[2]*ssa.BasicBlock{p, b}]; ok {
					g = tc.Or(g, e)
				}
			}
			guard[b] = g
		}
		if g == tc.False {
			continue
		}
		for _, in := range b.Instrs {
			ex.steps++
			switch x := in.(type) {
			case *ssa.DebugRef:
			case *ssa.Phi:
				// (acyclic function: a phi operand defined in this block cannot exist, so
				// sequential evaluation equals parallel evaluation here)
				var v *Term
				for i, p := range b.Preds {
					e, ok := edge[[2]*ssa.BasicBlock{p, b}]
					if !ok || e == tc.False {
						continue
					}
					pv := ex.get(fr, x.Edges[i]).(*Term)
					if v == nil {
						v = pv
					} else {
						v = tc.Ite(e, pv, v)
					}
				}
				ex.set(fr, x, v)
			case *ssa.BinOp:
				ex.set(fr, x, ex.binop(x.Op, x.X.Type(), ex.get(fr, x.X), ex.get(fr, x.Y), x.Y.Type()))
			case *ssa.UnOp:
				ex.set(fr, x, ex.unop(fr, x))
			case *ssa.Convert:
				ex.set(fr, x, ex.convert(x.X.Type(), x.Type(), ex.get(fr, x.X)))
			case *ssa.ChangeType:
				ex.set(fr, x, ex.get(fr, x.X))
			case *ssa.If:
				c := ex.get(fr, x.Cond).(*Term)
				edge[[2]*ssa.BasicBlock{b, b.Succs[0]}] = orEdge(tc, edge[[2]*ssa.BasicBlock{b, b.Succs[0]}], tc.And(g, c))
				edge[[2]*ssa.BasicBlock{b, b.Succs[1]}] = orEdge(tc, edge[[2]*ssa.BasicBlock{b, b.Succs[1]}], tc.And(g, tc.Not(c)))
			case *ssa.Jump:
				edge[[2]*ssa.BasicBlock{b, b.Succs[0]}] = orEdge(tc, edge[[2]*ssa.BasicBlock{b, b.Succs[0]}], g)
			case *ssa.Return:
				vs := make([]Value, len(x.Results))
				for i, r := range x.Results {
					vs[i] = ex.get(fr, r)
				}
				rets = append(rets, ret{g, vs})
			}
		}
	}
	n := fn.Signature.Results().Len()
	out := make(TupleV, n)
	for i := 0; i < n; i++ {
		var v *Term
		for _, r := range rets {
			t := r.v[i].(*Term)
			if v == nil {
				v = t
			} else {
				v = tc.Ite(r.g, t, v)
			}
		}
		out[i] = v
	}
	if n == 1 {
		return out[0]
	}
	return out
}

func orEdge(tc *TermCtx, old, g *Term) *Term {
	if old == nil {
		return g
	}
	return tc.Or(old, g)
}

// ---------- CFG-level if-conversion of simple diamonds / triangles ----------

type mergeInfo struct {
	cond         *Term
	join         *ssa.BasicBlock
	predT, predF *ssa.BasicBlock
}

type armKey struct{ b *ssa.BasicBlock }

// simpleArm: the block has one predecessor, one successor, and only pure, panic-free
// scalar instructions.
func (P *Program) simpleArm(b *ssa.BasicBlock) bool {
	if v, ok := P.finfo.Load(armKey{b}); ok {
		return v.(bool)
	}
	ok := len(b.Preds) == 1 && len(b.Succs) == 1 && len(b.Instrs) <= 12
	if ok {
		for _, in := range b.Instrs {
			if !pureInstr(in) {
				ok = false
				break
			}
			if _, isIf := in.(*ssa.If); isIf {
				ok = false
				break
			}
			if _, isRet := in.(*ssa.Return); isRet {
				ok = false
				break
			}
			if _, isPhi := in.(*ssa.Phi); isPhi {
				ok = false
				break
			}
		}
	}
	P.finfo.Store(armKey{b}, ok)
	return ok
}

func pureInstr(in ssa.Instruction) bool {
	switch x := in.(type) {
	case *ssa.Phi, *ssa.If, *ssa.Jump, *ssa.Return, *ssa.DebugRef:
		return true
	case *ssa.BinOp:
		if !scalarT(x.X.Type()) {
			return false
		}
		switch x.Op {
		case token.QUO, token.REM:
			_, _, fl := typeWidth(x.X.Type())
			if !fl {
				c, ok := x.Y.(*ssa.Const)
				if !ok || c.Value == nil || c.Uint64() == 0 && c.Int64() == 0 {
					return false
				}
			}
		case token.SHL, token.SHR:
			_, signed, _ := typeWidth(x.Y.Type())
			if _, isC := x.Y.(*ssa.Const); signed && !isC {
				return false
			}
		}
		return true
	case *ssa.UnOp:
		return (x.Op == token.SUB || x.Op == token.XOR || x.Op == token.NOT) && scalarT(x.X.Type())
	case *ssa.Convert:
		if !scalarT(x.X.Type()) || !scalarT(x.Type()) {
			return false
		}
		_, _, ffl := typeWidth(x.X.Type())
		_, _, tfl := typeWidth(x.Type())
		return !(ffl && !tfl)
	case *ssa.ChangeType:
		return scalarT(x.X.Type())
	}
	return false
}

// tryIfConvert evaluates both arms of a simple diamond/triangle below block b (whose If
// has the symbolic condition c) and returns the join block, or nil if not applicable.
func (ex *Exec) tryIfConvert(fr *Frame, b *ssa.BasicBlock, c *Term) *ssa.BasicBlock {
	if ex.initMode {
		return nil
	}
	T, F := b.Succs[0], b.Succs[1]
	var join, predT, predF *ssa.BasicBlock
	var arms []*ssa.BasicBlock
	switch {
	case ex.P.simpleArm(T) && ex.P.simpleArm(F) && T.Succs[0] == F.Succs[0] && T != F:
		join, predT, predF = T.Succs[0], T, F
		arms = []*ssa.BasicBlock{T, F}
	case ex.P.simpleArm(T) && T.Succs[0] == F:
		join, predT, predF = F, T, b
		arms = []*ssa.BasicBlock{T}
	case ex.P.simpleArm(F) && F.Succs[0] == T:
		join, predT, predF = T, b, F
		arms = []*ssa.BasicBlock{F}
	default:
		return nil
	}
	if len(join.Preds) != 2 {
		return nil
	}
	// every phi of the join must be scalar
	for _, in := range join.Instrs {
		phi, ok := in.(*ssa.Phi)
		if !ok {
			break
		}
		if !scalarT(phi.Type()) {
			return nil
		}
	}
	for _, arm := range arms {
		for _, in := range arm.Instrs {
			ex.steps++
			switch x := in.(type) {
			case *ssa.BinOp:
				ex.set(fr, x, ex.binop(x.Op, x.X.Type(), ex.get(fr, x.X), ex.get(fr, x.Y), x.Y.Type()))
			case *ssa.UnOp:
				ex.set(fr, x, ex.unop(fr, x))
			case *ssa.Convert:
				ex.set(fr, x, ex.convert(x.X.Type(), x.Type(), ex.get(fr, x.X)))
			case *ssa.ChangeType:
				ex.set(fr, x, ex.get(fr, x.X))
			}
		}
	}
	fr.mergePhi = &mergeInfo{cond: c, join: join, predT: predT, predF: predF}
	fr.prev = predT
	return join
}
