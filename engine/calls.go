package main

// Intrinsics: zzvf harness API, sync ghost state, stdlib leaf functions that have no Go
// body (assembly) or that are replaced by models / environment stubs.

import (
	"fmt"
	"go/token"
	"go/types"
	"math"
	"regexp"
	"strings"

	"golang.org/x/tools/go/ssa"
)

func f32bits(f float32) uint32 { return math.Float32bits(f) }
func f64bits(f float64) uint64 { return math.Float64bits(f) }
func ldexp(f float64, e int) float64 { return math.Ldexp(f, e) }

type intrinsicFn func(ex *Exec, fn *ssa.Function, args []Value, site token.Pos) Value

var intrinsics map[string]intrinsicFn

func (P *Program) intrinsicFor(fn *ssa.Function) intrinsicFn {
	if v, ok := P.finfo.Load(fnKey{fn}); ok {
		if v == nil {
			return nil
		}
		return v.(intrinsicFn)
	}
	name := fn.String()
	if o := fn.Origin(); o != nil {
		name = o.String()
	}
	h, ok := intrinsics[name]
	if !ok {
		// prefix rules
		switch {
		case strings.HasPrefix(name, "github.com/whatap/golib/zzvf.") && !strings.HasPrefix(fn.Name(), "init") && strings.HasSuffix(P.fset.Position(fn.Pos()).Filename, "/vf.go"):
			// (functions of the other zzvf files — environment models — are ordinary Go code and are executed)
			h = func(ex *Exec, fn *ssa.Function, args []Value, site token.Pos) Value {
				ex.unsupported("zzvf function %s not implemented in executor", fn.Name())
				return nil
			}
			ok = true
		case fn.Pkg != nil && noopPkgs[fn.Pkg.Pkg.Path()]:
			h = noopIntrinsic
			ok = true
		}
	}
	if !ok {
		P.finfo.Store(fnKey{fn}, nil)
		return nil
	}
	P.finfo.Store(fnKey{fn}, h)
	return h
}

type fnKey struct{ fn *ssa.Function }

// packages whose calls are treated as no-ops returning zero values (logging, printing).
var noopPkgs = map[string]bool{"log": true, "runtime/debug": true}

func noopIntrinsic(ex *Exec, fn *ssa.Function, args []Value, site token.Pos) Value {
	ex.stub(fn.String() + " (no-op)")
	return ex.zeroResults(fn)
}

func (ex *Exec) stub(name string) {
	if ex.stubs != nil {
		ex.stubs[name] = true
	}
}

func (ex *Exec) intrinsic(fn *ssa.Function, args []Value, site token.Pos) (Value, bool) {
	h := ex.P.intrinsicFor(fn)
	if h == nil {
		return nil, false
	}
	r := h(ex, fn, args, site)
	if r == Value(notHandled) {
		return nil, false
	}
	return r, true
}

func (ex *Exec) fresh(kind string, w int) *Term {
	if ex.initMode {
		panic("nondet in init mode")
	}
	t := ex.tc.Var(fmt.Sprintf("v%d_%s", ex.nvars, kind), w)
	ex.nvars++
	ex.inputs = append(ex.inputs, inputRec{T: kind, vars: []*Term{t}})
	return t
}

// freshRanged: a fresh input whose unsigned value lies in [lo,hi] (range carried by the
// variable itself; the name includes the range because names are reused across paths).
func (ex *Exec) freshRanged(kind string, w int, lo, hi uint64) *Term {
	t := ex.tc.VarRanged(fmt.Sprintf("v%d_%s_r%d_%d", ex.nvars, kind, lo, hi), w, lo, hi)
	ex.nvars++
	ex.inputs = append(ex.inputs, inputRec{T: kind, vars: []*Term{t}})
	return t
}

func (ex *Exec) argStr(v Value) string {
	s := v.(*StrV)
	if !s.Concrete() {
		ex.unsupported("symbolic string where a concrete label is required")
	}
	return s.s
}

func (ex *Exec) argInt(v Value) int64 {
	t := v.(*Term)
	if !t.IsConst() {
		return ex.concretize(t, true, "intrinsic int argument")
	}
	return sext64(t.val, t.w)
}

func scalarIntr(kind string, w int) intrinsicFn {
	return func(ex *Exec, fn *ssa.Function, args []Value, site token.Pos) Value { return ex.fresh(kind, w) }
}

func init() {
	z := "github.com/whatap/golib/zzvf."
	intrinsics = map[string]intrinsicFn{
		z + "Int64": scalarIntr("i64", 64), z + "Int32": scalarIntr("i32", 32), z + "Int16": scalarIntr("i16", 16), z + "Int8": scalarIntr("i8", 8),
		z + "Int": scalarIntr("int", 64), z + "Uint64": scalarIntr("u64", 64), z + "Uint32": scalarIntr("u32", 32), z + "Uint16": scalarIntr("u16", 16),
		z + "Uint8": scalarIntr("u8", 8), z + "Byte": scalarIntr("u8", 8), z + "Uint": scalarIntr("uint", 64), z + "Float32": scalarIntr("f32", 32), z + "Float64": scalarIntr("f64", 64),
		z + "Bool": func(ex *Exec, fn *ssa.Function, args []Value, site token.Pos) Value {
			t := ex.fresh("bool", 1)
			return ex.tc.Eq(t, ex.tc.Const(1, 1))
		},
		z + "IntRange": func(ex *Exec, fn *ssa.Function, args []Value, site token.Pos) Value {
			lo, hi := ex.argInt(args[0]), ex.argInt(args[1])
			if lo < 0 || hi < lo {
				ex.unsupported("IntRange needs 0 <= lo <= hi")
			}
			return ex.freshRanged("int", 64, uint64(lo), uint64(hi))
		},
		z + "Bytes": func(ex *Exec, fn *ssa.Function, args []Value, site token.Pos) Value {
			return ex.byteSlice(ex.freshBytes(int(ex.argInt(args[0]))))
		},
		z + "String": func(ex *Exec, fn *ssa.Function, args []Value, site token.Pos) Value {
			bs := ex.freshBytes(int(ex.argInt(args[0])))
			if len(bs) == 0 {
				return &StrV{}
			}
			return &StrV{sym: bs}
		},
		z + "Choose": func(ex *Exec, fn *ssa.Function, args []Value, site token.Pos) Value {
			n := ex.argInt(args[0])
			c := ex.choose(n)
			ex.chooses = append(ex.chooses, c)
			return ex.tc.Const(64, uint64(c))
		},
		z + "Assume": func(ex *Exec, fn *ssa.Function, args []Value, site token.Pos) Value {
			ex.assume(args[0].(*Term), "")
			return nil
		},
		z + "Assert": func(ex *Exec, fn *ssa.Function, args []Value, site token.Pos) Value {
			ex.assert(args[0].(*Term), ex.argStr(args[1]), site)
			return nil
		},
		z + "Reach": func(ex *Exec, fn *ssa.Function, args []Value, site token.Pos) Value {
			ex.reach(ex.argStr(args[0]))
			return nil
		},
		z + "Panics": func(ex *Exec, fn *ssa.Function, args []Value, site token.Pos) Value {
			p, _ := ex.runCatching(args[0])
			return ex.tc.Bool(p)
		},
		z + "PanicValue": func(ex *Exec, fn *ssa.Function, args []Value, site token.Pos) Value {
			p, msg := ex.runCatching(args[0])
			if !p {
				return &StrV{}
			}
			if msg == "" {
				msg = "panic"
			}
			return ex.concStr(msg)
		},
		z + "And": func(ex *Exec, fn *ssa.Function, a []Value, site token.Pos) Value { return ex.tc.And(a[0].(*Term), a[1].(*Term)) },
		z + "Or":  func(ex *Exec, fn *ssa.Function, a []Value, site token.Pos) Value { return ex.tc.Or(a[0].(*Term), a[1].(*Term)) },
		z + "Not": func(ex *Exec, fn *ssa.Function, a []Value, site token.Pos) Value { return ex.tc.Not(a[0].(*Term)) },
		z + "Implies": func(ex *Exec, fn *ssa.Function, a []Value, site token.Pos) Value {
			return ex.tc.Or(ex.tc.Not(a[0].(*Term)), a[1].(*Term))
		},
		z + "IteInt":   func(ex *Exec, fn *ssa.Function, a []Value, site token.Pos) Value { return ex.tc.Ite(a[0].(*Term), a[1].(*Term), a[2].(*Term)) },
		z + "IteInt64": func(ex *Exec, fn *ssa.Function, a []Value, site token.Pos) Value { return ex.tc.Ite(a[0].(*Term), a[1].(*Term), a[2].(*Term)) },
		z + "Observe": func(ex *Exec, fn *ssa.Function, args []Value, site token.Pos) Value {
			ex.observes = append(ex.observes, obsRec{tag: ex.argStr(args[0]), v: args[1]})
			return nil
		},
		z + "Same": func(ex *Exec, fn *ssa.Function, args []Value, site token.Pos) Value {
			except := map[string]bool{}
			if s, ok := args[2].(SliceV); ok {
				for i := 0; i < s.len; i++ {
					except[ex.argStr(ex.sliceGet(s, i))] = true
				}
			}
			return ex.same(args[0], args[1], except)
		},
		z + "Guard": func(ex *Exec, fn *ssa.Function, args []Value, site token.Pos) Value {
			ex.guardLabel = append(ex.guardLabel, ex.argStr(args[0]))
			ex.callValue(args[1], nil, site)
			ex.guardLabel = ex.guardLabel[:len(ex.guardLabel)-1]
			return nil
		},
		z + "DependsOn": func(ex *Exec, fn *ssa.Function, args []Value, site token.Pos) Value {
			r := ex.dependsOn(args[0], args[1])
			ex.derived = append(ex.derived, r)
			return ex.tc.Bool(r)
		},
		z + "HavocLoopVar": func(ex *Exec, fn *ssa.Function, args []Value, site token.Pos) Value {
			if ex.havocs == nil {
				ex.havocs = map[string]bool{}
			}
			ex.havocs[ex.argStr(args[0])+"#"+ex.argStr(args[1])] = true
			ex.noReplay = true
			return nil
		},
		z + "HavocU64": func(ex *Exec, fn *ssa.Function, args []Value, site token.Pos) Value {
			if ex.havocs == nil {
				ex.havocs = map[string]bool{}
			}
			if ex.havocVals == nil {
				ex.havocVals = map[string]*Term{}
			}
			k := ex.argStr(args[0]) + "#" + ex.argStr(args[1])
			ex.havocs[k] = true
			t := ex.fresh("u64", 64)
			ex.havocVals[k] = t
			ex.noReplay = true
			return t
		},
		z + "LocksetBegin": func(ex *Exec, fn *ssa.Function, args []Value, site token.Pos) Value {
			ex.recording = true
			ex.recTag = ex.argStr(args[0])
			return nil
		},
		z + "LocksetEnd": func(ex *Exec, fn *ssa.Function, args []Value, site token.Pos) Value {
			ex.recording = false
			return nil
		},
		z + "RacePairFresh": func(ex *Exec, fn *ssa.Function, args []Value, site token.Pos) Value {
			// mk builds a fresh shared state and returns the two operations on it
			pair := ex.callValue(args[1], nil, site).(TupleV)
			return intrinsics[z+"RacePair"](ex, fn, []Value{args[0], pair[0], pair[1]}, site)
		},
		z + "RacePair": func(ex *Exec, fn *ssa.Function, args []Value, site token.Pos) Value {
			label := ex.argStr(args[0])
			ex.raceSeq++
			ta, tb := fmt.Sprintf("A#%d", ex.raceSeq), fmt.Sprintf("B#%d", ex.raceSeq)
			ex.raceMark = ex.nextObj
			ex.recording, ex.recTag = true, ta
			ex.callValue(args[1], nil, site)
			ex.recTag = tb
			ex.callValue(args[2], nil, site)
			ex.recording = false
			c, cell, side := ex.conflictsSide(ta, tb)
			// forget the records of this pair
			ex.accesses = ex.accesses[:0]
			if c {
				// the finding is identified by the operation that touched shared state
				// WITHOUT a lock (label race/<Type>/<op>/unlocked), not by every pair it
				// races with: "race/<Type>/<a>|<b>" -> culprit a, b or the pair
				vlabel := label
				if i := strings.LastIndex(label, "/"); i >= 0 {
					if ops := strings.Split(label[i+1:], "|"); len(ops) == 2 {
						switch side {
						case "A":
							vlabel = label[:i+1] + ops[0] + "/unlocked-access"
						case "B":
							vlabel = label[:i+1] + ops[1] + "/unlocked-access"
						default:
							if ops[0] == ops[1] {
								vlabel = label[:i+1] + ops[0] + "/unlocked-access"
							} else {
								vlabel = label + "/no-common-lock"
							}
						}
					}
				}
				ex.obligationMsg(ex.tc.False, vlabel, "race", site, "unsynchronised conflicting accesses ("+label+"): "+cell)
			} else {
				ex.obligation(ex.tc.True, label, "race", site)
			}
			return nil
		},
		z + "Conflicts": func(ex *Exec, fn *ssa.Function, args []Value, site token.Pos) Value {
			c, _ := ex.conflicts(ex.argStr(args[0]), ex.argStr(args[1]))
			ex.derived = append(ex.derived, c)
			return ex.tc.Bool(c)
		},
		z + "ConflictCell": func(ex *Exec, fn *ssa.Function, args []Value, site token.Pos) Value {
			_, cell := ex.conflicts(ex.argStr(args[0]), ex.argStr(args[1]))
			return ex.concStr(cell)
		},
		z + "Events": func(ex *Exec, fn *ssa.Function, args []Value, site token.Pos) Value {
			return ex.concStr(strings.Join(ex.events, ";"))
		},
		z + "AllocBudget": func(ex *Exec, fn *ssa.Function, args []Value, site token.Pos) Value {
			ex.allocOn = true
			ex.allocLen, ex.allocK, ex.allocC = ex.argInt(args[0]), ex.argInt(args[1]), ex.argInt(args[2])
			return nil
		},
		z + "ClockExact": func(ex *Exec, fn *ssa.Function, args []Value, site token.Pos) Value {
			ex.clock = args[0].(*Term)
			ex.clockExact = true
			ex.stub("clock: exact virtual clock (advances by each sleep's duration and by 1 ms per reading)")
			return nil
		},
		z + "SleepYield": func(ex *Exec, fn *ssa.Function, args []Value, site token.Pos) Value {
			if ex.cur != nil {
				ex.unsupported("SleepYield inside a coroutine")
			}
			for _, c := range append([]*coro{}, ex.coros...) {
				if c.state == coNew || c.state == coRunnable {
					ex.runCoro(c)
				}
			}
			return nil
		},
		z + "ClockIsExact": func(ex *Exec, fn *ssa.Function, args []Value, site token.Pos) Value { return ex.tc.Bool(ex.clockExact) },
		z + "ClockNow": func(ex *Exec, fn *ssa.Function, args []Value, site token.Pos) Value {
			if ex.clockExact {
				ex.clock = ex.tc.Bin(OAdd, ex.clock, ex.tc.Const(64, 1)) // reading the clock takes time
				return ex.clock
			}
			d := ex.fresh("clk", 64)
			// non-decreasing, bounded step (< 2^40 ms) so sums cannot wrap
			ex.assume(ex.tc.Cmp(OUlt, d, ex.tc.Const(64, 1<<40)), "")
			if ex.clock == nil {
				ex.clock = ex.tc.Const(64, 0)
			}
			ex.clock = ex.tc.Bin(OAdd, ex.clock, d)
			if ex.clockMin != nil {
				ex.assume(ex.tc.Cmp(OSle, ex.clockMin, ex.clock), "virtual clock: time.Sleep(d) advances the clock by at least d")
				ex.clockMin = nil
			}
			return ex.clock
		},
		z + "ClockStart": func(ex *Exec, fn *ssa.Function, args []Value, site token.Pos) Value {
			ex.clock = args[0].(*Term)
			return nil
		},
		z + "OnWait": func(ex *Exec, fn *ssa.Function, args []Value, site token.Pos) Value {
			ex.waitBudget = int(ex.argInt(args[0]))
			ex.onWait = args[1]
			return nil
		},
		z + "SleepMayReturnEarly": func(ex *Exec, fn *ssa.Function, args []Value, site token.Pos) Value {
			ex.sleepWeak = true
			ex.stub("time.Sleep may return early (clock advances by >= 0)")
			return nil
		},
		// contract model of compression: UnzipModel(ZipModel(x)) == x; ZipModel(x) is the
		// marker byte 0x1f followed by x (its length is therefore NOT arbitrary: stated)
		z + "ZipModel": func(ex *Exec, fn *ssa.Function, args []Value, site token.Pos) Value {
			in := args[0].(SliceV)
			if in.arr.obj == nil {
				return TupleV{SliceV{}, ex.mkError(ex.concStr("error input data is nil "))}
			}
			bs := append([]*Term{ex.tc.Const(8, 0x1f)}, ex.sliceTerms(in)...)
			return TupleV{ex.byteSlice(bs), IfaceV{}}
		},
		z + "UnzipModel": func(ex *Exec, fn *ssa.Function, args []Value, site token.Pos) Value {
			in := args[0].(SliceV)
			if in.len == 0 {
				return TupleV{ex.byteSlice(nil), ex.mkError(ex.concStr("EOF"))}
			}
			bs := ex.sliceTerms(in)
			isz := ex.tc.Eq(bs[0], ex.tc.Const(8, 0x1f))
			ok := true
			if isz.IsConst() {
				ok = isz.val != 0
			} else {
				ok = ex.fork(isz)
			}
			if !ok {
				return TupleV{ex.byteSlice(nil), ex.mkError(ex.concStr("gzip: invalid header"))}
			}
			return TupleV{ex.byteSlice(bs[1:]), IfaceV{}}
		},
		z + "Thorough": func(ex *Exec, fn *ssa.Function, args []Value, site token.Pos) Value {
			return ex.tc.Bool(ex.job != nil && ex.job.Cfg.Tier == "thorough")
		},
		z + "Native": func(ex *Exec, fn *ssa.Function, args []Value, site token.Pos) Value { return ex.tc.False },

		// ---- math ----
		"math.Float32bits":     func(ex *Exec, fn *ssa.Function, a []Value, site token.Pos) Value { return a[0] },
		"math.Float32frombits": func(ex *Exec, fn *ssa.Function, a []Value, site token.Pos) Value { return a[0] },
		"math.Float64bits":     func(ex *Exec, fn *ssa.Function, a []Value, site token.Pos) Value { return a[0] },
		"math.Float64frombits": func(ex *Exec, fn *ssa.Function, a []Value, site token.Pos) Value { return a[0] },
		"math.archFloor":       mathNative1(math.Floor),
		"math.archCeil":        mathNative1(math.Ceil),
		"math.archTrunc":       mathNative1(math.Trunc),
		"math.archSqrt":        mathNative1(math.Sqrt),
		"math.sqrt":            mathNative1(math.Sqrt),
		"math.Sqrt":            mathNative1(math.Sqrt),
		"math.Log":             mathNative1(math.Log),
		"math.archLog":         mathNative1(math.Log),
		"math.Exp":             mathNative1(math.Exp),
		"math.archExp":         mathNative1(math.Exp),
		"math.Pow": func(ex *Exec, fn *ssa.Function, a []Value, site token.Pos) Value {
			x, y := a[0].(*Term), a[1].(*Term)
			if !x.IsConst() || !y.IsConst() {
				ex.unsupported("math.Pow of symbolic value")
			}
			return ex.tc.Const(64, math.Float64bits(math.Pow(f64(x.val), f64(y.val))))
		},
		// regexp.MatchString on concrete operands: evaluated natively (the pattern compiler is
		// deterministic library code; with a symbolic operand the real code is executed)
		"regexp.MatchString": func(ex *Exec, fn *ssa.Function, a []Value, site token.Pos) Value {
			pat, s := a[0].(*StrV), a[1].(*StrV)
			if !pat.Concrete() || !s.Concrete() {
				return notHandled
			}
			m, err := regexp.MatchString(pat.s, s.s)
			if err != nil {
				return notHandled
			}
			return TupleV{ex.tc.Bool(m), IfaceV{}}
		},
		"math.archMax": func(ex *Exec, fn *ssa.Function, a []Value, site token.Pos) Value {
			return ex.callFunction(fn.Pkg.Func("max"), a, nil, site) // the portable Go implementation
		},
		"math.archMin": func(ex *Exec, fn *ssa.Function, a []Value, site token.Pos) Value {
			return ex.callFunction(fn.Pkg.Func("min"), a, nil, site)
		},
		"math.IsNaN": func(ex *Exec, fn *ssa.Function, a []Value, site token.Pos) Value { return ex.tc.FIsNaN(a[0].(*Term)) },

		// ---- sync (ghost) ----
		"(*sync.Mutex).Lock":      func(ex *Exec, fn *ssa.Function, a []Value, site token.Pos) Value { ex.lock(a[0].(Ptr), false, site); return nil },
		"(*sync.Mutex).Unlock":    func(ex *Exec, fn *ssa.Function, a []Value, site token.Pos) Value { ex.unlock(a[0].(Ptr), false, site); return nil },
		"(*sync.Mutex).TryLock":   func(ex *Exec, fn *ssa.Function, a []Value, site token.Pos) Value { return ex.tc.Bool(ex.tryLock(a[0].(Ptr))) },
		"(*sync.RWMutex).Lock":    func(ex *Exec, fn *ssa.Function, a []Value, site token.Pos) Value { ex.lock(a[0].(Ptr), false, site); return nil },
		"(*sync.RWMutex).Unlock":  func(ex *Exec, fn *ssa.Function, a []Value, site token.Pos) Value { ex.unlock(a[0].(Ptr), false, site); return nil },
		"(*sync.RWMutex).RLock":   func(ex *Exec, fn *ssa.Function, a []Value, site token.Pos) Value { ex.lock(a[0].(Ptr), true, site); return nil },
		"(*sync.RWMutex).RUnlock": func(ex *Exec, fn *ssa.Function, a []Value, site token.Pos) Value { ex.unlock(a[0].(Ptr), true, site); return nil },
		"(*sync.Cond).Wait": func(ex *Exec, fn *ssa.Function, a []Value, site token.Pos) Value {
			ex.condWait(a[0].(Ptr), site)
			return nil
		},
		"(*sync.Cond).Signal":    func(ex *Exec, fn *ssa.Function, a []Value, site token.Pos) Value { ex.event("signal " + ex.cellName(a[0].(Ptr))); return nil },
		"(*sync.Cond).Broadcast": func(ex *Exec, fn *ssa.Function, a []Value, site token.Pos) Value { ex.event("broadcast " + ex.cellName(a[0].(Ptr))); return nil },
		"(*sync.WaitGroup).Add":  func(ex *Exec, fn *ssa.Function, a []Value, site token.Pos) Value { return nil },
		"(*sync.WaitGroup).Done": func(ex *Exec, fn *ssa.Function, a []Value, site token.Pos) Value { return nil },
		"(*sync.WaitGroup).Wait": func(ex *Exec, fn *ssa.Function, a []Value, site token.Pos) Value { return nil },
		"(*sync.Once).Do": func(ex *Exec, fn *ssa.Function, a []Value, site token.Pos) Value {
			p := a[0].(Ptr)
			k := "once " + ex.cellName(p)
			if _, done := ex.ghost[k]; done {
				return nil
			}
			ex.ghost[k] = true
			ex.callValue(a[1], nil, site)
			return nil
		},
		"(*sync.Pool).Get": func(ex *Exec, fn *ssa.Function, a []Value, site token.Pos) Value {
			p := a[0].(Ptr)
			k := ex.cellName(p)
			ex.stub("sync.Pool (LIFO model: Get returns the last Put or New())")
			if l := ex.pool[k]; len(l) > 0 {
				v := l[len(l)-1]
				ex.pool[k] = l[:len(l)-1]
				return v
			}
			// field New is the last field of sync.Pool
			st := p.obj.typ
			_ = st
			pv := ex.load(p).(*StructV)
			newf := pv.f[len(pv.f)-1]
			if f, ok := newf.(*FuncV); ok && f != nil {
				return ex.callValue(f, nil, site)
			}
			return IfaceV{}
		},
		"(*sync.Pool).Put": func(ex *Exec, fn *ssa.Function, a []Value, site token.Pos) Value {
			k := ex.cellName(a[0].(Ptr))
			if iv, ok := a[1].(IfaceV); ok && iv.t == nil {
				return nil
			}
			ex.pool[k] = append(ex.pool[k], a[1])
			return nil
		},

		// ---- sync/atomic.Value: one interface-typed ghost cell per Value ----
		"(*sync/atomic.Value).Load": func(ex *Exec, fn *ssa.Function, a []Value, site token.Pos) Value {
			if v, ok := ex.ghost["atomic.Value "+ex.cellName(a[0].(Ptr))]; ok {
				return v
			}
			return IfaceV{}
		},
		"(*sync/atomic.Value).Store": func(ex *Exec, fn *ssa.Function, a []Value, site token.Pos) Value {
			if iv, ok := a[1].(IfaceV); ok && iv.t == nil {
				ex.rtPanic("sync/atomic: store of nil value into Value")
			}
			ex.ghost["atomic.Value "+ex.cellName(a[0].(Ptr))] = a[1]
			return nil
		},
		"(*sync/atomic.Value).Swap": func(ex *Exec, fn *ssa.Function, a []Value, site token.Pos) Value {
			k := "atomic.Value " + ex.cellName(a[0].(Ptr))
			old, ok := ex.ghost[k]
			ex.ghost[k] = a[1]
			if !ok {
				return IfaceV{}
			}
			return old
		},
		// ---- sync/atomic as plain memory on one logical thread ----
		"sync/atomic.LoadInt32": atomicLoad, "sync/atomic.LoadInt64": atomicLoad, "sync/atomic.LoadUint32": atomicLoad, "sync/atomic.LoadUint64": atomicLoad, "sync/atomic.LoadPointer": atomicLoad, "sync/atomic.LoadUintptr": atomicLoad,
		"sync/atomic.StoreInt32": atomicStore, "sync/atomic.StoreInt64": atomicStore, "sync/atomic.StoreUint32": atomicStore, "sync/atomic.StoreUint64": atomicStore, "sync/atomic.StorePointer": atomicStore, "sync/atomic.StoreUintptr": atomicStore,
		"sync/atomic.AddInt32": atomicAdd, "sync/atomic.AddInt64": atomicAdd, "sync/atomic.AddUint32": atomicAdd, "sync/atomic.AddUint64": atomicAdd,
		"sync/atomic.CompareAndSwapInt32": atomicCAS, "sync/atomic.CompareAndSwapInt64": atomicCAS, "sync/atomic.CompareAndSwapUint32": atomicCAS, "sync/atomic.CompareAndSwapUint64": atomicCAS,
		"sync/atomic.SwapInt32": atomicSwap, "sync/atomic.SwapInt64": atomicSwap, "sync/atomic.SwapUint32": atomicSwap, "sync/atomic.SwapUint64": atomicSwap,

		// ---- strings.Builder / unsafe-based helpers ----
		"(*strings.Builder).String": func(ex *Exec, fn *ssa.Function, a []Value, site token.Pos) Value {
			b := ex.load(extendPath(a[0].(Ptr), 1)).(SliceV)
			return ex.mkStr(ex.sliceTerms(b))
		},
		"(*strings.Builder).copyCheck": func(ex *Exec, fn *ssa.Function, a []Value, site token.Pos) Value { return nil },
		"internal/bytealg.MakeNoZero": func(ex *Exec, fn *ssa.Function, a []Value, site token.Pos) Value {
			n := int(ex.argInt(a[0]))
			return ex.makeSlice(types.Typ[types.Uint8], n, n)
		},
		"internal/bytealg.IndexByteString": func(ex *Exec, fn *ssa.Function, a []Value, site token.Pos) Value {
			s := a[0].(*StrV)
			ex.checkOpaque(s)
			return ex.indexByte(ex.strBytes(s), a[1].(*Term))
		},
		"internal/bytealg.IndexByte": func(ex *Exec, fn *ssa.Function, a []Value, site token.Pos) Value {
			return ex.indexByte(ex.sliceTerms(a[0].(SliceV)), a[1].(*Term))
		},
		"internal/bytealg.Equal": func(ex *Exec, fn *ssa.Function, a []Value, site token.Pos) Value {
			return ex.strEq(ex.mkStr(ex.sliceTerms(a[0].(SliceV))), ex.mkStr(ex.sliceTerms(a[1].(SliceV))))
		},
		"bytes.Equal": func(ex *Exec, fn *ssa.Function, a []Value, site token.Pos) Value {
			return ex.strEq(ex.mkStr(ex.sliceTerms(a[0].(SliceV))), ex.mkStr(ex.sliceTerms(a[1].(SliceV))))
		},
		"internal/bytealg.Compare": func(ex *Exec, fn *ssa.Function, a []Value, site token.Pos) Value {
			x, y := ex.mkStr(ex.sliceTerms(a[0].(SliceV))), ex.mkStr(ex.sliceTerms(a[1].(SliceV)))
			return ex.strCompare(x, y)
		},
		"internal/bytealg.CompareString": func(ex *Exec, fn *ssa.Function, a []Value, site token.Pos) Value {
			return ex.strCompare(a[0].(*StrV), a[1].(*StrV))
		},
		"strings.Compare": func(ex *Exec, fn *ssa.Function, a []Value, site token.Pos) Value {
			return ex.strCompare(a[0].(*StrV), a[1].(*StrV))
		},
		"internal/bytealg.CountString": func(ex *Exec, fn *ssa.Function, a []Value, site token.Pos) Value {
			return ex.countByte(ex.strBytes(a[0].(*StrV)), a[1].(*Term))
		},
		"internal/bytealg.Count": func(ex *Exec, fn *ssa.Function, a []Value, site token.Pos) Value {
			return ex.countByte(ex.sliceTerms(a[0].(SliceV)), a[1].(*Term))
		},
		"internal/bytealg.IndexString": func(ex *Exec, fn *ssa.Function, a []Value, site token.Pos) Value {
			return ex.indexString(a[0].(*StrV), a[1].(*StrV))
		},
		"strings.Index": func(ex *Exec, fn *ssa.Function, a []Value, site token.Pos) Value {
			return ex.indexString(a[0].(*StrV), a[1].(*StrV))
		},
		"internal/bytealg.Index": func(ex *Exec, fn *ssa.Function, a []Value, site token.Pos) Value {
			return ex.indexString(ex.mkStr(ex.sliceTerms(a[0].(SliceV))), ex.mkStr(ex.sliceTerms(a[1].(SliceV))))
		},
		"internal/stringslite.Index": func(ex *Exec, fn *ssa.Function, a []Value, site token.Pos) Value {
			return ex.indexString(a[0].(*StrV), a[1].(*StrV))
		},

		"internal/reflectlite.TypeOf": func(ex *Exec, fn *ssa.Function, a []Value, site token.Pos) Value { ex.unsupported("reflection"); return nil },
		"internal/reflectlite.ValueOf": func(ex *Exec, fn *ssa.Function, a []Value, site token.Pos) Value { ex.unsupported("reflection"); return nil },
		"reflect.TypeOf": func(ex *Exec, fn *ssa.Function, a []Value, site token.Pos) Value { ex.unsupported("reflection"); return nil },
		"reflect.ValueOf": func(ex *Exec, fn *ssa.Function, a []Value, site token.Pos) Value { ex.unsupported("reflection"); return nil },
		// ---- runtime ----
		"runtime.Gosched": noopIntrinsic, "runtime.GC": noopIntrinsic, "runtime.KeepAlive": noopIntrinsic, "runtime.SetFinalizer": noopIntrinsic,
		"runtime.Caller": noopIntrinsic, "runtime.NumGoroutine": noopIntrinsic, "runtime.Stack": noopIntrinsic,
		"time.now": func(ex *Exec, fn *ssa.Function, a []Value, site token.Pos) Value {
			ex.stub("time.now (fixed instant 2026-09-21T17:46:40Z; natively the real clock)")
			return TupleV{ex.tc.Const(64, 1790012800), ex.tc.Const(32, 0), ex.tc.Const(64, 1)}
		},
		"time.initLocal": func(ex *Exec, fn *ssa.Function, a []Value, site token.Pos) Value {
			ex.stub("time.initLocal (local zone = UTC; natively the sandbox's zone, which is UTC)")
			return nil
		},
		"time.runtimeNano": func(ex *Exec, fn *ssa.Function, a []Value, site token.Pos) Value { return ex.tc.Const(64, 1) },
		"os.Exit": func(ex *Exec, fn *ssa.Function, a []Value, site token.Pos) Value { ex.abort("exit", "os.Exit called"); return nil },
		"os.Getenv": func(ex *Exec, fn *ssa.Function, a []Value, site token.Pos) Value {
			ex.stub("os.Getenv (returns \"\")")
			return &StrV{}
		},
		"time.Sleep": func(ex *Exec, fn *ssa.Function, a []Value, site token.Pos) Value {
			ex.stub("time.Sleep (virtual clock advances by >= d)")
			ex.sleep(a[0].(*Term))
			if c := ex.cur; c != nil {
				// a sleeping coroutine lets the main thread run (it is resumed when the main
				// thread blocks again)
				c.state = coRunnable
				ex.coBlock(c)
				return nil
			}
			if ex.waitBudget > 0 && ex.onWait != nil {
				ex.waitBudget--
				ex.callValue(ex.onWait, nil, site)
			}
			return nil
		},

		// ---- fmt ----
		"fmt.Sprintf":  fmtIntr(true, true),
		"fmt.Sprint":   fmtIntr(false, true),
		"fmt.Sprintln": fmtIntr(false, true),
		"fmt.Errorf":   fmtIntr(true, false),
		"fmt.Println":  noopIntrinsic, "fmt.Printf": noopIntrinsic, "fmt.Print": noopIntrinsic, "fmt.Fprintf": noopIntrinsic, "fmt.Fprintln": noopIntrinsic, "fmt.Fprint": noopIntrinsic,
	}
}

func mathNative1(f func(float64) float64) intrinsicFn {
	return func(ex *Exec, fn *ssa.Function, a []Value, site token.Pos) Value {
		x := a[0].(*Term)
		if !x.IsConst() {
			ex.unsupported("%s of symbolic value", fn.String())
		}
		return ex.tc.Const(64, math.Float64bits(f(f64(x.val))))
	}
}

func atomicLoad(ex *Exec, fn *ssa.Function, a []Value, site token.Pos) Value { return ex.load(a[0].(Ptr)) }
func atomicStore(ex *Exec, fn *ssa.Function, a []Value, site token.Pos) Value {
	ex.store(a[0].(Ptr), a[1])
	return nil
}
func atomicAdd(ex *Exec, fn *ssa.Function, a []Value, site token.Pos) Value {
	p := a[0].(Ptr)
	n := ex.tc.Bin(OAdd, ex.load(p).(*Term), a[1].(*Term))
	ex.store(p, n)
	return n
}
func atomicSwap(ex *Exec, fn *ssa.Function, a []Value, site token.Pos) Value {
	p := a[0].(Ptr)
	old := ex.load(p)
	ex.store(p, a[1])
	return old
}
func atomicCAS(ex *Exec, fn *ssa.Function, a []Value, site token.Pos) Value {
	p := a[0].(Ptr)
	old := ex.load(p).(*Term)
	eq := ex.tc.Eq(old, a[1].(*Term))
	ex.store(p, ex.tc.Ite(eq, a[2].(*Term), old))
	return eq
}

func (ex *Exec) freshBytes(n int) []*Term {
	bs := make([]*Term, n)
	base := ex.nvars
	for i := range bs {
		bs[i] = ex.tc.Var(fmt.Sprintf("v%d_b%d", base, i), 8)
	}
	ex.nvars++
	ex.inputs = append(ex.inputs, inputRec{T: "bytes", N: n, vars: bs})
	return bs
}

// runCatching runs closure f, catching a target panic.
func (ex *Exec) runCatching(f Value) (panicked bool, msg string) {
	savedFrame, savedDepth := ex.frame, ex.depth
	savedLocks := ex.snapshotLocks()
	defer func() {
		if r := recover(); r != nil {
			tp, ok := r.(targetPanic)
			if !ok {
				panic(r)
			}
			ex.frame, ex.depth = savedFrame, savedDepth
			_ = savedLocks
			panicked, msg = true, tp.msg
		}
	}()
	ex.callValue(f, nil, token.NoPos)
	return false, ""
}

func (ex *Exec) indexByte(bs []*Term, c *Term) Value {
	r := ex.tc.Const(64, ^uint64(0))
	for i := len(bs) - 1; i >= 0; i-- {
		r = ex.tc.Ite(ex.tc.Eq(bs[i], c), ex.tc.Const(64, uint64(i)), r)
	}
	return r
}

func (ex *Exec) countByte(bs []*Term, c *Term) Value {
	r := ex.tc.Const(64, 0)
	for _, b := range bs {
		r = ex.tc.Bin(OAdd, r, ex.tc.B2BV(ex.tc.Eq(b, c), 64))
	}
	return r
}

func (ex *Exec) strCompare(a, b *StrV) Value {
	lt := ex.strLess(a, b)
	eq := ex.strEq(a, b)
	return ex.tc.Ite(eq, ex.tc.Const(64, 0), ex.tc.Ite(lt, ex.tc.Const(64, ^uint64(0)), ex.tc.Const(64, 1)))
}

func (ex *Exec) indexString(s, sub *StrV) Value {
	ex.checkOpaque(s)
	if s.Concrete() && sub.Concrete() {
		return ex.tc.Const(64, uint64(int64(strings.Index(s.s, sub.s))))
	}
	sb, pb := ex.strBytes(s), ex.strBytes(sub)
	r := ex.tc.Const(64, ^uint64(0))
	for i := len(sb) - len(pb); i >= 0; i-- {
		m := ex.tc.True
		for j := range pb {
			m = ex.tc.And(m, ex.tc.Eq(sb[i+j], pb[j]))
		}
		r = ex.tc.Ite(m, ex.tc.Const(64, uint64(i)), r)
	}
	return r
}

// ---------- fmt ----------

func fmtIntr(hasFormat, retString bool) intrinsicFn {
	return func(ex *Exec, fn *ssa.Function, a []Value, site token.Pos) Value {
		var format string
		var argv SliceV
		if hasFormat {
			f := a[0].(*StrV)
			if !f.Concrete() {
				ex.unsupported("symbolic format string")
			}
			format = f.s
			argv, _ = a[1].(SliceV)
		} else {
			argv, _ = a[0].(SliceV)
		}
		nat := make([]interface{}, argv.len)
		allConc := true
		for i := 0; i < argv.len; i++ {
			v, ok := ex.toNative(ex.sliceGet(argv, i))
			if !ok {
				allConc = false
				break
			}
			nat[i] = v
		}
		var out string
		if allConc {
			switch fn.Name() {
			case "Sprintf", "Errorf":
				out = fmt.Sprintf(format, nat...)
			case "Sprint":
				out = fmt.Sprint(nat...)
			case "Sprintln":
				out = fmt.Sprintln(nat...)
			}
		} else if sv, ok := ex.symFormat(fn.Name(), format, argv); ok {
			if fn.Name() == "Errorf" {
				return ex.mkError(sv)
			}
			return sv
		} else {
			out = opaqueMark
		}
		if fn.Name() == "Errorf" {
			return ex.mkError(ex.concStr(out))
		}
		return ex.concStr(out)
	}
}

// symFormat handles the simple formats with symbolic arguments: only %s / %v of strings
// and plain Sprint of strings (concatenation). Everything else is opaque.
func (ex *Exec) symFormat(name, format string, argv SliceV) (*StrV, bool) {
	strArg := func(i int) (*StrV, bool) {
		if i >= argv.len {
			return nil, false
		}
		iv, ok := ex.sliceGet(argv, i).(IfaceV)
		if !ok {
			return nil, false
		}
		if s, ok := iv.v.(*StrV); ok {
			return s, true
		}
		// error / Stringer operands: fmt prints Error() / String(); run the method symbolically
		if iv.t != nil && iv.t != rtErrType {
			for _, mname := range []string{"Error", "String"} {
				if m := ex.findMethod(iv.t, mname); m != nil && m.Signature.Params().Len() == 0 && m.Signature.Results().Len() == 1 {
					if b, ok := m.Signature.Results().At(0).Type().Underlying().(*types.Basic); ok && b.Kind() == types.String {
						if r, ok := ex.callFunction(m, []Value{iv.v}, nil, token.NoPos).(*StrV); ok && !strings.Contains(r.s, opaqueMark) {
							return r, true
						}
						return nil, false
					}
				}
			}
		}
		return nil, false
	}
	var out []*Term
	switch name {
	case "Sprintf", "Errorf":
		ai := 0
		for i := 0; i < len(format); i++ {
			if format[i] != '%' {
				out = append(out, ex.tc.Const(8, uint64(format[i])))
				continue
			}
			if i+1 >= len(format) {
				return nil, false
			}
			i++
			// flags / width: only %0Nd and %Nd (zero or space padding) are modelled
			pad := byte(' ')
			width := 0
			if format[i] == '0' {
				pad = '0'
				i++
			}
			for i < len(format) && format[i] >= '0' && format[i] <= '9' {
				width = width*10 + int(format[i]-'0')
				i++
			}
			if i >= len(format) {
				return nil, false
			}
			switch format[i] {
			case '%':
				out = append(out, ex.tc.Const(8, '%'))
			case 's', 'v', 'd':
				s, ok := strArg(ai)
				if !ok && ai < argv.len {
					if iv, isI := ex.sliceGet(argv, ai).(IfaceV); isI {
						s, ok = ex.fmtDecimalArg(iv)
					}
				}
				if !ok {
					return nil, false
				}
				ai++
				bs := ex.strBytes(s)
				if len(bs) < width {
					if pad == '0' && len(bs) > 0 && bs[0].IsConst() && bs[0].val == '-' {
						return nil, false // sign-aware zero padding not modelled
					}
					for k := len(bs); k < width; k++ {
						out = append(out, ex.tc.Const(8, uint64(pad)))
					}
				}
				out = append(out, bs...)
			default:
				return nil, false
			}
		}
		return ex.mkStr(out), true
	case "Sprintln":
		for i := 0; i < argv.len; i++ {
			if i > 0 {
				out = append(out, ex.tc.Const(8, ' '))
			}
			if s, ok := strArg(i); ok {
				out = append(out, ex.strBytes(s)...)
				continue
			}
			nv, ok := ex.toNative(ex.sliceGet(argv, i))
			if !ok {
				return nil, false
			}
			for _, c := range []byte(fmt.Sprint(nv)) {
				out = append(out, ex.tc.Const(8, uint64(c)))
			}
		}
		out = append(out, ex.tc.Const(8, '\n'))
		return ex.mkStr(out), true
	case "Sprint":
		for i := 0; i < argv.len; i++ {
			s, ok := strArg(i)
			if !ok {
				if iv, isI := ex.sliceGet(argv, i).(IfaceV); isI && argv.len == 1 {
					s, ok = ex.fmtDecimalArg(iv)
				}
			}
			if !ok {
				return nil, false
			}
			out = append(out, ex.strBytes(s)...)
		}
		return ex.mkStr(out), true
	}
	return nil, false
}

// mkError builds an error value by running the real errors.New.
func (ex *Exec) mkError(msg *StrV) Value {
	pkg := ex.P.prog.ImportedPackage("errors")
	if pkg == nil {
		ex.unsupported("errors package not loaded")
	}
	return ex.callFunction(pkg.Func("New"), []Value{msg}, nil, token.NoPos)
}

// toNative converts a fully concrete executor value to a Go value for native fmt.
func (ex *Exec) toNative(v Value) (interface{}, bool) {
	switch x := v.(type) {
	case IfaceV:
		if x.t == nil {
			return nil, true
		}
		if x.t == rtErrType {
			return x.v.(*StrV).s, true
		}
		// error / Stringer: call the method in target space
		for _, mname := range []string{"Error", "String"} {
			if m := ex.findMethod(x.t, mname); m != nil && m.Signature.Params().Len() == 0 && m.Signature.Results().Len() == 1 {
				if b, ok := m.Signature.Results().At(0).Type().Underlying().(*types.Basic); ok && b.Kind() == types.String {
					r := ex.callFunction(m, []Value{x.v}, nil, token.NoPos)
					if s, ok := r.(*StrV); ok && s.Concrete() {
						if strings.Contains(s.s, opaqueMark) {
							return nil, false
						}
						return s.s, true
					}
					return nil, false
				}
			}
		}
		return ex.toNativeTyped(x.v, x.t)
	}
	return nil, false
}

func (ex *Exec) toNativeTyped(v Value, t types.Type) (interface{}, bool) {
	switch x := v.(type) {
	case *Term:
		if !x.IsConst() {
			return nil, false
		}
		b, ok := t.Underlying().(*types.Basic)
		if !ok {
			return nil, false
		}
		switch b.Kind() {
		case types.Bool:
			return x.val != 0, true
		case types.Int:
			return int(x.val), true
		case types.Int8:
			return int8(x.val), true
		case types.Int16:
			return int16(x.val), true
		case types.Int32:
			return int32(x.val), true
		case types.Int64:
			return int64(x.val), true
		case types.Uint:
			return uint(x.val), true
		case types.Uint8:
			return uint8(x.val), true
		case types.Uint16:
			return uint16(x.val), true
		case types.Uint32:
			return uint32(x.val), true
		case types.Uint64, types.Uintptr:
			return x.val, true
		case types.Float32:
			return f32(x.val), true
		case types.Float64:
			return f64(x.val), true
		}
	case *StrV:
		if x.Concrete() {
			if strings.Contains(x.s, opaqueMark) {
				return nil, false
			}
			return x.s, true
		}
		return nil, false
	case SliceV:
		if st, ok := t.Underlying().(*types.Slice); ok {
			if b, ok := st.Elem().Underlying().(*types.Basic); ok && b.Kind() == types.Uint8 {
				ts := ex.sliceTerms(x)
				out := make([]byte, len(ts))
				for i, e := range ts {
					if !e.IsConst() {
						return nil, false
					}
					out[i] = byte(e.val)
				}
				return out, true
			}
		}
		return fmt.Sprintf("<slice len=%d>", x.len), true
	case Ptr:
		if x.obj == nil {
			return nil, true
		}
		return fmt.Sprintf("<ptr obj%d>", x.obj.id), true
	case *StructV:
		return "<struct>", true
	case *MapV:
		return "<map>", true
	case nil:
		return nil, true
	}
	return fmt.Sprintf("<%T>", v), true
}

func (ex *Exec) findMethod(t types.Type, name string) *ssa.Function {
	if t == rtErrType {
		return nil
	}
	sel := ex.P.prog.MethodSets.MethodSet(t).Lookup(nil, name)
	if sel == nil {
		return nil
	}
	return ex.P.prog.MethodValue(sel)
}
