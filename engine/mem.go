package main

// Heap access. Objects created during package initialisation are frozen and shared by
// all paths; a path that writes to one first clones it into its private overlay.

import (
	"fmt"
	"go/types"
)

func (ex *Exec) newObject(v Value, t types.Type, label string) *Object {
	ex.nextObj++
	o := &Object{id: ex.nextObj, val: v, typ: t, label: label}
	if ex.initMode {
		o.frozen = true
		o.id = -ex.nextObj
	}
	return o
}

// importVal rebuilds constant terms of a frozen object's value in this executor's term
// context (terms are hash-consed per context).
func (ex *Exec) importVal(v Value) Value {
	switch x := v.(type) {
	case *Term:
		if x.op != OConst {
			panic("symbolic term in frozen heap")
		}
		return ex.tc.Const(int(x.w), x.val)
	case *StructV:
		n := &StructV{f: make([]Value, len(x.f))}
		for i, e := range x.f {
			n.f[i] = ex.importVal(e)
		}
		return n
	case *ArrV:
		n := &ArrV{e: make([]Value, len(x.e))}
		for i, e := range x.e {
			n.e[i] = ex.importVal(e)
		}
		return n
	case IfaceV:
		return IfaceV{t: x.t, v: ex.importVal(x.v)}
	case TupleV:
		n := make(TupleV, len(x))
		for i, e := range x {
			n[i] = ex.importVal(e)
		}
		return n
	case *MapData:
		n := &MapData{keys: make([]Value, len(x.keys)), vals: make([]Value, len(x.vals))}
		for i := range x.keys {
			n.keys[i] = ex.importVal(x.keys[i])
			n.vals[i] = ex.importVal(x.vals[i])
		}
		return n
	}
	return v
}

func (ex *Exec) readObj(o *Object) (*Object, bool) {
	if o.frozen && !ex.initMode {
		if c, ok := ex.overlay[o]; ok {
			return c, false
		}
		return o, true
	}
	return o, false
}

func (ex *Exec) writeObj(o *Object) *Object {
	if o.frozen && !ex.initMode {
		if c, ok := ex.overlay[o]; ok {
			return c
		}
		c := &Object{id: o.id, typ: o.typ, label: o.label, val: ex.importVal(o.val)}
		ex.overlay[o] = c
		return c
	}
	return o
}

func step(v Value, i int) Value {
	switch x := v.(type) {
	case *StructV:
		return x.f[i]
	case *ArrV:
		if i < 0 || i >= len(x.e) {
			panic(fmt.Sprintf("executor: path index %d out of range %d", i, len(x.e)))
		}
		return x.e[i]
	}
	panic(fmt.Sprintf("executor: cannot step into %T", v))
}

func (ex *Exec) load(p Ptr) Value {
	if p.obj == nil {
		ex.rtPanic("invalid memory address or nil pointer dereference")
	}
	o, foreign := ex.readObj(p.obj)
	v := o.val
	for _, i := range p.path {
		v = step(v, i)
	}
	if p.sym != nil {
		arr := v.(*ArrV)
		n := p.symN
		if n > len(arr.e) {
			n = len(arr.e)
		}
		// ite chain; index already constrained < n by the bounds check
		var r *Term
		for i := n - 1; i >= 0; i-- {
			e := arr.e[i].(*Term)
			if foreign {
				e = ex.tc.Const(int(e.w), e.val)
			}
			if r == nil {
				r = e
			} else {
				r = ex.tc.Ite(ex.tc.Eq(p.sym, ex.tc.Const(int(p.sym.w), uint64(i))), e, r)
			}
		}
		ex.recordAccess(p, false)
		return r
	}
	ex.recordAccess(p, false)
	if foreign {
		return ex.importVal(v)
	}
	return copyVal(v)
}

func (ex *Exec) store(p Ptr, val Value) {
	if p.obj == nil {
		ex.rtPanic("invalid memory address or nil pointer dereference")
	}
	o := ex.writeObj(p.obj)
	ex.recordAccess(p, true)
	val = copyVal(val)
	if len(p.path) == 0 && p.sym == nil {
		o.val = val
		return
	}
	v := o.val
	if p.sym != nil {
		for _, i := range p.path {
			v = step(v, i)
		}
		arr := v.(*ArrV)
		n := p.symN
		if n > len(arr.e) {
			n = len(arr.e)
		}
		nv := val.(*Term)
		for i := 0; i < n; i++ {
			arr.e[i] = ex.tc.Ite(ex.tc.Eq(p.sym, ex.tc.Const(int(p.sym.w), uint64(i))), nv, arr.e[i].(*Term))
		}
		return
	}
	for _, i := range p.path[:len(p.path)-1] {
		v = step(v, i)
	}
	last := p.path[len(p.path)-1]
	switch x := v.(type) {
	case *StructV:
		x.f[last] = val
	case *ArrV:
		x.e[last] = val
	default:
		panic(fmt.Sprintf("executor: store into %T", v))
	}
}

func extendPath(p Ptr, i int) Ptr {
	np := make([]int, len(p.path)+1)
	copy(np, p.path)
	np[len(p.path)] = i
	return Ptr{obj: p.obj, path: np}
}

func ptrEq(a, b Ptr) bool {
	if a.obj != b.obj || len(a.path) != len(b.path) {
		return false
	}
	for i := range a.path {
		if a.path[i] != b.path[i] {
			return false
		}
	}
	return true
}

// sliceElemPtr returns the pointer to element i of a slice.
func sliceElemPtr(s SliceV, i int) Ptr { return extendPath(s.arr, s.off+i) }

func (ex *Exec) sliceGet(s SliceV, i int) Value { return ex.load(sliceElemPtr(s, i)) }

func (ex *Exec) sliceSet(s SliceV, i int, v Value) { ex.store(sliceElemPtr(s, i), v) }

func (ex *Exec) makeSlice(elem types.Type, n, cp int) SliceV {
	arr := &ArrV{e: make([]Value, cp)}
	if isScalarType(elem) {
		z := ex.zero(elem)
		for i := range arr.e {
			arr.e[i] = z
		}
	} else {
		for i := range arr.e {
			arr.e[i] = ex.zero(elem)
		}
	}
	o := ex.newObject(arr, types.NewArray(elem, int64(cp)), "make")
	return SliceV{arr: Ptr{obj: o}, off: 0, len: n, cap: cp}
}

// byteSlice builds a []byte slice value from terms.
func (ex *Exec) byteSlice(bs []*Term) SliceV {
	arr := &ArrV{e: make([]Value, len(bs))}
	for i, b := range bs {
		arr.e[i] = b
	}
	o := ex.newObject(arr, types.NewArray(types.Typ[types.Uint8], int64(len(bs))), "bytes")
	return SliceV{arr: Ptr{obj: o}, len: len(bs), cap: len(bs)}
}

func (ex *Exec) sliceTerms(s SliceV) []*Term {
	out := make([]*Term, s.len)
	for i := 0; i < s.len; i++ {
		out[i] = ex.sliceGet(s, i).(*Term)
	}
	return out
}
